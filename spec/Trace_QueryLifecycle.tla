---------------------- MODULE Trace_QueryLifecycle ----------------------
(***************************************************************************)
(* Trace validator for Server.Query and its sender goroutine.  The harness *)
(* (harness/cmd/life) logs what it sees and does at the boundaries it owns:*)
(*   Start            a new query scenario (resets the state; cfg)         *)
(*   Close, CancelCtx what the harness did                                 *)
(*   Call             the API call is made (in its own goroutine)          *)
(*   SendBegin(i)     Conn.WriteTo entered with the transaction's `t`      *)
(*   Send(i, res)     ... and left: written, or failed with an injected    *)
(*                    error                                                *)
(*   ResendDelayCall(k), DelayRet(k, dec)  QueryResendDelay entered / left *)
(*   DeliverReply(acc, txns)  a reply echoing `t` was injected from the    *)
(*                    queried address; acc = a pending transaction went    *)
(*                    away, txns = Stats().OutstandingTransactions after   *)
(*   Ret(class, writes)  the API call returned                             *)
(*   Quiesce(txns, gor, dgrams, hung)  what is left once nothing changes    *)
(*                    any more (hung: the call never returned)             *)
(* Everything else (select choices, cancelSend, the join, timers firing,   *)
(* sends refused before the socket) is a silent step of QueryLifecycle.    *)
(* Strict = TRUE: every line must be a step of the specification.          *)
(* Strict = FALSE (second opinion on a rejected segment): only the observer*)
(* `o` follows the log, and the Obs* invariants judge what was seen.       *)
(***************************************************************************)
EXTENDS QueryLifecycle, Json

CONSTANT Strict

VARIABLES l,    \* next line of the trace
          obs   \* the Quiesce line
tvars == <<vars, l, obs>>

TraceLog == ndJsonDeserialize("trace.ndjson")
Ev == TraceLog[l]
IsEvent(e) == l <= Len(TraceLog) /\ Ev.e = e /\ l' = l + 1
NoObs == [set |-> FALSE, txns |-> 0, gor |-> 0, dgrams |-> 0, hung |-> FALSE]

TraceInit == InitWith([n |-> 1, budget |-> -1, bwait |-> FALSE]) /\ l = 1 /\ obs = NoObs

TraceStart ==
  /\ IsEvent("Start")
  /\ cfg' = [n |-> Ev.n, budget |-> Ev.budget, bwait |-> Ev.bwait]
  /\ closed' = FALSE /\ ctx' = FALSE /\ csend' = FALSE /\ txn' = FALSE
  /\ q' = [pc |-> "idle", res |-> "none"]
  /\ s' = [pc |-> "none", i |-> 0, w |-> 0, fin |-> FALSE]
  /\ timer' = "none" /\ serr' = "none" /\ rch' = 0 /\ hr' = "none"
  /\ o' = ObsInit /\ hist' = <<>> /\ obs' = NoObs

\* ---- follow-the-log mode: the observer only
Follow(newo) == o' = newo /\ UNCHANGED <<pvars, hist, obs>>

TraceClose == IsEvent("Close") /\ IF Strict THEN Close /\ UNCHANGED obs ELSE Follow(OClose(o))
TraceCancel == IsEvent("CancelCtx") /\ IF Strict THEN CancelCtx /\ UNCHANGED obs ELSE Follow(OCancel(o))
TraceCall == IsEvent("Call") /\ IF Strict THEN Call /\ UNCHANGED obs ELSE Follow(OCall(o))

TraceSendBegin ==
  /\ IsEvent("SendBegin")
  /\ IF Strict THEN SendAttempt /\ s'.pc = "write" /\ Ev.i = o'.begun /\ UNCHANGED obs
               ELSE Follow(OSendBegin(o))

TraceSend ==
  /\ IsEvent("Send")
  /\ IF Strict THEN Write(Ev.res = "ok") /\ Ev.i = s'.i /\ UNCHANGED obs
               ELSE Follow(OWrite(o, Ev.res = "ok"))

TraceDelayCall ==
  /\ IsEvent("ResendDelayCall")
  /\ IF Strict THEN DelayCall /\ Ev.k = o'.calls /\ UNCHANGED obs
               ELSE Follow(ODelayCall(o))

TraceDelayRet ==
  /\ IsEvent("DelayRet")
  /\ IF Strict THEN DelayRet(Ev.dec) /\ UNCHANGED obs
               ELSE Follow(ODelayRet(o, Ev.dec))

TraceReply ==
  /\ IsEvent("DeliverReply")
  /\ IF Strict THEN /\ DeliverReply(Ev.acc)
                    /\ Ev.txns = (IF txn' THEN 1 ELSE 0)
                    /\ UNCHANGED <<hist, obs>>
               ELSE Follow(OReply(o, Ev.acc))

TraceRet ==
  /\ IsEvent("Ret")
  /\ IF Strict THEN Return(Ev.class, Ev.writes) /\ UNCHANGED obs
               ELSE Follow(ORet(o, Ev.class, Ev.writes))

TraceQuiesce ==
  /\ IsEvent("Quiesce")
  /\ Strict => Quiet
  /\ obs' = [set |-> TRUE, txns |-> Ev.txns, gor |-> Ev.gor, dgrams |-> Ev.dgrams, hung |-> Ev.hung]
  /\ UNCHANGED vars

\* steps the harness cannot see
Silent ==
  /\ Strict
  /\ \/ TimerFire \/ HRPush \/ SelReply \/ SelCtx \/ SelSendErr \/ CancelSend \/ Join
     \/ SenderCtxExit \/ FinalTimeout
     \/ (SendAttempt /\ s'.pc # "write")
  /\ UNCHANGED <<l, obs>>

\* ---- what is left behind (C14): judged on the harness's observation alone
ObsNoHang == obs.set => ~obs.hung          \* the call returned
ObsNoPending == obs.set => obs.txns = 0
ObsNoGoroutines == obs.set => obs.gor = 0
ObsDatagrams == obs.set => (obs.dgrams <= cfg.n /\ (o.returned => obs.dgrams = o.rw))

\* follow-the-log mode reports every invariant the step just taken falsifies and goes on, so that
\* one pass over a file names all offending segments
Check(name, holds) == holds \/ PrintT(<<"OBSVIOLATION", name, l, Ev.seg>>)
ReportAll ==
  /\ Check("ObsSendsBound", ObsSendsBound') /\ Check("ObsJoined", ObsJoined')
  /\ Check("ObsNoLateSend", ObsNoLateSend') /\ Check("ObsClosedNoSend", ObsClosedNoSend')
  /\ Check("ObsResult", ObsResult') /\ Check("ObsWrites", ObsWrites')
  /\ Check("ObsNoHang", ObsNoHang') /\ Check("ObsNoPending", ObsNoPending')
  /\ Check("ObsNoGoroutines", ObsNoGoroutines') /\ Check("ObsDatagrams", ObsDatagrams')

TraceNext == /\ \/ TraceStart \/ TraceClose \/ TraceCancel \/ TraceCall \/ TraceSendBegin \/ TraceSend
                \/ TraceDelayCall \/ TraceDelayRet \/ TraceReply \/ TraceRet \/ TraceQuiesce
                \/ Silent
             /\ Strict \/ ReportAll

TraceSpec == TraceInit /\ [][TraceNext]_tvars

\* ---- acceptance: the whole file was consumed
HW == TLCSet(1, IF TLCGet(1) < l THEN l ELSE TLCGet(1))
Accepted == IF TLCGet(1) = Len(TraceLog) + 1 THEN TRUE
            ELSE PrintT(<<"REJECTED_AT", TLCGet(1)>>) /\ FALSE
ASSUME TLCSet(1, 0)
=============================================================================
