CONSTANTS
 Procs = {"p1", "p2", "g"}
 Atomic = TRUE
 Gen = TRUE
 Keys = {"k1"}
 Salts = {"s0"}
 Vals = {"v1", "v2"}
 Seqs = {1, 2, 3}
 Cass = {0, 1, 2}
 SigClasses = {"ok"}
 Immutables = FALSE
 Putters = {"p1", "p2"}
 Getters = {"g"}
 MaxOps = 1
 InitSeqs = {1, 2}
 Expiry = TRUE
 GetSeqs = FALSE
 Sched = FALSE
SPECIFICATION Spec
VIEW View
INVARIANTS StoredOK RightTarget RejectedPutCode ValidNotRefused ServeOnlyStored SeqRule RejectedUnchanged AcceptedStored AcceptedServed ExpiredNotServed GetSeqRule NoSeqDecrease NoEqualSeqOverwrite NoCasRace NoFreshDelete
PROPERTIES SeqForwardMC
CHECK_DEADLOCK FALSE
