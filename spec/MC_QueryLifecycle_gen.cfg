CONSTANTS
 Variant = "code"
 Gen = TRUE
 NSet = {1,2,3}
 Budgets = TRUE
INIT MCInit
NEXT Next
INVARIANTS TypeOK ReturnClean ObsResult
CONSTRAINT GenOut
CHECK_DEADLOCK FALSE
