--------------------------- MODULE Trace_KrpcCodec ---------------------------
(***************************************************************************)
(* Record validator for C15.  Every line of trace.ndjson is one experiment *)
(* on the real codec (package krpc + the bencode package the server uses): *)
(*   MsgRT        a message shape is built as a krpc.Msg, marshalled,      *)
(*                unmarshalled (out = the shape of the result),            *)
(*                re-marshalled, unmarshalled and marshalled once more     *)
(*   MsgDec       a byte string is unmarshalled as a Msg; if that works    *)
(*                (or only trailing bytes are complained about, which the  *)
(*                server tolerates) it is re-marshalled as above           *)
(*   Compact      a string is given to a compact-format decoder and, on    *)
(*                success, encoded again                                   *)
(*   Direct       one exported decoder of package krpc on one input        *)
(*   NodesFile    WriteNodesToFile / ReadNodesFromFile                     *)
(* A line is a step iff the observed outcome satisfies the predicates of   *)
(* KrpcCodec.tla.  Records are independent; the only variable is the       *)
(* position in the file.                                                   *)
(*                                                                         *)
(* Strict = TRUE additionally compares with the codec model exactly (which *)
(* keys are written, nil-vs-empty of what is decoded, which lengths the    *)
(* single-entry decoders accept, decoders the statement does not list);    *)
(* the relaxed configuration demands only what the statement says.         *)
(***************************************************************************)
EXTENDS KrpcCodec, Json

CONSTANT Strict

VARIABLE l
tvars == <<l>>

TraceLog == ndJsonDeserialize("trace.ndjson")
Ev == TraceLog[l]
IsEvent(e) == l <= Len(TraceLog) /\ Ev.e = e /\ l' = l + 1

TraceInit == l = 1

\* encOk/decOk/reOk: the three codec calls returned no error; fix: decoding and re-encoding the
\* re-encoded bytes reproduced them; keys: the bencode keys on the wire (read with an independent parser)
TraceMsgRT ==
  /\ IsEvent("MsgRT")
  /\ \A m \in {Ev.in} :
       IF WellFormed(m)
       THEN /\ ~Ev.panic /\ Ev.encOk /\ Ev.decOk
            /\ \A o \in {Ev.out} : Canon(o) = Canon(m)            \* the same message comes back
            /\ Ev.reOk /\ Ev.fix                                  \* and re-encoding is a fixpoint
            /\ Strict => /\ Ev.out = Recoded(m)
                         /\ Range(Ev.keys.top) = TopKeys(m)
                         /\ Range(Ev.keys.a) = SubKeys(m, "a")
                         /\ Range(Ev.keys.r) = SubKeys(m, "r")
       ELSE \* outside the round-trip clause: decoding must not panic, and what decodes re-encodes
            ~Ev.decPanic /\ (Ev.decOk => Ev.reOk /\ Ev.fix)

TraceMsgDec ==
  /\ IsEvent("MsgDec")
  /\ ~Ev.panic
  /\ (Ev.decOk \/ Ev.trail) => Ev.reOk /\ Ev.fix

\* in = the payload; ok: decoded without error; n entries; out = the payload after encoding again
TraceCompact ==
  /\ IsEvent("Compact")
  /\ ~Ev.panic
  /\ Ev.size = ElemSize[Ev.ty]
  /\ Ev.ok <=> DecodesOK(Len(Ev.in), Ev.size)
  /\ Ev.ok => Ev.n = Len(Ev.in) \div Ev.size /\ Ev.reOk /\ Ev.out = Ev.in

\* the decoders the statement quantifies over: the bencode decoding of messages and every
\* UnmarshalBinary / UnmarshalBencode of package krpc
Listed(fn) == fn # "ID.UnmarshalText"
CompactSizeOf(fn) == CASE fn = "CompactIPv4NodeInfo.UnmarshalBencode" -> 26
                       [] fn = "CompactIPv6NodeInfo.UnmarshalBencode" -> 38
                       [] fn = "CompactIPv4NodeAddrs.UnmarshalBencode" -> 6
                       [] fn = "CompactIPv6NodeAddrs.UnmarshalBencode" -> 18
                       [] fn = "CompactInfohashes.UnmarshalBencode" -> 20
                       [] OTHER -> 0
\* cls = "raw": n arbitrary bytes; "str": a well-formed bencode string with n bytes of payload;
\* "hex": n hexadecimal digits; "junk": anything else
TraceDirect ==
  /\ IsEvent("Direct")
  /\ Listed(Ev.fn) => ~Ev.panic
  /\ (CompactSizeOf(Ev.fn) > 0 /\ Ev.cls = "str") => (Ev.ok <=> DecodesOK(Ev.n, CompactSizeOf(Ev.fn)))
  /\ Strict =>
       /\ ~Ev.panic
       /\ (Ev.fn = "NodeAddr.UnmarshalBinary" /\ Ev.cls = "raw") => (Ev.ok <=> Ev.n >= MinLen.NodeAddr)
       /\ (Ev.fn = "NodeInfo.UnmarshalBinary" /\ Ev.cls = "raw") => (Ev.ok <=> Ev.n >= MinLen.NodeInfo)
       /\ (Ev.fn = "NodeAddr.UnmarshalBencode" /\ Ev.cls = "str") => (Ev.ok <=> Ev.n >= MinLen.NodeAddr)
       \* (a string longer than 20 bytes is accepted and truncated by the code; left open here)
       /\ (Ev.fn = "ID.UnmarshalBencode" /\ Ev.cls = "str") => (Ev.n < 20 => ~Ev.ok) /\ (Ev.n = 20 => Ev.ok)
       /\ (Ev.fn = "ID.UnmarshalText" /\ Ev.cls = "hex") => (Ev.ok <=> Ev.n = 40)

NodeOK(e) == Len(e.ip) \in {4, 16} /\ PortOK(e.port)
\* the nodes file is a compact IPv6 node list: what was written is read back (IPv4 as ::ffff:a.b.c.d)
TraceNodesFile ==
  /\ IsEvent("NodesFile")
  /\ (\A i \in 1..Len(Ev.in) : NodeOK(Ev.in[i])) =>
       /\ ~Ev.panic /\ Ev.wok /\ Ev.rok
       /\ MapSeq(Ev.out, Node6) = MapSeq(Ev.in, Node6)
       /\ Strict => Ev.out = MapSeq(Ev.in, Node6)
TraceNodesFileRaw ==
  /\ IsEvent("NodesFileRaw")
  /\ ~Ev.panic
  /\ Ev.ok <=> DecodesOK(Ev.len, ElemSize.nodes6)
  /\ Ev.ok => Ev.n = Ev.len \div ElemSize.nodes6

TraceNext == TraceMsgRT \/ TraceMsgDec \/ TraceCompact \/ TraceDirect \/ TraceNodesFile \/ TraceNodesFileRaw
TraceSpec == TraceInit /\ [][TraceNext]_tvars

\* ---- acceptance: the whole file was consumed
HW == TLCSet(1, IF TLCGet(1) < l THEN l ELSE TLCGet(1))
Accepted == IF TLCGet(1) = Len(TraceLog) + 1 THEN TRUE
            ELSE PrintT(<<"REJECTED_AT", TLCGet(1)>>) /\ FALSE
ASSUME TLCSet(1, 0)
=============================================================================
