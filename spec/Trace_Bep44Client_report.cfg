SPECIFICATION TraceSpec
CONSTRAINTS HW Report
POSTCONDITION Accepted
CHECK_DEADLOCK FALSE
