CONSTANTS
 IdLen = 1
 ByteVals = "w5"
 K = 2
SPECIFICATION SpecMetric
INVARIANTS BitLenLaw SetGetBit XorSymmetric XorIdentity XorIsBitwise OrderIsUnsigned BucketIsSharedPrefix IdInBucketLands Unidirectional Triangle DeeperIsCloser DistOrderTotal
CHECK_DEADLOCK FALSE
