CONSTANTS
 Responders = {"n1", "n2", "n3"}
 Classes = {"genuine2", "genuine3", "stale1", "forged", "seqbump", "wrongkey", "othersalt", "noseq", "nokey", "nosig", "nov", "notoken", "imm", "empty"}
 Pick = "max"
 WantMut = TRUE
SPECIFICATION Spec
INVARIANTS ClientVerified ClientHighest ClientFinds
CHECK_DEADLOCK FALSE
