---------------------------- MODULE MC_RoutingTable ----------------------------
(* Exhaustive instance of RoutingTable: every order of inbound queries, matched and unmatched   *)
(* responses (read-only or not, dropped or not), AddNode calls, ping time-outs and ageing over a *)
(* small universe of senders with K = 2, for security enforcement on and off; plus the node      *)
(* selection for replies.                                                                        *)
EXTENDS RoutingTable

CONSTANT Universe   \* "small" (quick tier) or "full"

VARIABLES ev,   \* the event that produced the current state
          ans   \* the last reply node lists (or NoAns)
mcvars == <<rtvars, ev, ans>>

S(i, a, b, sec, fam) == [id |-> i, addr |-> a, b |-> b, sec |-> sec, fam |-> fam]
\* bucket 0: a@A1, a@A2 (same ID, other address), b@A1 (same address, other ID), c@A3 (ID not valid for its IP)
\* bucket 1: d@A4, e@A5 (IPv6); own ID and zero ID as offered sender IDs; a message without ID
Senders == IF Universe = "full"
           THEN { S("a","A1",0,TRUE,4), S("a","A2",0,TRUE,4), S("b","A1",0,TRUE,4), S("c","A3",0,FALSE,4),
                  S("d","A4",1,TRUE,4), S("e","A5",1,TRUE,6),
                  S("r","A6",9,TRUE,4), S(Zero,"A7",0,TRUE,4), S(NoId,"A8",0,TRUE,4) }
           ELSE { S("a","A1",0,TRUE,4), S("b","A1",0,TRUE,4), S("c","A3",0,FALSE,4), S("e","A5",1,TRUE,6),
                  S("r","A6",9,TRUE,4), S(Zero,"A7",0,TRUE,4), S(NoId,"A8",0,TRUE,4) }
NoAns == [tb |-> 0, want4 |-> FALSE, want6 |-> FALSE, has4 |-> FALSE, has6 |-> FALSE, nodes |-> {}, nodes6 |-> {}]
NoEv == [kind |-> "Other", s |-> S(NoId,"A8",0,TRUE,4), ro |-> FALSE, matched |-> FALSE, drop |-> FALSE]

Init == /\ root = "r" /\ nosec \in BOOLEAN /\ table = {} /\ ev = NoEv /\ ans = NoAns

Events == [kind : {"RecvQuery", "RecvResp"}, s : Senders, ro : BOOLEAN, matched : BOOLEAN, drop : BOOLEAN]
          \cup [kind : {"AddNode", "PingFail", "RecvErr"}, s : Senders, ro : {FALSE}, matched : {TRUE}, drop : {FALSE}]
          \cup [kind : {"Age"}, s : {S(NoId,"A8",0,TRUE,4)}, ro : {FALSE}, matched : {FALSE}, drop : {FALSE}]

Step(e) == /\ table' \in Apply(e) /\ ev' = e /\ ans' = NoAns /\ UNCHANGED <<root, nosec>>

\* closestGoodNodeInfos: walk buckets from the target's down to 0 until K nodes are collected, then truncate
Walk(fam, tb) ==
  LET G(b) == {n \in table : Good(n) /\ n.fam = fam /\ n.ab = b}
      Above(b) == UNION {G(x) : x \in (b+1)..tb}
      Last == IF \E b \in 0..tb : Cardinality(Above(b) \cup G(b)) >= K
              THEN CHOOSE b \in 0..tb : /\ Cardinality(Above(b) \cup G(b)) >= K
                                        /\ \A c \in (b+1)..tb : Cardinality(Above(c) \cup G(c)) < K
              ELSE 0 IN
  {Keys(Above(Last) \cup P) : P \in {Q \in SUBSET G(Last) :
        Cardinality(Above(Last) \cup Q) = IF Cardinality(Above(Last) \cup G(Last)) >= K THEN K
                                           ELSE Cardinality(Above(Last) \cup G(Last))}}

Answer == \E tb \in 0..2, w4, w6 \in BOOLEAN :
  /\ w4 \/ w6
  /\ \E L4 \in Walk(4, tb), L6 \in Walk(6, tb) :
       ans' = [tb |-> tb, want4 |-> w4, want6 |-> w6, has4 |-> (w4 /\ L4 # {}), has6 |-> (w6 /\ L6 # {}),
               nodes |-> IF w4 THEN L4 ELSE {}, nodes6 |-> IF w6 THEN L6 ELSE {}]
  /\ UNCHANGED <<rtvars, ev>>

Next == (\E e \in Events : Step(e)) \/ Answer
Spec == Init /\ [][Next]_mcvars

InvWellFormed == WellFormed(table)
PropAnswer == [][AnswerOK(ans', table')]_mcvars
PropAdmit == [][Admit(ev', table, table')]_mcvars
PropEvict == [][Evict(ev', table, table')]_mcvars
PropMustAdmit == [][MustAdmit(ev', table, table')]_mcvars
PropGoodStays == [][GoodStays(table, table')]_mcvars
View == <<root, nosec, table>>
=============================================================================
