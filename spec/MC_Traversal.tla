---------------------------- MODULE MC_Traversal ----------------------------
(* Exhaustive / simulation instance of Traversal over a library of response graphs. *)
EXTENDS Traversal, Json

CONSTANTS Graph, K, Alpha, Target, GenHist

VARIABLES late,  \* the late AddNodes call has happened
          hist   \* environment actions so far (schedule generator only; constant <<>> otherwise)
mcvars == <<vars, late, hist>>

C(a, i) == [addr |-> a, id |-> i]
R(i, d, ns) == [ok |-> TRUE, id |-> i, dok |-> d, nodes |-> ns]
Silent == NoResp

\* ---- graph library: [addrs, net, seeds, late, bad, badp]
\* g1: liar "a" lists victim "v" under three IDs, silent "c", filtered "x", late additions
G1 == [addrs |-> {"a","b","c","v","x"},
       net |-> [a \in {"a","b","c","v","x"} |->
          CASE a = "a" -> R(6, TRUE, {C("b",5), C("v",1), C("v",2), C("v",3), C("x",0)})
            [] a = "b" -> R(5, TRUE, {C("c",4), C("v",1)})
            [] a = "c" -> Silent
            [] a = "v" -> R(1, TRUE, {C("a",6)})
            [] a = "x" -> R(0, TRUE, {})],
       seeds |-> {C("a", NoId)}, late |-> {C("c",4), C("b",7)},
       bad |-> {"x"}, badp |-> {}]
\* g2: honest network: everyone answers with the true 2 closest to target 0
HA == {"n1","n2","n3","n5","n6","n7"}
HId(a) == CASE a="n1"->1 [] a="n2"->2 [] a="n3"->3 [] a="n5"->5 [] a="n6"->6 [] a="n7"->7
G2 == [addrs |-> HA,
       net |-> [a \in HA |-> R(HId(a), TRUE, {C("n1",1), C("n2",2)})],
       seeds |-> {C("n7", NoId), C("n5", 5)}, late |-> {},
       bad |-> {}, badp |-> {}]
\* g3: responders answer under another ID than listed; filter depends on (addr, id); data filter rejects one
G3 == [addrs |-> {"a","b","c","d"},
       net |-> [a \in {"a","b","c","d"} |->
          CASE a = "a" -> R(3, TRUE, {C("b",1), C("c",2), C("d",7)})
            [] a = "b" -> R(6, TRUE, {C("c",2), C("a",3)})      \* listed as 1, answers as 6
            [] a = "c" -> R(2, FALSE, {C("d",4)})                \* no usable data
            [] a = "d" -> R(4, TRUE, {C("a",5)})],               \* listed as 7 (filtered pair) and as 4
       seeds |-> {C("a", 3)}, late |-> {C("d", 7)},
       bad |-> {}, badp |-> {<<"d",7>>, <<"b",6>>}]
\* g4: duplicate IDs at different addresses, one address in seeds twice, star
G4 == [addrs |-> {"a","b","c","d","e"},
       net |-> [a \in {"a","b","c","d","e"} |->
          CASE a = "a" -> R(1, TRUE, {C("b",2), C("c",2), C("d",3), C("e",6)})
            [] a = "b" -> R(2, TRUE, {})
            [] a = "c" -> R(2, TRUE, {C("a",1)})
            [] a = "d" -> Silent
            [] a = "e" -> R(6, TRUE, {C("d",3)})],
       seeds |-> {C("a", 1), C("a", NoId)}, late |-> {},
       bad |-> {}, badp |-> {}]

\* g5: an adversary lists one victim address under four IDs, in two replies and in the seed set; a filtered
\* address is listed by an honest node; the late call repeats the victim under a fifth ID
G5 == [addrs |-> {"a","b","v","x","y"},
       net |-> [a \in {"a","b","v","x","y"} |->
          CASE a = "a" -> R(7, TRUE, {C("v",1), C("v",2), C("b",4), C("x",0)})
            [] a = "b" -> R(4, TRUE, {C("v",2), C("v",3), C("y",5), C("a",7)})
            [] a = "v" -> R(2, TRUE, {C("a",7)})
            [] a = "x" -> R(0, TRUE, {})
            [] a = "y" -> Silent],
       seeds |-> {C("a", 7), C("v", 6)}, late |-> {C("v", 5), C("y", NoId)},
       bad |-> {"x"}, badp |-> {}]
\* g6: honest network of seven nodes, everyone answers with the true 3 closest to target 0
HB == {"m1","m2","m3","m4","m5","m6","m7"}
HBId(a) == CASE a="m1"->1 [] a="m2"->2 [] a="m3"->3 [] a="m4"->4 [] a="m5"->5 [] a="m6"->6 [] a="m7"->7
G6 == [addrs |-> HB,
       net |-> [a \in HB |-> R(HBId(a), TRUE, {C("m1",1), C("m2",2), C("m3",3)})],
       seeds |-> {C("m7", 7), C("m6", NoId)}, late |-> {},
       bad |-> {}, badp |-> {}]

G == CASE Graph = "g1" -> G1 [] Graph = "g2" -> G2 [] Graph = "g3" -> G3 [] Graph = "g4" -> G4 [] Graph = "g5" -> G5 [] Graph = "g6" -> G6

\* environment actions are appended to hist only when generating schedules
Rec(x) == hist' = IF GenHist THEN Append(hist, x) ELSE hist
Base(A) == A /\ UNCHANGED <<late, hist>>

Init == /\ cfg = [k |-> K, alpha |-> Alpha, target |-> Target, bad |-> G.bad, badp |-> G.badp]
        /\ unq = {} /\ queried = {} /\ closest = {} /\ qs = {}
        /\ stopping = FALSE /\ stopped = FALSE
        /\ run = [pc |-> "check", offer |-> FALSE] /\ runSig = FALSE
        /\ stp = "idle" /\ stpSig = FALSE
        /\ cons = "idle" /\ offered = FALSE
        /\ qcount = [a \in G.addrs |-> 0] /\ learned = {} /\ responders = {} /\ eligible = {}
        /\ late = FALSE /\ hist = <<>>

AddSeeds == learned = {} /\ AddNodes(G.seeds) /\ UNCHANGED late /\ Rec([a |-> "seeds"])
AddLate == learned # {} /\ ~late /\ G.late # {} /\ AddNodes(G.late) /\ late' = TRUE /\ Rec([a |-> "late"])
StopE == learned # {} /\ Stop /\ UNCHANGED late /\ Rec([a |-> "stop"])
ConsWaitE == ConsWait /\ UNCHANGED late /\ Rec([a |-> "wait"])
ReturnE == \E q \in qs : QueryReturn(q, G.net[q.addr]) /\ UNCHANGED late /\ Rec([a |-> "ret", addr |-> q.addr, cid |-> q.cid])

Internal == \/ RunCheck \/ RunEval \/ RunCapture \/ RunWake \/ RunDeliver \/ ConsGotClosed
            \/ \E c \in unq : StartQuery(c)
            \/ \E q \in qs : CtxCancel(q) \/ PostClosest(q) \/ PostNodes(q) \/ PostDone(q)
            \/ StopIter \/ StopWake

Next == \/ AddSeeds \/ AddLate \/ StopE \/ ConsWaitE \/ ReturnE \/ Base(Internal)
NextNoStop == \/ AddSeeds \/ AddLate \/ ConsWaitE \/ ReturnE \/ Base(Internal)

Spec == Init /\ [][Next]_mcvars

Fair == /\ WF_mcvars(Base(RunCheck)) /\ WF_mcvars(Base(RunEval)) /\ WF_mcvars(Base(RunCapture))
        /\ WF_mcvars(Base(RunWake)) /\ WF_mcvars(Base(RunDeliver))
        /\ WF_mcvars(Base(StopIter)) /\ WF_mcvars(Base(StopWake))
        /\ WF_mcvars(AddSeeds)
        /\ WF_mcvars(Base(\E c \in unq : StartQuery(c)))
        /\ WF_mcvars(ReturnE)
        /\ WF_mcvars(Base(\E q \in qs : CtxCancel(q)))
        /\ WF_mcvars(Base(\E q \in qs : PostClosest(q)))
        /\ WF_mcvars(Base(\E q \in qs : PostNodes(q)))
        /\ WF_mcvars(Base(\E q \in qs : PostDone(q)))
FairSpec == Init /\ [][Next]_mcvars /\ Fair
FairSpecNoStop == Init /\ [][NextNoStop]_mcvars /\ Fair

\* history / observation variables are hidden from the fingerprint
View == <<unq, queried, closest, qs, stopping, stopped, run, runSig, stp, stpSig, cons, offered, late,
          qcount, learned, eligible>>

\* C02, honest-network clause (graph g2): the stalled result is exactly the K closest
HonestResult == /\ (Graph = "g2" /\ run.offer /\ run.pc = "select" /\ ~runSig /\ learned # {})
                     => closest = {[id |-> 1, addr |-> "n1"], [id |-> 2, addr |-> "n2"]}
                /\ (Graph = "g6" /\ cfg.k = 3 /\ run.offer /\ run.pc = "select" /\ ~runSig /\ learned # {})
                     => closest = {[id |-> 1, addr |-> "m1"], [id |-> 2, addr |-> "m2"], [id |-> 3, addr |-> "m3"]}
=============================================================================
