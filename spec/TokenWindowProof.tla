------------------------- MODULE TokenWindowProof -------------------------
(***************************************************************************)
(* The two laws of TokenWindow.tla for every issue instant T and every use *)
(* instant U >= T (seconds since any epoch), not only for the two rotation *)
(* intervals TLC enumerates: with a 300 s interval and maxIntervalDelta 2  *)
(* a token is honoured for at least 600 s and never after 900 s.           *)
(* Checked by tlapm (SMT back end).                                        *)
(***************************************************************************)
EXTENDS Integers, TLAPS

Interval == 300
MaxDelta == 2
Accepted(T, U) == (U \div Interval) - (T \div Interval) <= MaxDelta

THEOREM HonouredTenMinutes ==
  \A T, U \in Nat : (T <= U /\ U - T <= 600) => Accepted(T, U)
  BY SMT DEF Accepted, Interval, MaxDelta

THEOREM DeadAfterFifteen ==
  \A T, U \in Nat : (T <= U /\ Accepted(T, U)) => U - T < 900
  BY SMT DEF Accepted, Interval, MaxDelta

\* the constants matter: one interval less breaks the first law, one more the second
THEOREM GuardOne == \E T, U \in Nat : T <= U /\ U - T <= 600 /\ ~((U \div 300) - (T \div 300) <= 1)
  <1>1. 299 \in Nat /\ 899 \in Nat /\ 299 <= 899 /\ 899 - 299 <= 600 /\ ~((899 \div 300) - (299 \div 300) <= 1)
    BY SMT
  <1> QED BY <1>1
=============================================================================
