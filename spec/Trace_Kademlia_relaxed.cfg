CONSTANTS
 Strict = FALSE
SPECIFICATION TraceSpec
INVARIANTS KeepsKNearest
CONSTRAINT HW
POSTCONDITION Accepted
CHECK_DEADLOCK FALSE
