--------------------------- MODULE Trace_Kademlia ---------------------------
(***************************************************************************)
(* Record validator for C18.  Every line of trace.ndjson is one call of a  *)
(* real function of the repository (int160, the bucket-index helpers of    *)
(* package dht, types.AddrMaybeId.CloserThan, the sorted candidate set of  *)
(* package containers, k_nearest_nodes) with its arguments (IDs as 20 raw  *)
(* bytes) and its result; a line is a step iff the result is what the      *)
(* definitions of Kademlia.tla say.  The two containers are replayed step  *)
(* by step against a model state (cs / kn, pushed); a SetNew / KnnNew line *)
(* starts a fresh container.  A line no step explains is a call on which   *)
(* the real code disagrees with the specification.                         *)
(*                                                                         *)
(* Strict = TRUE additionally fixes what the property statement leaves     *)
(* open (address-then-port tie-break of CloserThan, Farthest = last of     *)
(* Range); the relaxed configuration only demands the stated laws.         *)
(***************************************************************************)
EXTENDS Kademlia, Json

CONSTANT Strict

VARIABLES l,       \* next line of the trace
          tgt,     \* target of the container being replayed
          cs,      \* model content of the sorted candidate set
          kn,      \* model content of the K-nearest container
          pushed,  \* everything pushed into it so far
          kk       \* its capacity
tvars == <<l, tgt, cs, kn, pushed, kk>>

TraceLog == ndJsonDeserialize("trace.ndjson")
Ev == TraceLog[l]
IsEvent(e) == l <= Len(TraceLog) /\ Ev.e = e /\ l' = l + 1
Range(s) == {s[i] : i \in DOMAIN s}
Pure == UNCHANGED <<tgt, cs, kn, pushed, kk>>

IsId(a) == Len(a) = 20 /\ \A i \in 1..20 : a[i] \in 0..255
B2I(b) == IF b THEN 1 ELSE 0
\* the id of a candidate without ID carries no information
Norm(c) == IF c.hasId THEN [hasId |-> TRUE, id |-> c.id, ip |-> c.ip, port |-> c.port]
           ELSE [hasId |-> FALSE, id |-> <<>>, ip |-> c.ip, port |-> c.port]
El(c) == [id |-> c.id, ip |-> c.ip, port |-> c.port]

TraceInit == l = 1 /\ tgt = <<>> /\ cs = {} /\ kn = {} /\ pushed = {} /\ kk = 0

\* ---------------------------------------------------------------- int160
TraceDist == IsEvent("Dist") /\ ~Ev.panic /\ IsId(Ev.res) /\ Ev.res = XorId(Ev.a, Ev.b) /\ Pure
TraceCmp == IsEvent("Cmp") /\ ~Ev.panic /\ Ev.res = CmpId(Ev.a, Ev.b) /\ Pure
TraceBitLen == IsEvent("BitLen") /\ ~Ev.panic /\ Ev.res = BitLen(Ev.a) /\ Pure
TraceIsZero == IsEvent("IsZero") /\ ~Ev.panic /\ Ev.res = IsZeroId(Ev.a) /\ Pure
TraceGetBit == IsEvent("GetBit") /\ ~Ev.panic /\ Ev.res = Bit(Ev.a, Ev.i) /\ Pure
TraceSetBit == IsEvent("SetBit") /\ ~Ev.panic /\ Ev.res = SetBit(Ev.a, Ev.i, Ev.v) /\ Pure

\* ---------------------------------------------------------------- bucket index
\* the bucket of the root itself is not defined: whatever the code does there is accepted
TraceBucket == /\ IsEvent("Bucket")
               /\ Ev.id # Ev.root => /\ ~Ev.panic
                                     /\ Ev.res = SharedPrefixLen(Ev.root, Ev.id)
                                     /\ Ev.res = BucketIndex(Ev.root, Ev.id)
               /\ Pure
TraceRandBucket == /\ IsEvent("RandBucket")
                   /\ ~Ev.panic /\ IsId(Ev.res) /\ Ev.res # Ev.root
                   /\ SharedPrefixLen(Ev.root, Ev.res) = Ev.i
                   /\ Pure

\* ---------------------------------------------------------------- CloserThan
\* lr = l.CloserThan(r, t), rl = r.CloserThan(l, t)
PairOK(x, y, t, lr, rl) ==
  /\ Must(x, y, t) => lr /\ ~rl
  /\ Must(y, x, t) => rl /\ ~lr
  /\ Tied(x, y, t) => IF SameCand(x, y) THEN ~lr /\ ~rl ELSE lr # rl
  /\ Strict => lr = CloserThan(x, y, t) /\ rl = CloserThan(y, x, t)
TraceCloser == /\ IsEvent("Closer") /\ ~Ev.panic
               /\ PairOK(Ev.l, Ev.r, Ev.t, Ev.lr, Ev.rl)
               /\ Pure
\* m[i][j] = c[i].CloserThan(c[j], t) for all i, j: a strict total order
TraceOrder == /\ IsEvent("Order") /\ ~Ev.panic
              /\ LET n == Len(Ev.c) IN
                 /\ \A i \in 1..n : ~Ev.m[i][i]
                 /\ \A i \in 1..n, j \in 1..n : i < j => PairOK(Ev.c[i], Ev.c[j], Ev.t, Ev.m[i][j], Ev.m[j][i])
                 /\ \A i \in 1..n, j \in 1..n, k \in 1..n : Ev.m[i][j] /\ Ev.m[j][k] => Ev.m[i][k]
              /\ Pure

\* ---------------------------------------------------------------- sorted candidate set
TraceSetNew == /\ IsEvent("SetNew") /\ ~Ev.panic /\ Ev.len = 0
               /\ tgt' = Ev.t /\ cs' = {}
               /\ UNCHANGED <<kn, pushed, kk>>
TraceSetAdd == /\ IsEvent("SetAdd") /\ ~Ev.panic
               /\ cs' = cs \cup {Norm(Ev.c)}
               /\ Ev.len = Cardinality(cs')
               /\ UNCHANGED <<tgt, kn, pushed, kk>>
TraceSetDelete == /\ IsEvent("SetDelete") /\ ~Ev.panic
                  /\ cs' = cs \ {Norm(Ev.c)}
                  /\ Ev.len = Cardinality(cs')
                  /\ UNCHANGED <<tgt, kn, pushed, kk>>
TraceSetLen == IsEvent("SetLen") /\ ~Ev.panic /\ Ev.res = Cardinality(cs) /\ UNCHANGED <<tgt, cs, kn, pushed, kk>>
\* Next returns the closest element; on the empty set the code is free (it panics)
TraceSetNext == /\ IsEvent("SetNext")
                /\ cs # {} => /\ ~Ev.panic
                              /\ Norm(Ev.res) \in cs
                              /\ \A y \in cs : ~Must(y, Norm(Ev.res), tgt)
                              /\ Strict => \A y \in cs \ {Norm(Ev.res)} : CloserThan(Norm(Ev.res), y, tgt)
                /\ UNCHANGED <<tgt, cs, kn, pushed, kk>>

\* ---------------------------------------------------------------- K-nearest container
TraceKnnNew == /\ IsEvent("KnnNew") /\ ~Ev.panic /\ Ev.len = 0 /\ Ev.full = (0 >= Ev.k)
               /\ tgt' = Ev.t /\ kk' = Ev.k /\ kn' = {} /\ pushed' = {}
               /\ UNCHANGED cs
\* range = the content in Range() order after the push, far = <<Farthest()>> (<<>> when empty)
TraceKnnPush ==
  /\ IsEvent("KnnPush") /\ ~Ev.panic
  /\ LET r == [i \in 1..Len(Ev.range) |-> El(Ev.range[i])]
         S2 == Range(r)
     IN /\ Cardinality(S2) = Len(r)
        /\ IsPushResult(kn, El(Ev.c), kk, tgt, S2)
        /\ InDistOrder(r, tgt)
        /\ Ev.len = Len(r)
        /\ Ev.full = (Len(r) >= kk)
        /\ IF S2 = {} THEN Ev.far = <<>>
           ELSE /\ Len(Ev.far) = 1
                /\ El(Ev.far[1]) \in Farthest(S2, tgt)
                /\ Strict => El(Ev.far[1]) = r[Len(r)]
        /\ kn' = S2
  /\ pushed' = pushed \cup {El(Ev.c)}
  /\ UNCHANGED <<tgt, cs, kk>>

TraceNext == \/ TraceDist \/ TraceCmp \/ TraceBitLen \/ TraceIsZero \/ TraceGetBit \/ TraceSetBit
             \/ TraceBucket \/ TraceRandBucket \/ TraceCloser \/ TraceOrder
             \/ TraceSetNew \/ TraceSetAdd \/ TraceSetDelete \/ TraceSetLen \/ TraceSetNext
             \/ TraceKnnNew \/ TraceKnnPush

TraceSpec == TraceInit /\ [][TraceNext]_tvars

\* the container holds exactly the K nearest of everything pushed so far (any choice among ties)
KeepsKNearest == IsKNearestOf(kn, pushed, kk, tgt)

\* ---- acceptance: the whole file was consumed
HW == TLCSet(1, IF TLCGet(1) < l THEN l ELSE TLCGet(1))
Accepted == IF TLCGet(1) = Len(TraceLog) + 1 THEN TRUE
            ELSE PrintT(<<"REJECTED_AT", TLCGet(1)>>) /\ FALSE
ASSUME TLCSet(1, 0)
=============================================================================
