---------------------------- MODULE MC_GetPut ----------------------------
(***************************************************************************)
(* Exhaustive model of the client-side get: every assignment of reply      *)
(* classes to the responders, every delivery order.  Pick = "max" is the   *)
(* rule C12 states; Pick = "first" (keep the first verified value) and     *)
(* Pick = "noverify" are the variants that must fail (vacuity guards).     *)
(***************************************************************************)
EXTENDS GetPut

CONSTANTS Responders, Classes, Pick, WantMut

VARIABLES rep,      \* responder -> reply class
          pending,  \* responders that have not answered yet
          best      \* the client's running result

mcvars == <<cvars, rep, pending, best>>

W == IF WantMut THEN [mut |-> TRUE, key |-> "k1", salt |-> "s0", tgt |-> <<"m", "k1", "s0">>]
     ELSE [mut |-> FALSE, key |-> "", salt |-> "", tgt |-> <<"i", "v1", "">>]

R(hv, v, hk, k, hq, q, sg) == [hasv |-> hv, val |-> v, haskey |-> hk, key |-> k, hasseq |-> hq, seq |-> q,
                               sig |-> sg, hastok |-> TRUE]
Reply(c) ==
  CASE c = "genuine2" -> R(TRUE, "v2", TRUE, "k1", TRUE, 2, <<"k1", "s0", 2, "v2">>)
    [] c = "genuine3" -> R(TRUE, "v3", TRUE, "k1", TRUE, 3, <<"k1", "s0", 3, "v3">>)
    [] c = "stale1" -> R(TRUE, "v1", TRUE, "k1", TRUE, 1, <<"k1", "s0", 1, "v1">>)
    [] c = "forged" -> R(TRUE, "vf", TRUE, "k1", TRUE, 9, <<"k1", "s0", 9, "v2">>)       \* value swapped
    [] c = "seqbump" -> R(TRUE, "v2", TRUE, "k1", TRUE, 9, <<"k1", "s0", 2, "v2">>)     \* seq raised
    [] c = "wrongkey" -> R(TRUE, "v2", TRUE, "k2", TRUE, 9, <<"k2", "s0", 9, "v2">>)
    [] c = "othersalt" -> R(TRUE, "v2", TRUE, "k1", TRUE, 9, <<"k1", "s1", 9, "v2">>)
    [] c = "noseq" -> R(TRUE, "v2", TRUE, "k1", FALSE, 0, <<"k1", "s0", 2, "v2">>)
    [] c = "nokey" -> R(TRUE, "v2", FALSE, "", TRUE, 9, <<"k1", "s0", 9, "v2">>)
    [] c = "nosig" -> R(TRUE, "v2", TRUE, "k1", TRUE, 9, <<"garbage", "", 0, "">>)
    [] c = "nov" -> R(FALSE, "", TRUE, "k1", TRUE, 9, <<"k1", "s0", 9, "v2">>)
    [] c = "notoken" -> [R(TRUE, "v2", TRUE, "k1", TRUE, 2, <<"k1", "s0", 2, "v2">>) EXCEPT !.hastok = FALSE]
    [] c = "imm" -> R(TRUE, "v1", FALSE, "", FALSE, 0, <<"none", "", 0, "">>)
    [] c = "immforged" -> R(TRUE, "vf", FALSE, "", FALSE, 0, <<"none", "", 0, "">>)
    [] c = "empty" -> R(FALSE, "", FALSE, "", FALSE, 0, <<"none", "", 0, "">>)

Init == /\ want = W /\ rcvd = {} /\ res = NoRes
        /\ rep \in [Responders -> Classes] /\ pending = Responders
        /\ best = NoRes

Take(r) == CASE Pick = "noverify" -> r.hasv
             [] OTHER -> Acceptable(r)

Receive(n) ==
  /\ n \in pending /\ ~res.set
  /\ pending' = pending \ {n}
  /\ rcvd' = rcvd \cup {Reply(rep[n])}
  /\ LET r == Reply(rep[n]) IN
       IF ~Take(r) THEN UNCHANGED <<best, res>>
       ELSE IF ~(r.haskey /\ r.hasseq) \/ ImmOK(r)
         THEN /\ res' = [set |-> TRUE, kind |-> "get", found |-> TRUE, mut |-> FALSE, val |-> r.val, seq |-> 0]
              /\ UNCHANGED best
         ELSE /\ best' = IF ~best.found \/ (Pick # "first" /\ r.seq >= best.seq)
                         THEN [set |-> FALSE, kind |-> "get", found |-> TRUE, mut |-> TRUE, val |-> r.val, seq |-> r.seq]
                         ELSE best
              /\ UNCHANGED res
  /\ UNCHANGED <<want, rep>>

Stalled ==
  /\ pending = {} /\ ~res.set
  /\ res' = [best EXCEPT !.set = TRUE]
  /\ UNCHANGED <<want, rcvd, rep, pending, best>>

Next == (\E n \in Responders : Receive(n)) \/ Stalled
Spec == Init /\ [][Next]_mcvars
=============================================================================
