CONSTANTS
 K = 2
 Zero = "0000000000000000000000000000000000000000"
 NoId = ""
 Strict = FALSE
SPECIFICATION TraceSpec
INVARIANTS InvWellFormed InvCounts InvFlags InvAnswer
PROPERTIES PropAdmit PropEvict PropMustAdmit
CONSTRAINT HW
POSTCONDITION Accepted
CHECK_DEADLOCK FALSE
