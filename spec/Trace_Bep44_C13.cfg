CONSTANTS
 Procs = {"w", "a", "p1", "p2", "p3", "g"}
 Atomic = FALSE
 Gen = FALSE
SPECIFICATION TraceSpec
INVARIANTS SeqRule RejectedUnchanged AcceptedStored AcceptedServed ExpiredNotServed GetSeqRule NoSeqDecrease NoEqualSeqOverwrite NoCasRace NoFreshDelete
CONSTRAINT HW
POSTCONDITION Accepted
CHECK_DEADLOCK FALSE
