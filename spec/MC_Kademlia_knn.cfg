CONSTANTS
 IdLen = 1
 ByteVals = "w2"
 K = 2
SPECIFICATION SpecKnn
INVARIANTS KeepsKNearest FarthestDefined
CHECK_DEADLOCK FALSE
