---------------------------- MODULE Trace_RoutingTable ----------------------------
(***************************************************************************)
(* Trace validator for the routing table.  Every line is one event applied *)
(* to the real Server (inbound datagram, API call, ping time-out, elapsed  *)
(* time) followed by the table snapshot hook and the API's own reports;    *)
(* "Answer" lines carry the node lists of the reply to the query just      *)
(* handled.  Strict = TRUE: the snapshot must be a successor that          *)
(* RoutingTable!Apply allows, entry by entry.  Strict = FALSE (second pass *)
(* after a strict rejection): membership follows the snapshot, liveness    *)
(* evidence is still tracked by the specification, and only the property   *)
(* predicates (Admit, Evict, MustAdmit, WellFormed, CountsAgree,           *)
(* FlagsAgree, AnswerOK) judge.                                            *)
(***************************************************************************)
EXTENDS RoutingTable, Json

CONSTANT Strict
VARIABLES l, obs, ans
tvars == <<rtvars, l, obs, ans>>

TraceLog == ndJsonDeserialize("trace.ndjson")
Ev == TraceLog[l]
IsEvent(e) == l <= Len(TraceLog) /\ Ev.e = e /\ l' = l + 1
Range(s) == {s[i] : i \in DOMAIN s}
NoObs == [set |-> FALSE]
NoAns == [tb |-> 0, want4 |-> FALSE, want6 |-> FALSE, has4 |-> FALSE, has6 |-> FALSE, nodes |-> {}, nodes6 |-> {},
          n4 |-> 0, n6 |-> 0]
TableKinds == {"RecvQuery", "RecvResp", "RecvErr", "AddNode", "PingFail", "Age", "SetBlock", "Other"}
EvRec(x) == [kind |-> x.e, s |-> x.s, ro |-> x.ro, matched |-> x.matched, drop |-> x.drop]
KeyOf(x) == <<x.id, x.addr>>

TraceInit == l = 1 /\ root = "" /\ nosec = TRUE /\ table = {} /\ obs = NoObs /\ ans = NoAns

TraceStart ==
  /\ IsEvent("Start")
  /\ root' = Ev.root /\ nosec' = Ev.nosec /\ table' = {} /\ obs' = NoObs /\ ans' = NoAns

\* liveness evidence of an entry that stays, as the specification tracks it
EvUpd(e, n) ==
  IF Key(n) = SenderKey(e)
  THEN CASE e.kind = "RecvQuery" /\ ~e.drop -> GotQuery(n)
         [] e.kind = "RecvResp" /\ ~e.drop /\ e.matched -> GotResponse(n)
         [] e.kind = "PingFail" -> PingFailed(n)
         [] OTHER -> n
  ELSE IF e.kind = "Age" THEN AgeOne(n) ELSE n

\* an entry of the snapshot, with the evidence the specification attributes to it
Merge(e, x) ==
  LET old == {n \in table : Key(n) = KeyOf(x)} IN
  IF old # {} THEN [EvUpd(e, CHOOSE n \in old : TRUE) EXCEPT !.ab = x.ab]
  ELSE LET f == [id |-> x.id, addr |-> x.addr, b |-> x.b, ab |-> x.ab, sec |-> x.sec, fam |-> x.fam,
                 q |-> "never", r |-> "never", failed |-> FALSE] IN
       IF KeyOf(x) = SenderKey(e) THEN EvUpd(e, f) ELSE f

\* exhaustive small-scope exploration of the real table: each transition is its own segment, which
\* starts from the state the real Server was in (as the specification would describe it)
TraceSetState ==
  /\ IsEvent("SetState")
  /\ root' = Ev.root /\ nosec' = Ev.nosec
  /\ table' = {[id |-> x.id, addr |-> x.addr, b |-> x.b, ab |-> x.ab, sec |-> x.sec, fam |-> x.fam,
                q |-> x.q, r |-> x.r, failed |-> x.failed] : x \in Range(Ev.pre)}
  /\ obs' = NoObs /\ ans' = NoAns

TraceTableEvent ==
  /\ l <= Len(TraceLog) /\ Ev.e \in TableKinds /\ l' = l + 1
  /\ LET e == EvRec(Ev)
         snap == Range(Ev.snap) IN
     /\ IF Strict
        THEN /\ table' \in Apply(e)
             /\ Keys(table') = {KeyOf(x) : x \in snap}
             /\ \A x \in snap : \E n \in table' :
                   Key(n) = KeyOf(x) /\ n.ab = x.ab /\ n.q = x.q /\ n.r = x.r /\ n.failed = x.failed
        ELSE table' = {Merge(e, x) : x \in snap}
     /\ obs' = [set |-> TRUE, snap |-> snap, snapLen |-> Len(Ev.snap), numNodes |-> Ev.numNodes, statsNodes |-> Ev.statsNodes,
                goodNodes |-> Ev.goodNodes, nodes |-> {<<p[1], p[2]>> : p \in Range(Ev.nodes)},
                nodesLen |-> Len(Ev.nodes), addrIndex |-> Ev.addrIndex, addrIndexBad |-> Ev.addrIndexBad]
  /\ ans' = NoAns
  /\ UNCHANGED <<root, nosec>>

TraceAnswer ==
  /\ IsEvent("Answer")
  /\ ans' = [tb |-> Ev.tb, want4 |-> Ev.want4, want6 |-> Ev.want6, has4 |-> Ev.has4, has6 |-> Ev.has6,
             nodes |-> {<<p[1], p[2]>> : p \in Range(Ev.nodes)}, nodes6 |-> {<<p[1], p[2]>> : p \in Range(Ev.nodes6)},
             n4 |-> Len(Ev.nodes), n6 |-> Len(Ev.nodes6)]
  /\ UNCHANGED <<rtvars, obs>>

\* a query that got no reply within the driver's patience: noted, nothing to judge here (C08's business)
TraceNoReply == IsEvent("NoReply") /\ UNCHANGED <<rtvars, obs, ans>>

TraceNext == TraceStart \/ TraceSetState \/ TraceTableEvent \/ TraceAnswer \/ TraceNoReply
TraceSpec == TraceInit /\ [][TraceNext]_tvars

\* ---- C05
InvWellFormed == WellFormed(table)
InvCounts == obs.set =>
  /\ obs.snapLen = Cardinality(table)          \* no two entries share ID and address
  /\ obs.numNodes = Cardinality(table)
  /\ obs.statsNodes = Cardinality(table)      \* Stats().Nodes: "count of nodes in the node table"
  /\ obs.addrIndex = Cardinality(table)
  /\ obs.addrIndexBad = 0                     \* the address index mirrors the buckets entry by entry
  /\ obs.goodNodes = Cardinality({x \in obs.snap : x.good})
  /\ obs.nodes = {KeyOf(x) : x \in {y \in obs.snap : ~y.bad}}
  /\ obs.nodesLen = Cardinality(obs.nodes)
\* ---- C06 (l is the line consumed by the step)
IsTableStep == l <= Len(TraceLog) /\ TraceLog[l].e \in TableKinds
PropAdmit == [][IsTableStep => Admit(EvRec(TraceLog[l]), table, table')]_tvars
PropEvict == [][IsTableStep => Evict(EvRec(TraceLog[l]), table, table')]_tvars
PropMustAdmit == [][IsTableStep => MustAdmit(EvRec(TraceLog[l]), table, table')]_tvars
\* ---- C09: the server's own good/bad classification agrees with the evidence the specification tracked
InvFlags == obs.set => \A x \in obs.snap : \A n \in table : Key(n) = KeyOf(x) => (x.good = Good(n) /\ x.bad = Bad(n))
InvAnswer == /\ AnswerOK(ans, table)
             /\ ans.n4 = Cardinality(ans.nodes) /\ ans.n6 = Cardinality(ans.nodes6)   \* distinct

HW == TLCSet(1, IF TLCGet(1) < l THEN l ELSE TLCGet(1))
Accepted == IF TLCGet(1) = Len(TraceLog) + 1 THEN TRUE
            ELSE PrintT(<<"REJECTED_AT", TLCGet(1)>>) /\ FALSE
ASSUME TLCSet(1, 0)
=============================================================================
