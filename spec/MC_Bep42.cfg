CONSTANTS
 Universe = "full"
SPECIFICATION Spec
INVARIANTS PublishedVectors TypeOK ChangesOnlyFirst21 Idempotent SecuredVerifies MatchesIffFixpoint FirstBitsMatter LocalAcceptsAll MappedAgrees MaskedBitsIgnored LowHalfIgnored RMatters
CHECK_DEADLOCK FALSE
