----------------------------- MODULE Trace_Bep42 -----------------------------
(***************************************************************************)
(* Record validator for C17.  Every line of trace.ndjson is one call of    *)
(* dht.SecureNodeId / NodeIdSecure / MakeDeterministicNodeID /             *)
(* ServerConfig.InitNodeId / NewServer(...).ID() of the repository with    *)
(* its arguments (ID as 20 bytes, address as 4 or 16 bytes) and results;   *)
(* a line is a step iff the results are what Bep42.tla -- the BEP          *)
(* transcribed, with its own CRC32-C -- says.  The records are independent *)
(* of each other; the only variable is the position in the file.           *)
(*                                                                         *)
(* Strict = TRUE additionally demands what the code does but the property  *)
(* statement does not ask for (a generated ID matches the CRC rule even    *)
(* when the address is exempt; a preset NodeId is left alone).             *)
(***************************************************************************)
EXTENDS Bep42, Json

CONSTANT Strict

VARIABLE l
tvars == <<l>>

TraceLog == ndJsonDeserialize("trace.ndjson")
Ev == TraceLog[l]
IsEvent(e) == l <= Len(TraceLog) /\ Ev.e = e /\ l' = l + 1
IsId(a) == Len(a) = 20 /\ \A i \in 1..20 : a[i] \in 0..255

TraceInit == l = 1

\* res = the ID after SecureNodeId(&id, ip); res2 = after securing res again;
\* ver = NodeIdSecure(res, ip)
TraceSecure == /\ IsEvent("Secure") /\ ~Ev.panic
               /\ IsAddr(Ev.ip) /\ IsId(Ev.id) /\ IsId(Ev.res)
               /\ SameAfter21(Ev.id, Ev.res)            \* only the first 21 bits may change
               /\ Ev.res2 = Ev.res                      \* idempotent
               /\ Ev.ver                                \* the secured ID verifies for that address
               /\ Ev.res = SecureId(Ev.id, Ev.ip)       \* and it is the ID BEP 42 prescribes

\* res = NodeIdSecure(id, ip)
TraceVerify == /\ IsEvent("Verify") /\ ~Ev.panic
               /\ IsAddr(Ev.ip) /\ IsId(Ev.id)
               /\ IF Undecided(Ev.ip) THEN Matches(Ev.id, Ev.ip) => Ev.res
                  ELSE Ev.res = Secure(Ev.id, Ev.ip)

Generated(id, ip) == IsId(id) /\ Secure(id, ip) /\ (Strict => Matches(id, ip))

\* res = MakeDeterministicNodeID(udp address ip:port)
TraceDetId == IsEvent("DetId") /\ ~Ev.panic /\ IsAddr(Ev.ip) /\ Generated(Ev.res, Ev.ip)

\* ServerConfig{Conn: conn?, PublicIP: ip, NoSecurity: nosec, NodeId: preset? pid}.InitNodeId();
\* res = the NodeId afterwards.  A configuration that switches security off and has no socket
\* (not reachable through NewServer) is not constrained.
TraceInitId == /\ IsEvent("InitId") /\ ~Ev.panic /\ IsAddr(Ev.ip) /\ IsId(Ev.res)
               /\ IF Ev.preset THEN Strict => Ev.res = Ev.pid
                  ELSE (Ev.conn \/ ~Ev.nosec) => Generated(Ev.res, Ev.ip)

\* res = NewServer(&ServerConfig{Conn: fake socket, PublicIP: ip, NoSecurity: nosec}).ID()
TraceServerId == IsEvent("ServerId") /\ ~Ev.panic /\ ~Ev.err /\ IsAddr(Ev.ip) /\ Generated(Ev.res, Ev.ip)

TraceNext == TraceSecure \/ TraceVerify \/ TraceDetId \/ TraceInitId \/ TraceServerId
TraceSpec == TraceInit /\ [][TraceNext]_tvars

\* ---- acceptance: the whole file was consumed
HW == TLCSet(1, IF TLCGet(1) < l THEN l ELSE TLCGet(1))
Accepted == IF TLCGet(1) = Len(TraceLog) + 1 THEN TRUE
            ELSE PrintT(<<"REJECTED_AT", TLCGet(1)>>) /\ FALSE
ASSUME TLCSet(1, 0)
=============================================================================
