CONSTANTS
 Report = TRUE
SPECIFICATION TraceSpec
CONSTRAINT HW
POSTCONDITION Accepted
CHECK_DEADLOCK FALSE
