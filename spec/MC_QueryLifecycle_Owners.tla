---------------------- MODULE MC_QueryLifecycle_Owners ----------------------
(* Exhaustive instance of Owners (the traversal owners of the lifecycle family, C14): one owner
   kind per run, NQ lookup queries, every interleaving of the owner, the run loop, the queries,
   the stopper, the finisher, the user (cancel, Close, StopTraversing, reader gone) and the server
   Close.  StopOnStartErr / WatchCtx = FALSE reproduce DESIGN section 8 items 8 and 10. *)
EXTENDS Owners
=============================================================================
