---------------------------- MODULE MC_KrpcServer ----------------------------
(***************************************************************************)
(* Design model of server.go's socket loop and dispatch, composed with the *)
(* observer KrpcServer!Step: every boundary event the model produces is    *)
(* judged by the same function that judges the real code, and o.bad must   *)
(* stay empty.  Recv is one atomic step (the code holds Server.mu from     *)
(* decode to dispatch) that may leave pending sends and callbacks, which   *)
(* are separate steps (goroutines) and interleave freely with further      *)
(* datagrams, clock ticks and the node's own query.                        *)
(***************************************************************************)
EXTENDS KrpcServer

CONSTANTS Passive, PeerStore, AnnounceCb, Hook, Burst, MaxN,
          Focus   \* which part of the alphabet is explored: "dispatch" | "tokens" | "peers" | "match" | "block" | "budget"

VARIABLES o,       \* observer state
          n,       \* events so far (also the transaction ID of the next inbound message)
          sclock,  \* the server's token clock, seconds
          pend,    \* replies / errors not yet written (reply goroutines)
          pcb,     \* callbacks not yet fired
          speers,  \* the peer store
          sq       \* the node's own query: [st, t]
mvars == <<o, n, sclock, pend, pcb, speers, sq>>

A  == [ip |-> "a4", ipn |-> "A", port |-> 1, fam |-> 4]
A2 == [ip |-> "a4", ipn |-> "A", port |-> 2, fam |-> 4]     \* same IP, other port
B  == [ip |-> "b4", ipn |-> "B", port |-> 1, fam |-> 4]     \* blocklisted
C  == [ip |-> "c6", ipn |-> "C", port |-> 1, fam |-> 6]
Srcs == {A, A2, B, C}
Methods == {"ping", "find_node", "get_peers", "announce_peer", "put", "foo"}
Tok(ipn, idx) == [ip |-> ipn, idx |-> idx]
Forged == Tok("x", -1)
NoTok == Tok("", -2)
Cfg == [passive |-> Passive, peerstore |-> PeerStore, announcecb |-> AnnounceCb, own |-> "me", blocked |-> {"B"},
        burst |-> Burst, rate |-> 0]

Init == /\ o = InitObs(Cfg) /\ n = 1 /\ sclock = 0 /\ pend = {} /\ pcb = {} /\ speers = {}
        /\ sq = [st |-> "idle", t |-> ""]

SValid(tok, ipn) == \E d \in 0..2 : tok = Tok(ipn, (sclock \div 300) - d)

InEv(src, y, q, hasA, tok, veto, w4, w6, implied) ==
  [e |-> "In", src |-> src, drop |-> (src.ipn = "B"), dec |-> TRUE, y |-> y, q |-> q, t |-> ToString(n), hasA |-> hasA, veto |-> veto,
   tok |-> tok, ih |-> "h", port |-> 7, implied |-> implied, want4 |-> w4, want6 |-> w6]

Reply(src, kind, q, hasTok, w4, w6) ==
  [dst |-> [ipn |-> src.ipn, port |-> src.port], kind |-> kind, t |-> ToString(n), q |-> q, hasTok |-> hasTok, want4 |-> w4, want6 |-> w6]

OutEv(p, vals) ==
  [e |-> "Out", dst |-> p.dst, y |-> IF p.kind = "r" THEN "r" ELSE "e", kind |-> p.kind, t |-> p.t, idOk |-> TRUE, ipOk |-> TRUE,
   token |-> Tok(p.dst.ipn, sclock \div 300), hasToken |-> p.hasTok, values |-> vals, ro |-> FALSE, q |-> p.q, rated |-> TRUE,
   failed |-> FALSE, ms |-> 0, ih |-> "h", want4 |-> p.want4, want6 |-> p.want6]

\* filterPeers of server.go
Values(w4, w6) ==
  {[ipn |-> p.ipn, port |-> p.port, w |-> IF p.fam = 4 /\ w4 THEN 6 ELSE 18] :
     p \in {x \in speers : (x.fam = 4 /\ (w4 \/ w6)) \/ (x.fam = 6 /\ w6)}}

Recv(src, y, q, hasA, tok, veto, w4, w6, implied) ==
  LET ev == InEv(src, y, q, hasA, tok, veto, w4, w6, implied)
      silent == ev.drop \/ y # "q" \/ Passive \/ veto
      valid == SValid(tok, src.ipn)
      rep == IF silent THEN {}
             ELSE CASE q = "ping" -> {Reply(src, "r", q, FALSE, w4, w6)}
                    [] q = "find_node" -> {Reply(src, IF hasA THEN "r" ELSE "e203", q, FALSE, w4, w6)}
                    [] q = "get_peers" -> {Reply(src, IF hasA THEN "r" ELSE "e203", q, hasA /\ PeerStore, w4, w6)}
                    [] q = "announce_peer" -> IF ~hasA THEN {Reply(src, "e203", q, FALSE, w4, w6)}
                                              ELSE IF valid THEN {Reply(src, "r", q, FALSE, w4, w6)} ELSE {}
                    [] q = "put" -> IF ~hasA THEN {Reply(src, "e203", q, FALSE, w4, w6)}
                                    ELSE IF valid THEN {Reply(src, "r", q, FALSE, w4, w6), Reply(src, "e205", q, FALSE, w4, w6)} ELSE {}
                    [] OTHER -> {Reply(src, "e204", q, FALSE, w4, w6)}
      cbs == IF ~silent /\ q = "announce_peer" /\ hasA /\ valid
             THEN LET c(k) == [kind |-> k, ih |-> "h", ip |-> src.ip, ipn |-> src.ipn, port |-> IF implied THEN src.port ELSE 7,
                               portOk |-> TRUE, fam |-> src.fam, n |-> n] IN
                  (IF PeerStore THEN {c("AddPeer")} ELSE {}) \cup (IF AnnounceCb THEN {c("OnAnnounce")} ELSE {})
             ELSE {}
      \* a response from the right address with the right transaction ID completes the own query
      done == y # "q" /\ ~ev.drop /\ sq.st = "open" /\ src = A /\ tok = Forged   \* tok = Forged encodes "echoes Q1" below
  IN /\ n < MaxN
     /\ \E r \in IF Cardinality(rep) <= 1 THEN {rep} ELSE {{x} : x \in rep} : pend' = pend \cup r
     /\ pcb' = pcb \cup cbs
     /\ o' = Step(o, ev, n)
     /\ n' = n + 1
     /\ UNCHANGED <<sclock, speers, sq>>

SrcsF == CASE Focus = "tokens" -> {A, A2, C} [] Focus = "peers" -> {A, A2, C} [] Focus = "match" -> {A} [] Focus = "budget" -> {A, C}
           [] OTHER -> Srcs
MethodsF == CASE Focus = "tokens" -> {"get_peers", "announce_peer", "put"} [] Focus = "peers" -> {"get_peers", "announce_peer"}
              [] Focus = "match" -> {"ping"} [] Focus = "budget" -> {"ping", "foo"} [] Focus = "block" -> {"ping", "get_peers", "announce_peer"}
              [] OTHER -> Methods
YsF == IF Focus \in {"dispatch", "block"} THEN {"q", "r", "x"} ELSE {"q"}
TicksF == Focus = "tokens"
OwnQueryF == Focus \in {"match", "budget", "block"}
WantsF == IF Focus = "peers" THEN BOOLEAN ELSE {FALSE}

RecvAny == \E src \in SrcsF, y \in YsF, q \in MethodsF, hasA \in BOOLEAN, veto \in {FALSE, Hook},
             w4 \in BOOLEAN, w6 \in WantsF, implied \in WantsF,
             tok \in {NoTok, Forged} \cup {i.tok : i \in o.issued} :
             /\ (y # "q") => (q = "ping" /\ hasA /\ ~veto /\ ~implied /\ w4 /\ ~w6 /\ tok = NoTok)
             /\ (q \notin {"announce_peer", "put"}) => (tok = NoTok /\ ~implied)
             /\ (q # "get_peers") => (w4 /\ ~w6)
             /\ w4 \/ w6 \/ Focus = "peers"
             /\ Recv(src, y, q, hasA, tok, veto, w4, w6, implied)

Emit == \E p \in pend :
  /\ Burst < 0 \/ o.tokens > 0
  /\ pend' = pend \ {p}
  /\ o' = Step(o, OutEv(p, IF p.q = "get_peers" /\ p.kind = "r" /\ PeerStore THEN Values(p.want4, p.want6) ELSE {}), n)
  /\ UNCHANGED <<n, sclock, pcb, speers, sq>>

\* no budget: the reply is dropped
DropSend == \E p \in pend :
  /\ Burst >= 0 /\ o.tokens = 0
  /\ pend' = pend \ {p}
  /\ UNCHANGED <<o, n, sclock, pcb, speers, sq>>

FireCb == \E c \in pcb :
  /\ pcb' = pcb \ {c}
  /\ speers' = IF c.kind = "AddPeer"
               THEN {p \in speers : p.ip # c.ip} \cup {[ip |-> c.ip, ipn |-> c.ipn, port |-> c.port, fam |-> c.fam]}
               ELSE speers
  /\ o' = Step(o, [e |-> "Cb"] @@ c, n)
  /\ UNCHANGED <<n, sclock, pend, sq>>

Tick == /\ TicksF /\ sclock < 1500
        /\ sclock' = sclock + 150
        /\ o' = Step(o, [e |-> "Clock", sec |-> sclock + 150], n)
        /\ UNCHANGED <<n, pend, pcb, speers, sq>>

Quiesce == /\ pend = {} /\ pcb = {}
           /\ o.oblig # {} \/ o.expect # {} \/ \E x \in o.queries : x.st = "matched"
           /\ o' = Step(o, [e |-> "Quiesce", txns |-> IF sq.st \in {"called", "open"} THEN 1 ELSE 0], n)
           /\ UNCHANGED <<n, sclock, pend, pcb, speers, sq>>

\* the node's own query to A: register, write, then either the genuine reply, or foreign datagrams, or cancel
CallQ == /\ OwnQueryF /\ sq.st = "idle"
         /\ sq' = [st |-> "called", t |-> ""]
         /\ o' = Step(o, [e |-> "Call", k |-> 1, dst |-> [ipn |-> "A", port |-> 1]], n)
         /\ UNCHANGED <<n, sclock, pend, pcb, speers>>
SendQ == /\ sq.st = "called" /\ (Burst < 0 \/ o.tokens > 0)
         /\ sq' = [st |-> "open", t |-> "Q1"]
         /\ o' = Step(o, [e |-> "Out", dst |-> [ipn |-> "A", port |-> 1], y |-> "q", kind |-> "", t |-> "Q1", idOk |-> TRUE,
                          ipOk |-> TRUE, token |-> NoTok, hasToken |-> FALSE, values |-> {}, ro |-> Passive, q |-> "ping",
                          rated |-> TRUE, failed |-> FALSE, ms |-> 0, ih |-> "", want4 |-> FALSE, want6 |-> FALSE], n)
         /\ UNCHANGED <<n, sclock, pend, pcb, speers>>
RespQ == \E src \in Srcs, t \in {"Q1", "Q2"} :
         /\ sq.st = "open" /\ n < MaxN
         /\ LET ev == [e |-> "In", src |-> src, drop |-> (src.ipn = "B"), dec |-> TRUE, y |-> "r", q |-> "", t |-> t, hasA |-> TRUE,
                       veto |-> FALSE, tok |-> NoTok, ih |-> "", port |-> -1, implied |-> FALSE, want4 |-> FALSE, want6 |-> FALSE]
                o1 == Step(o, ev, n)
                hit == src = A /\ t = "Q1" IN
            IF hit THEN /\ o' = Step(o1, [e |-> "Ret", k |-> 1, class |-> "reply", t |-> "Q1"], n)
                        /\ sq' = [st |-> "done", t |-> "Q1"]
                   ELSE o' = o1 /\ UNCHANGED sq
         /\ n' = n + 1
         /\ UNCHANGED <<sclock, pend, pcb, speers>>
CancelQ == /\ sq.st \in {"called", "open"}
           /\ o' = Step(Step(o, [e |-> "Cancel", k |-> 1], n), [e |-> "Ret", k |-> 1, class |-> "ctx", t |-> ""], n)
           /\ sq' = [st |-> "done", t |-> ""]
           /\ UNCHANGED <<n, sclock, pend, pcb, speers>>

Next == RecvAny \/ Emit \/ DropSend \/ FireCb \/ Tick \/ Quiesce \/ CallQ \/ SendQ \/ RespQ \/ CancelQ
Spec == Init /\ [][Next]_mvars

BurstNone == -1
NoBad == o.bad = {}
\* vacuity guards: the interesting branches are reachable
ReachTokenHonoured == ~(\E p \in speers : TRUE)
=============================================================================
