---------------------------- MODULE Trace_Maintainer ----------------------------
(***************************************************************************)
(* Trace validator for Server.TableMaintainer.  trace.ndjson is what       *)
(* harness/cmd/maint saw at the boundaries the library offers while the    *)
(* real routine ran against simulated contacts:                            *)
(*   Header    contact names and the bucket each one's ID falls into       *)
(*   Setup     the routing table (hook snapshot) just before               *)
(*             `go s.TableMaintainer()'                                    *)
(*   Send      a ping or find_node datagram reached the socket (decoded by *)
(*             the harness's own bencode reader): destination, n-th send   *)
(*             of its transaction, bucket of the find_node target (or      *)
(*             SelfTarget)                                                 *)
(*   Reply     the network answers a query (logged before the datagram is  *)
(*             handed to the socket loop; the call returns once the node   *)
(*             has processed it)                                           *)
(*   Query     a contact pings the node (same discipline)                  *)
(*   Snap      routing-table snapshot (hook; taken under the write lock)   *)
(*   Close     Server.Close returned                                       *)
(*   Returned  TableMaintainer returned                                    *)
(* Nothing inside the routine is logged: every step of Maintainer's        *)
(* control flow, every time-out and every failed-ping mark is a silent     *)
(* step, and TLC searches for a placement of them that explains the file.  *)
(* A send the model cannot place (a ping to a contact that was not         *)
(* questionable when its bucket was scanned, a fourth try, a find_node for *)
(* another bucket than the one being refreshed or to an address already    *)
(* asked, any datagram after the pass gave up), a snapshot that differs    *)
(* from the model's table (a failed mark without three silent tries, a     *)
(* missing one after them), or a return that the model cannot reach        *)
(* rejects the trace.                                                      *)
(***************************************************************************)
EXTENDS Maintainer, Json

VARIABLES l,
          pend   \* a reply the harness has logged and handed to the socket loop, not yet processed by the node
tvars == <<vars, l, pend>>
NoPend == [to |-> "none", c |-> "", nodes |-> {}]

TraceLog == ndJsonDeserialize("trace.ndjson")
TEv == TraceLog[l]
IsEvent(e) == l <= Len(TraceLog) /\ TEv.e = e /\ l' = l + 1
Range(s) == {s[i] : i \in DOMAIN s}
TBucketOf(c) == TraceLog[1].bucket[c]

Entry(x) == [id |-> x.id, addr |-> x.id, b |-> TBucketOf(x.id), ab |-> x.ab, sec |-> TRUE, fam |-> 4,
             q |-> x.q, r |-> x.r, failed |-> x.failed]
SnapTable(s) == {Entry(x) : x \in Range(s)}

TraceInit == Init /\ l = 2 /\ pend = NoPend

\* a fresh server, its table as the harness prepared it; the maintainer starts
TraceSetup ==
  /\ IsEvent("Setup") /\ pend = NoPend /\ UNCHANGED pend
  /\ table' = SnapTable(TEv.table)
  /\ pc' = "top" /\ bi' = 0 /\ rl' = 0 /\ closed' = FALSE /\ lastBoot' = "never"
  /\ pings' = NoPings /\ trav' = NoTrav /\ bsig' = FALSE /\ sleeps' = 0

\* the write that a send consists of happens after the closed check and outside the lock: a datagram may
\* still appear after Close, so the trace versions of the send actions do not look at `closed'
TraceSendPing ==
  /\ IsEvent("Send") /\ TEv.q = "ping"
  /\ LET c == TEv.dst IN
     /\ c \in Contacts /\ pings[c].st = "open" /\ pings[c].sends < MaxPingSends
     /\ TEv.nth = pings[c].sends + 1
     /\ pings' = [pings EXCEPT ![c].sends = @ + 1]
  /\ UNCHANGED <<table, pc, bi, rl, closed, lastBoot, trav, bsig, sleeps, pend>>

TraceSendFind ==
  /\ IsEvent("Send") /\ TEv.q = "find_node"
  /\ LET c == TEv.dst IN
     /\ c \in Contacts /\ Active /\ trav.target = TEv.tb /\ TEv.nth = 1
     /\ c \in trav.known \ trav.queried /\ Cardinality(trav.inflight) < Alpha
     /\ trav' = [trav EXCEPT !.queried = @ \cup {c}, !.inflight = @ \cup {c}]
  /\ UNCHANGED <<table, pc, bi, rl, closed, lastBoot, pings, bsig, sleeps, pend>>

\* The harness logs a reply and hands it to the socket loop; the call returns once the node has processed it, and
\* only then does the harness log anything else.  The node's own sends can fall in between (a resend that was due
\* while the reply waited for the write lock), so the effect is a step of its own: Deliver.
TraceReply ==
  /\ IsEvent("Reply") /\ pend = NoPend
  /\ pend' = [to |-> TEv.to, c |-> TEv.dst, nodes |-> Range(TEv.nodes) \cap Contacts]
  /\ UNCHANGED vars

\* a reply completes the query it answers if that query is still open; otherwise it is unsolicited
Deliver ==
  /\ pend # NoPend /\ pend' = NoPend /\ UNCHANGED l
  /\ LET c == pend.c
         L == pend.nodes IN
     IF pend.to = "query"
     THEN InboundQuery(c) \/ (closed /\ UNCHANGED vars)
     ELSE IF pend.to = "ping"
     THEN \/ PingAnswer(c)
          \/ /\ ~(pings[c].st = "open" /\ pings[c].sends > 0) \/ closed
             /\ UNCHANGED vars
     ELSE \/ TAnswer(c, L)
          \/ /\ c \notin trav.inflight \/ closed
             /\ UNCHANGED vars

\* a contact's own ping: same discipline as a reply
TraceQuery ==
  /\ IsEvent("Query") /\ pend = NoPend
  /\ pend' = [to |-> "query", c |-> TEv.from, nodes |-> {}]
  /\ UNCHANGED vars

\* the hook takes the write lock: no snapshot while the maintainer holds the read lock
TraceSnap ==
  /\ IsEvent("Snap") /\ rl = 0 /\ pend = NoPend /\ UNCHANGED pend
  /\ table = SnapTable(TEv.table)
  /\ UNCHANGED vars

TraceClose == IsEvent("Close") /\ pend = NoPend /\ UNCHANGED pend /\ Close

TraceReturned ==
  /\ IsEvent("Returned") /\ pc = "returned" /\ UNCHANGED pend
  /\ UNCHANGED vars

\* a lookup query that fails at once because the server is closed puts nothing on the wire
SilentLaunch(c) == closed /\ TLaunch(c)

Silent ==
  /\ \/ MaintainerStep
     \/ \E c \in Contacts : PingGiveUp(c) \/ PingMark(c) \/ TFail(c) \/ SilentLaunch(c)
  /\ UNCHANGED <<l, pend>>

TraceNext == \/ TraceSetup \/ TraceSendPing \/ TraceSendFind \/ TraceReply \/ TraceQuery \/ TraceSnap
             \/ TraceClose \/ TraceReturned
             \/ Silent \/ Deliver
TraceSpec == TraceInit /\ [][TraceNext]_tvars

HW == TLCSet(1, IF TLCGet(1) < l THEN l ELSE TLCGet(1))
Accepted == IF TLCGet(1) = Len(TraceLog) + 1 THEN TRUE
            ELSE PrintT(<<"REJECTED_AT", TLCGet(1)>>) /\ FALSE
ASSUME TLCSet(1, 0)
=============================================================================
