---------------------------- MODULE Trace_KrpcServer ----------------------------
(* Feeds the boundary events recorded from a real dht.Server through KrpcServer!Step.  One      *)
(* invariant per property: no tag naming that property may appear.  The observer is total, so a  *)
(* trace is always consumed to its end unless an invariant stops TLC.                            *)
EXTENDS KrpcServer, Json

VARIABLES l, o
tvars == <<l, o>>

TraceLog == ndJsonDeserialize("trace.ndjson")
Range(s) == {s[i] : i \in DOMAIN s}
NoCfg == [passive |-> FALSE, peerstore |-> FALSE, announcecb |-> FALSE, own |-> "", blocked |-> {}, burst |-> -1, rate |-> 0]

Norm(ev) ==
  CASE ev.e = "Out" -> [ev EXCEPT !.values = {[ipn |-> v[1], port |-> v[2], w |-> v[3]] : v \in Range(ev.values)}]
    [] ev.e = "SetBlock" -> [ev EXCEPT !.blocked = Range(ev.blocked)]
    [] OTHER -> ev

TraceInit == l = 1 /\ o = InitObs(NoCfg)

TraceStart ==
  /\ l <= Len(TraceLog) /\ TraceLog[l].e = "Start"
  /\ o' = InitObs([passive |-> TraceLog[l].passive, peerstore |-> TraceLog[l].peerstore, announcecb |-> TraceLog[l].announcecb,
                   own |-> TraceLog[l].own, blocked |-> Range(TraceLog[l].blocked), burst |-> TraceLog[l].burst,
                   rate |-> TraceLog[l].rate])
  /\ l' = l + 1

TraceStep ==
  /\ l <= Len(TraceLog) /\ TraceLog[l].e # "Start"
  /\ o' = Step(o, Norm(TraceLog[l]), l)
  /\ l' = l + 1

TraceNext == TraceStart \/ TraceStep
TraceSpec == TraceInit /\ [][TraceNext]_tvars

InvC01 == Holds(o, "C01")
InvC07 == Holds(o, "C07")
InvC08 == Holds(o, "C08")
InvC10 == Holds(o, "C10")
InvC11 == Holds(o, "C11")
InvC19 == Holds(o, "C19")
InvC20 == Holds(o, "C20")

HW == TLCSet(1, IF TLCGet(1) < l THEN l ELSE TLCGet(1))
Accepted == IF TLCGet(1) = Len(TraceLog) + 1 THEN TRUE
            ELSE PrintT(<<"REJECTED_AT", TLCGet(1)>>) /\ FALSE
ASSUME TLCSet(1, 0)
=============================================================================
