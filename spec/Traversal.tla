---------------------------- MODULE Traversal ----------------------------
(***************************************************************************)
(* The iterative lookup of traversal/operation.go, one action per critical *)
(* section of op.mu or blocking select.  Shared by the exhaustive models   *)
(* (MC_Traversal), the schedule generator and the trace validator          *)
(* (Trace_Traversal), which conjoins these same actions with the logged    *)
(* events.  Properties: C02 (ClosestOK, HonestResult), C03 (StallPredicate,*)
(* Terminates, StopCompletes), C04 (AlphaBound, OncePerAddr, FilterFirst,  *)
(* CancelOnStop).                                                          *)
(***************************************************************************)
EXTENDS Integers, FiniteSets, Sequences, Bitwise, TLC

CONSTANTS
  DedupAtPop,        \* TRUE: an address already queried is never popped again (what C04 requires)
  CaptureUnderLock,  \* TRUE: the run loop takes the condition channel before unlocking (the code);
                     \* FALSE: racy variant used as a generator of attack schedules / vacuity guard
  TraceMode,         \* TRUE in Trace_Traversal: wake-ups are silent steps folded into the next event
  Strict             \* TRUE: every guard is enforced (MC, strict conformance).  FALSE (trace validation,
                     \* second pass after a strict rejection): the state follows what the code logged and
                     \* only the property invariants judge it, so that a deviation the properties are
                     \* silent about is reported as a deviation, not as a violation

NoId == -1
NoResp == [ok |-> FALSE, id |-> NoId, dok |-> FALSE, nodes |-> {}]

VARIABLES
  cfg,        \* [k, alpha, target, bad (addresses), badp (<<addr,id>> pairs)] -- constant per lookup
  unq,        \* candidates not yet popped: set of [addr, id]
  queried,    \* set of addresses
  closest,    \* result set: set of [id, addr]
  qs,         \* queries between startQuery and the deferred completion: set of [addr, cid, n, ph, cx, resp]
  stopping, stopped,
  run,        \* run loop: [pc \in {"check","iter","capture","select","done"}, offer]
  runSig,     \* the condition channel captured by the run loop has been closed
  stp, stpSig,\* Stop()'s goroutine, same capture-then-sleep protocol
  cons,       \* consumer of Stalled(): "idle" | "waiting"
  offered,    \* history: a stalled offer was pending at some point while the consumer waited
  qcount,     \* history: queries started per address
  learned,    \* history: every candidate given to AddNodes or listed in a reply
  responders, \* history: [id, addr] of every response
  eligible    \* history: responders that passed both filters

vars == <<cfg, unq, queried, closest, qs, stopping, stopped, run, runSig, stp, stpSig, cons, offered,
          qcount, learned, responders, eligible>>

Outstanding == Cardinality(qs)
Dist(i) == i ^^ cfg.target
NodeOK(c) == c.addr \notin cfg.bad /\ <<c.addr, c.id>> \notin cfg.badp

\* candidate order used for popping: known ID first, then XOR distance; ties are left open
Before(a, b) == \/ a.id # NoId /\ b.id = NoId
                \/ a.id # NoId /\ b.id # NoId /\ Dist(a.id) < Dist(b.id)
Minimal(S) == {c \in S : \A d \in S : ~Before(d, c)}

Full == Cardinality(closest) >= cfg.k
FarDist == IF closest = {} THEN -1
           ELSE LET ds == {Dist(e.id) : e \in closest} IN CHOOSE m \in ds : \A d \in ds : d <= m

\* Candidates whose address was queried (under another ID) after they were added.  The code
\* discards them lazily when they reach the head of the frontier; they are never popped.
Stale == {c \in unq : c.addr \in queried}
Poppable == IF DedupAtPop THEN unq \ Stale ELSE unq
HaveQueryOf(P) == IF P = {} THEN FALSE
                  ELSE IF ~Full THEN TRUE
                  ELSE \E c \in Minimal(P) : c.id # NoId /\ Dist(c.id) <= FarDist
HaveQuery == HaveQueryOf(Poppable)

AddOK(c) == c.addr \notin queried /\ NodeOK(c)
AddRes(c) == IF c.addr \in queried THEN "queried" ELSE IF ~NodeOK(c) THEN "filtered" ELSE "added"

\* k-nearest Push: insert, then drop a farthest element while over K (equidistant: any of them)
Push(S, e) == LET S1 == S \cup {e} IN
              IF Cardinality(S1) <= cfg.k THEN {S1}
              ELSE LET far == {x \in S1 : \A y \in S1 : Dist(y.id) <= Dist(x.id)} IN {S1 \ {x} : x \in far}

Broadcast == runSig' = TRUE /\ stpSig' = TRUE

\* the run loop may act under the lock
CanIter == IF TraceMode
           THEN run.pc \in {"check", "iter"}
                \/ (run.pc = "select" /\ (runSig \/ stopping \/ run.offer))
           ELSE run.pc = "iter"

-----------------------------------------------------------------------------
\* API / post-processing: one candidate offered to the frontier (addNodeLocked)
AddNode(c) ==
  /\ unq' = IF AddOK(c) THEN unq \cup {c} ELSE unq
  /\ learned' = learned \cup {c}
  /\ IF AddOK(c) THEN Broadcast ELSE UNCHANGED <<runSig, stpSig>>
  /\ UNCHANGED <<cfg, queried, closest, qs, stopping, stopped, run, stp, cons, offered, qcount, responders, eligible>>

\* the same step with the outcome the code logged (trace validation)
AddNodeAs(c, res) ==
  /\ Strict => AddRes(c) = res
  /\ unq' = IF res = "added" THEN unq \cup {c} ELSE unq
  /\ learned' = learned \cup {c}
  /\ IF res = "added" THEN Broadcast ELSE UNCHANGED <<runSig, stpSig>>
  /\ UNCHANGED <<cfg, queried, closest, qs, stopping, stopped, run, stp, cons, offered, qcount, responders, eligible>>

\* a whole AddNodes call is one critical section
AddNodes(ns) ==
  /\ unq' = unq \cup {c \in ns : AddOK(c)}
  /\ learned' = learned \cup ns
  /\ IF \E c \in ns : AddOK(c) THEN Broadcast ELSE UNCHANGED <<runSig, stpSig>>
  /\ UNCHANGED <<cfg, queried, closest, qs, stopping, stopped, run, stp, cons, offered, qcount, responders, eligible>>

\* run loop, top of an iteration
RunCheck ==
  /\ run.pc = "check"
  /\ run' = IF stopping THEN [pc |-> "done", offer |-> FALSE] ELSE [pc |-> "iter", offer |-> FALSE]
  /\ UNCHANGED <<cfg, unq, queried, closest, qs, stopping, stopped, runSig, stp, stpSig, cons, offered, qcount, learned, responders, eligible>>

RunExit ==
  /\ IF TraceMode THEN CanIter /\ stopping ELSE FALSE
  /\ run' = [pc |-> "done", offer |-> FALSE]
  /\ UNCHANGED <<cfg, unq, queried, closest, qs, stopping, stopped, runSig, stp, stpSig, cons, offered, qcount, learned, responders, eligible>>

\* startQuery: pop the closest candidate, mark its address queried, count it in flight.
\* In TraceMode a stale candidate is followed too (the step is what the code did); the
\* invariant OncePerAddr then reports it.
StartQuery(c) ==
  /\ CanIter
  /\ c \in unq
  /\ TraceMode \/ Outstanding < cfg.alpha          \* in a trace AlphaBound reports it
  /\ Strict => LET P == IF TraceMode /\ c.addr \in queried THEN unq ELSE Poppable IN
                 HaveQueryOf(P) /\ c \in Minimal(P)
  /\ unq' = unq \ {c}
  /\ queried' = queried \cup {c.addr}
  /\ qs' = qs \cup {[addr |-> c.addr, cid |-> c.id, n |-> qcount[c.addr] + 1, ph |-> "fly", cx |-> FALSE, resp |-> NoResp]}
  /\ qcount' = [qcount EXCEPT ![c.addr] = @ + 1]
  /\ run' = [pc |-> "iter", offer |-> FALSE]
  /\ UNCHANGED <<cfg, closest, stopping, stopped, runSig, stp, stpSig, cons, offered, learned, responders, eligible>>

\* nothing more to start: decide whether to offer "stalled", capture the condition channel, unlock
RunEval ==
  /\ CanIter
  /\ ~(Outstanding < cfg.alpha /\ HaveQuery)
  /\ LET off == ~HaveQuery /\ Outstanding = 0 IN
     /\ run' = [pc |-> IF CaptureUnderLock THEN "select" ELSE "capture", offer |-> off]
     /\ offered' = (offered \/ (off /\ cons = "waiting"))
  /\ runSig' = IF CaptureUnderLock THEN FALSE ELSE runSig
  /\ UNCHANGED <<cfg, unq, queried, closest, qs, stopping, stopped, stp, stpSig, cons, qcount, learned, responders, eligible>>

\* the same step with the decision the code logged (trace validation)
RunEvalAs(off) ==
  /\ CanIter
  /\ Strict => (~(Outstanding < cfg.alpha /\ HaveQuery) /\ off = (~HaveQuery /\ Outstanding = 0))
  /\ run' = [pc |-> "select", offer |-> off]
  /\ offered' = (offered \/ (off /\ cons = "waiting"))
  /\ runSig' = FALSE
  /\ UNCHANGED <<cfg, unq, queried, closest, qs, stopping, stopped, stp, stpSig, cons, qcount, learned, responders, eligible>>

\* racy variant only: the condition channel is taken after the lock was released
RunCapture ==
  /\ run.pc = "capture"
  /\ run' = [run EXCEPT !.pc = "select"]
  /\ runSig' = FALSE
  /\ UNCHANGED <<cfg, unq, queried, closest, qs, stopping, stopped, stp, stpSig, cons, offered, qcount, learned, responders, eligible>>

RunWake ==
  /\ run.pc = "select" /\ (runSig \/ stopping)
  /\ run' = [pc |-> "check", offer |-> FALSE]
  /\ UNCHANGED <<cfg, unq, queried, closest, qs, stopping, stopped, runSig, stp, stpSig, cons, offered, qcount, learned, responders, eligible>>

\* the stalled offer is taken by a consumer blocked on Stalled()
RunDeliver ==
  /\ run.pc = "select" /\ run.offer /\ cons = "waiting"
  /\ cons' = "idle" /\ offered' = FALSE
  /\ run' = [pc |-> "check", offer |-> FALSE]
  /\ UNCHANGED <<cfg, unq, queried, closest, qs, stopping, stopped, runSig, stp, stpSig, qcount, learned, responders, eligible>>

ConsWait ==
  /\ cons = "idle"
  /\ cons' = "waiting"
  /\ offered' = (run.pc = "select" /\ run.offer)
  /\ UNCHANGED <<cfg, unq, queried, closest, qs, stopping, stopped, run, runSig, stp, stpSig, qcount, learned, responders, eligible>>

\* after the run loop has exited the stalled channel is closed and every receive succeeds
ConsGotClosed ==
  /\ cons = "waiting" /\ run.pc = "done"
  /\ cons' = "idle" /\ offered' = FALSE
  /\ UNCHANGED <<cfg, unq, queried, closest, qs, stopping, stopped, run, runSig, stp, stpSig, qcount, learned, responders, eligible>>

\* DoQuery returns (no shared state touched by the code; the model records the result)
QueryReturn(q, resp) ==
  /\ q \in qs /\ q.ph = "fly"
  /\ qs' = (qs \ {q}) \cup {[q EXCEPT !.ph = IF resp.ok THEN "closest" ELSE "nodes", !.resp = resp]}
  /\ learned' = learned \cup resp.nodes
  /\ UNCHANGED <<cfg, unq, queried, closest, stopping, stopped, run, runSig, stp, stpSig, cons, offered, qcount, responders, eligible>>

\* the query's context is cancelled once the operation is stopping
CtxCancel(q) ==
  /\ q \in qs /\ q.ph = "fly" /\ ~q.cx /\ stopping
  /\ qs' = (qs \ {q}) \cup {[q EXCEPT !.cx = TRUE]}
  /\ UNCHANGED <<cfg, unq, queried, closest, stopping, stopped, run, runSig, stp, stpSig, cons, offered, qcount, learned, responders, eligible>>

\* addClosest under the lock: both filters, then Push
PostClosest(q) ==
  /\ q \in qs /\ q.ph = "closest"
  /\ LET e == [id |-> q.resp.id, addr |-> q.addr]
         ok == NodeOK([addr |-> q.addr, id |-> q.resp.id]) /\ q.resp.dok IN
     /\ responders' = responders \cup {e}
     /\ eligible' = IF ok THEN eligible \cup {e} ELSE eligible
     /\ IF ok THEN closest' \in Push(closest, e) ELSE closest' = closest
  /\ qs' = (qs \ {q}) \cup {[q EXCEPT !.ph = "nodes"]}
  /\ UNCHANGED <<cfg, unq, queried, stopping, stopped, run, runSig, stp, stpSig, cons, offered, qcount, learned>>

\* the same step with the flags and the resulting set the code logged (trace validation)
PostClosestAs(q, nodeOk, dataOk, newClosest) ==
  /\ q \in qs /\ q.ph = "closest"
  /\ LET e == [id |-> q.resp.id, addr |-> q.addr]
         ok == NodeOK([addr |-> q.addr, id |-> q.resp.id]) /\ q.resp.dok IN
     /\ responders' = responders \cup {e}
     /\ eligible' = IF ok THEN eligible \cup {e} ELSE eligible
     /\ Strict => /\ nodeOk = NodeOK([addr |-> q.addr, id |-> q.resp.id])
                  /\ nodeOk => (dataOk = q.resp.dok)
                  /\ IF ok THEN newClosest \in Push(closest, e) ELSE newClosest = closest
  /\ closest' = newClosest
  /\ qs' = (qs \ {q}) \cup {[q EXCEPT !.ph = "nodes"]}
  /\ UNCHANGED <<cfg, unq, queried, stopping, stopped, run, runSig, stp, stpSig, cons, offered, qcount, learned>>

\* AddNodes(res.Nodes); AddNodes(res.Nodes6) -- merged: both are plain frontier insertions
PostNodes(q) ==
  /\ q \in qs /\ q.ph = "nodes"
  /\ unq' = unq \cup {c \in q.resp.nodes : AddOK(c)}
  /\ IF \E c \in q.resp.nodes : AddOK(c) THEN Broadcast ELSE UNCHANGED <<runSig, stpSig>>
  /\ qs' = (qs \ {q}) \cup {[q EXCEPT !.ph = "done"]}
  /\ UNCHANGED <<cfg, queried, closest, stopping, stopped, run, stp, cons, offered, qcount, learned, responders, eligible>>

\* deferred completion: outstanding--, broadcast.  In TraceMode the frontier insertions were
\* logged one by one as AddNode events, so the query is still in phase "nodes" (or "closest" if
\* DoQuery reported no responder... then it went straight to "nodes").
PostDone(q) ==
  /\ q \in qs /\ q.ph = (IF TraceMode THEN "nodes" ELSE "done")
  /\ qs' = qs \ {q}
  /\ Broadcast
  /\ UNCHANGED <<cfg, unq, queried, closest, stopping, stopped, run, stp, cons, offered, qcount, learned, responders, eligible>>

Stop ==
  /\ ~stopping
  /\ stopping' = TRUE /\ stp' = "iter"
  /\ UNCHANGED <<cfg, unq, queried, closest, qs, stopped, run, runSig, stpSig, cons, offered, qcount, learned, responders, eligible>>

StopIter ==
  /\ stp = "iter"
  /\ IF Outstanding = 0
     THEN stp' = "done" /\ stopped' = TRUE /\ UNCHANGED stpSig
     ELSE stp' = "wait" /\ stpSig' = FALSE /\ UNCHANGED stopped
  /\ UNCHANGED <<cfg, unq, queried, closest, qs, stopping, run, runSig, cons, offered, qcount, learned, responders, eligible>>

StopWake ==
  /\ stp = "wait" /\ stpSig
  /\ stp' = "iter"
  /\ UNCHANGED <<cfg, unq, queried, closest, qs, stopping, stopped, run, runSig, stpSig, cons, offered, qcount, learned, responders, eligible>>

-----------------------------------------------------------------------------
\* Properties

\* C04
AlphaBound == Outstanding <= cfg.alpha
OncePerAddr == \A a \in DOMAIN qcount : qcount[a] <= 1
FilterFirst == \A q \in qs : NodeOK([addr |-> q.addr, id |-> q.cid])
CancelOnStop == stopping ~> (\A q \in qs : q.ph = "fly" => q.cx)

\* C02
ClosestOK == /\ Cardinality(closest) <= cfg.k
             /\ closest \subseteq eligible
             /\ \A r \in eligible \ closest : \A m \in closest : ~(Dist(r.id) < Dist(m.id))
             \* "the K closest nodes that answered": nobody who answered is left out while there is room
             /\ Cardinality(closest) < cfg.k => eligible \subseteq closest

\* C03: judged at the instant the loop decides, under the lock, to offer "stalled" and before any
\* later broadcast (the linearization point of the report)
StallPredicate == (run.offer /\ run.pc = "select" /\ ~runSig) =>
   /\ Outstanding = 0
   /\ \A c \in learned : NodeOK(c) =>
         \/ c.addr \in queried
         \/ Full /\ (c.id = NoId \/ Dist(c.id) > FarDist)

Terminates == <>(run.offer \/ run.pc = "done")
StopCompletes == stopping ~> stopped
=============================================================================
