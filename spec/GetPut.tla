---------------------------- MODULE GetPut ----------------------------
(***************************************************************************)
(* Client side of BEP 44 (exts/getput): a get traversal asks remote nodes  *)
(* for a target and hands its caller a value.  C12, last sentence: only a  *)
(* value that hashes to the requested immutable target, or that verifies   *)
(* under the requested mutable target's key and salt, reaches the caller,  *)
(* and among those the one with the highest sequence number -- whatever    *)
(* the remote nodes reply and in whatever order.                           *)
(* Replies are abstract like the items of Bep44Store: val/key are names,   *)
(* sig is the tuple that was really signed.                                *)
(***************************************************************************)
EXTENDS Integers, FiniteSets, Sequences, TLC

VARIABLES
  want,   \* the request: [mut, key, salt, tgt]
  rcvd,   \* replies delivered to the node so far
  res     \* what the caller got: [set, kind ("get" | "put"), found, mut, val, seq]

cvars == <<want, rcvd, res>>

NoRes == [set |-> FALSE, kind |-> "get", found |-> FALSE, mut |-> FALSE, val |-> "", seq |-> 0]
NoWant == [mut |-> FALSE, key |-> "", salt |-> "", tgt |-> <<"", "", "">>]

\* the value hashes to the requested target
ImmOK(r) == r.hasv /\ <<"i", r.val, "">> = want.tgt
\* the key (with the caller's salt) hashes to the requested target and the signature verifies
MutOK(r) == /\ r.hasv /\ r.haskey /\ r.hasseq
            /\ <<"m", r.key, want.salt>> = want.tgt
            /\ r.sig = <<r.key, want.salt, r.seq, r.val>>
Acceptable(r) == ImmOK(r) \/ MutOK(r)

Deliver(r) == rcvd' = rcvd \cup {r} /\ UNCHANGED <<want, res>>
Result(x) == res' = x /\ UNCHANGED <<want, rcvd>>

MaxSeq(S) == CHOOSE m \in S : \A x \in S : x <= m
Verified == {r \in rcvd : MutOK(r)}

\* ---- C12 (client side)
ClientVerified == (res.set /\ res.kind = "get" /\ res.found) =>
                    \E r \in rcvd : /\ r.val = res.val
                                    /\ IF res.mut THEN MutOK(r) /\ r.seq = res.seq ELSE ImmOK(r)
ClientHighest == (res.set /\ res.kind = "get" /\ res.found /\ res.mut) =>
                    \A r \in Verified : r.seq <= res.seq
\* getput.Put hands its caller the highest verified sequence number, or 0 for "nothing found".  0 is always
\* admitted: the traversal may report "stalled" on its still empty frontier before the starting nodes are
\* added (DESIGN section 8, observation O1; C03's linearization reading), and then the lookup ends before any
\* reply is looked at -- for a get that is "value not found", for a put it is sequence number 0
PutSeqHighest == (res.set /\ res.kind = "put") =>
                    res.seq = 0 \/ res.seq = MaxSeq({0} \cup {r.seq : r \in Verified})
\* not part of a listed property: an acceptable value that was delivered is found
ClientFinds == (res.set /\ res.kind = "get" /\ ~res.found) => ~\E r \in rcvd : Acceptable(r)
=============================================================================
