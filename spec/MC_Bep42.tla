------------------------------ MODULE MC_Bep42 ------------------------------
(***************************************************************************)
(* Exhaustive instance for C17: the states enumerate (address, node ID)    *)
(* pairs of a structured universe -- the addresses of the BEP's test       *)
(* vectors, every IPv4 address with at most two of its 32 bits set, the    *)
(* first and last address of every exempt network and their outside        *)
(* neighbours, IPv6 and IPv4-mapped samples -- times all eight values of r *)
(* and several shapes of the remaining ID bytes; the laws of the property  *)
(* statement are invariants on the definitions of Bep42.tla.               *)
(***************************************************************************)
EXTENDS Bep42

CONSTANT Universe     \* "small": <= 1 bit set; "full": <= 2 bits set

VARIABLE st

\* ---- published check values (an invariant of one depth-1 state rather than ASSUMEs: TLC evaluates
\* assumptions and initial states on its main thread, whose stack is too small for the recursion
\* over 32 bytes; worker threads get the -Xss setting)
\* the five vectors of BEP 42: address, r, first three bytes of the node ID (21 significant bits)
Vectors == << <<<<124, 31, 75, 21>>, 1, <<95, 191, 191>>>>,       \* 5fbfbf
              <<<<21, 75, 31, 124>>, 86, <<90, 60, 233>>>>,       \* 5a3ce9
              <<<<65, 23, 51, 170>>, 22, <<165, 212, 50>>>>,      \* a5d432
              <<<<84, 124, 73, 14>>, 65, <<27, 3, 33>>>>,         \* 1b0321
              <<<<43, 213, 53, 83>>, 90, <<229, 111, 108>>>> >>   \* e56f6c
VecId(v) == [i \in 1..20 |-> IF i <= 3 THEN v[3][i] ELSE IF i = 20 THEN v[2] ELSE 7 * i]
PublishedVectors == st.n = 1 /\ st.ip = Vectors[1][1] =>
  /\ Crc32c(<<49, 50, 51, 52, 53, 54, 55, 56, 57>>) = <<58118, 37507>>     \* "123456789" -> 0xE3069283
  /\ Crc32c(<<>>) = <<0, 0>>
  /\ Crc32c([i \in 1..32 |-> 0]) = <<35473, 13994>>                       \* RFC 3720 B.4: 0x8A9136AA
  /\ Crc32c([i \in 1..32 |-> 255]) = <<25256, 43843>>                     \* RFC 3720 B.4: 0x62A8AB43
  /\ \A k \in 1..5 : Matches(VecId(Vectors[k]), Vectors[k][1])
  /\ \A k \in 1..5 : Matches(VecId(Vectors[k]), Mapped(Vectors[k][1]))
  \* one of them falsified in bit 21 (the last significant one) no longer matches
  /\ ~Matches([VecId(Vectors[1]) EXCEPT ![3] = 183], Vectors[1][1])

\* ---- universe
Word(n, k) == [i \in 1..4 |-> IF i = k THEN n ELSE 0]
OneBit == {Word(b, k) : b \in {1, 2, 4, 8, 16, 32, 64, 128}, k \in 1..4}
TwoBit == {[i \in 1..4 |-> XorByte(x[i], y[i])] : x \in OneBit, y \in OneBit}
Edges == {<<9, 255, 255, 255>>, <<10, 0, 0, 0>>, <<10, 255, 255, 255>>, <<11, 0, 0, 0>>,
          <<172, 15, 255, 255>>, <<172, 16, 0, 0>>, <<172, 31, 255, 255>>, <<172, 32, 0, 0>>,
          <<192, 167, 255, 255>>, <<192, 168, 0, 0>>, <<192, 168, 255, 255>>, <<192, 169, 0, 0>>,
          <<169, 253, 255, 255>>, <<169, 254, 0, 0>>, <<169, 254, 255, 255>>, <<169, 255, 0, 0>>,
          <<126, 255, 255, 255>>, <<127, 0, 0, 0>>, <<127, 0, 0, 1>>, <<127, 255, 255, 255>>, <<128, 0, 0, 0>>,
          <<0, 0, 0, 0>>, <<255, 255, 255, 255>>}
V6 == {[i \in 1..16 |-> IF i = 1 THEN 32 ELSE IF i = 2 THEN 1 ELSE i],                   \* 2001:...
       [i \in 1..16 |-> 255],
       [i \in 1..16 |-> 0],                                                               \* ::
       [i \in 1..16 |-> IF i = 16 THEN 1 ELSE 0],                                         \* ::1
       [i \in 1..16 |-> IF i = 16 THEN 2 ELSE 0],
       [i \in 1..16 |-> IF i = 1 THEN 254 ELSE IF i = 2 THEN 128 ELSE 0],                 \* fe80::
       [i \in 1..16 |-> IF i = 1 THEN 254 ELSE IF i = 2 THEN 191 ELSE 255],               \* febf:ffff...
       [i \in 1..16 |-> IF i = 1 THEN 254 ELSE IF i = 2 THEN 192 ELSE 0],                 \* fec0::
       [i \in 1..16 |-> IF i = 1 THEN 254 ELSE IF i = 2 THEN 127 ELSE 255],               \* fe7f:ffff...
       [i \in 1..16 |-> IF i \in 11..12 THEN 255 ELSE IF i > 12 THEN 1 ELSE IF i = 10 THEN 1 ELSE 0]}  \* not mapped
V4s == {Vectors[k][1] : k \in 1..5} \cup Edges \cup OneBit \cup (IF Universe = "full" THEN TwoBit ELSE {})
Addrs == V4s \cup V6 \cup {Mapped(a) : a \in Edges \cup {Vectors[k][1] : k \in 1..5}}

\* ID shapes: the bytes the rule never looks at (4..19) fixed, the first three from a few patterns,
\* the last byte from all eight r and two settings of its upper bits
Heads == {<<0, 0, 0>>, <<255, 255, 255>>, <<95, 191, 191>>, <<165, 212, 50>>}
Tails == {r + h : r \in 0..7, h \in {0, 248}}
IdOf(h, t) == [i \in 1..20 |-> IF i <= 3 THEN h[i] ELSE IF i = 20 THEN t ELSE 3 * i]
Z20 == [i \in 1..20 |-> 0]

Init == st = [n |-> 0, ip |-> <<0, 0, 0, 0>>, id |-> Z20]
Next == \/ st.n = 0 /\ \E a \in Addrs : st' = [st EXCEPT !.n = 1, !.ip = a]
        \/ st.n = 1 /\ \E h \in Heads, t \in Tails : st' = [st EXCEPT !.n = 2, !.id = IdOf(h, t)]
Spec == Init /\ [][Next]_st

\* ---- laws (n = 1: one address; n = 2: address and ID)
S == SecureId(st.id, st.ip)
TypeOK == IsAddr(st.ip) /\ (st.n = 2 => S \in [1..20 -> 0..255])
\* securing changes only the first 21 bits
ChangesOnlyFirst21 == st.n = 2 => SameAfter21(st.id, S)
Idempotent == st.n = 2 => SecureId(S, st.ip) = S
SecuredVerifies == st.n = 2 => Matches(S, st.ip) /\ Secure(S, st.ip)
\* an ID verifies iff securing it changes nothing
MatchesIffFixpoint == st.n = 2 => (Matches(st.id, st.ip) <=> S = st.id)
\* flipping any of the first 21 bits of a matching ID breaks the match; the other bits (except r,
\* the last three) do not matter: the rest of byte 3, samples of bytes 4..19, the top of byte 20
FirstBitsMatter == st.n = 2 =>
  /\ \A b \in 0..20 : ~Matches(SetBit(S, b, 1 - Bit(S, b)), st.ip)
  /\ \A b \in {21, 22, 23, 24, 31, 32, 100, 151, 152, 153, 154, 155, 156} : Matches(SetBit(S, b, 1 - Bit(S, b)), st.ip)
LocalAcceptsAll == st.n = 2 => (IsLocal(st.ip) => Secure(st.id, st.ip))
\* a 4-byte address and its IPv4-mapped form are the same address
MappedAgrees == st.n = 2 /\ Len(st.ip) = 4 =>
                /\ Secure(st.id, Mapped(st.ip)) = Secure(st.id, st.ip)
                /\ SecureId(st.id, Mapped(st.ip)) = S
                /\ IsLocal(Mapped(st.ip)) = IsLocal(st.ip)
\* bits outside the mask do not influence the expected prefix, for every r
MaskedBitsIgnored == st.n = 1 /\ Len(st.ip) = 4 =>
  \A r \in 0..7 : \A k \in 1..4 : \A b \in 0..7 :
     (Mask4[k] \div P2[8 - b]) % 2 = 0 =>
        Expected([st.ip EXCEPT ![k] = XorByte(st.ip[k], P2[8 - b])], r) = Expected(st.ip, r)
\* IPv6: only the high 64 bits count
LowHalfIgnored == st.n = 1 /\ Len(st.ip) = 16 /\ ~IsMapped4(st.ip) =>
  \A r \in 0..7 : Expected([i \in 1..16 |-> IF i > 8 THEN 255 - st.ip[i] ELSE st.ip[i]], r) = Expected(st.ip, r)
\* the eight values of r give eight different prefixes (CRC32 is injective on equal-length inputs;
\* here also on the top 21 bits for this universe is NOT required, so only the words are compared)
RMatters == st.n = 1 => \A r1 \in 0..7, r2 \in 0..7 : r1 # r2 => Expected(st.ip, r1) # Expected(st.ip, r2)
=============================================================================
