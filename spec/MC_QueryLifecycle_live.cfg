CONSTANTS
 Variant = "code"
 Gen = FALSE
 NSet = {1,2,3}
 Budgets = TRUE
SPECIFICATION FairSpec
PROPERTIES Returns Quiesces
CHECK_DEADLOCK FALSE
