---------------------------- MODULE MC_Maintainer ----------------------------
(* Exhaustive model of Maintainer: contacts a, b, d share bucket 0, c sits in bucket 1; K = 2, so bucket 0 *)
(* overflows and bucket 1 can never fill (the pass gives up there).                                        *)
EXTENDS Maintainer

CONSTANT MaxPasses
MCBucketOf(c) == IF c = "c" THEN 1 ELSE 0
\* the minute of sleep passes only MaxPasses - 1 times (inside Next, so that no constraint hides a cycle)
MCNext == \/ MaintainerStep \/ Resolve
          \/ \E c \in Contacts : PingAnswer(c) \/ InboundQuery(c) \/ (\E L \in SUBSET Contacts : TAnswer(c, L))
          \/ Age \/ Close
          \/ (sleeps < MaxPasses /\ Minute)
MCSpec == Init /\ [][MCNext]_vars /\ WF_vars(MaintainerStep) /\ WF_vars(Resolve)
=============================================================================
