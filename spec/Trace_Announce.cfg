CONSTANTS
 FixedEscape = TRUE
 TraceMode = TRUE
 Off = {}
SPECIFICATION TraceSpec
INVARIANT ClosestFinal
CONSTRAINT HW
POSTCONDITION Accepted
CHECK_DEADLOCK FALSE
