CONSTANTS
 Variant = "code"
 Gen = FALSE
 NSet = {1,2,3}
 Budgets = TRUE
INIT MCInit
NEXT Next
INVARIANTS TypeOK ReturnClean SendsBound ResultJustified ClosedNoSend NoLateSend ObsSendsBound ObsJoined ObsNoLateSend ObsClosedNoSend ObsResult ObsWrites
CHECK_DEADLOCK FALSE
