CONSTANTS
 Procs = {"w", "a", "p1", "p2", "p3", "g"}
 Atomic = FALSE
 Gen = FALSE
SPECIFICATION TraceSpec
CONSTRAINTS HW Report
POSTCONDITION Accepted
CHECK_DEADLOCK FALSE
