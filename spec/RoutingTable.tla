---------------------------- MODULE RoutingTable ----------------------------
(***************************************************************************)
(* The routing table of server.go / table.go / bucket.go / node.go: which  *)
(* contacts enter, which are displaced, how liveness evidence is tracked,  *)
(* and which contacts are handed out in find_node / get_peers / get        *)
(* replies.  One action per event handled under Server.mu.                 *)
(*   C05  WellFormed, CountsAgree                                          *)
(*   C06  Admit, Evict, MustAdmit (action properties, stated on any        *)
(*        transition table -> table' caused by an event e)                 *)
(*   C09  AnswerOK, FlagsAgree                                             *)
(* IDs are opaque strings; the bucket an ID belongs to (length of the      *)
(* prefix it shares with the root) comes with every sender record as .b -- *)
(* the bit-level function itself is C18's business.                        *)
(***************************************************************************)
EXTENDS Integers, FiniteSets, Sequences, TLC

CONSTANTS K,       \* bucket size: 2 in the exhaustive model, 8 when validating traces of the code
          Zero,    \* the all-zero ID
          NoId     \* a message that carries no sender ID

VARIABLES root,    \* own ID
          nosec,   \* security extension not enforced
          table    \* set of [id, addr, b, ab, sec, fam, q, r, failed]
                   \*  b = bucket the ID belongs to, ab = bucket it actually sits in,
                   \*  q / r \in {"never","recent","old"}: last query / response from the contact
                   \*  relative to the 15-minute horizon; failed = last questionable ping timed out
rtvars == <<root, nosec, table>>

Key(n) == <<n.id, n.addr>>
Keys(T) == {Key(n) : n \in T}
Bad(n) == n.id = root \/ n.id = Zero \/ (~nosec /\ ~n.sec) \/ n.failed
Good(n) == ~Bad(n) /\ (n.r = "recent" \/ (n.r # "never" /\ n.q = "recent"))
Questionable(n) == ~Good(n) /\ ~Bad(n)
InBucket(T, b) == {n \in T : n.ab = b}

\* An event: [kind, s = sender [id, addr, b, sec, fam], ro, matched, drop]
\*   kind \in {"RecvQuery","RecvResp","RecvErr","AddNode","PingFail","Age","SetBlock","Other"}
\*   drop: the source is blocklisted or has port 0 (dropped before decoding)
SenderKey(e) == <<e.s.id, e.s.addr>>
Eligible(e) ==
  /\ e.kind \in {"RecvQuery", "RecvResp", "AddNode"}
  /\ e.kind = "RecvResp" => e.matched
  /\ e.kind # "AddNode" => (~e.ro /\ ~e.drop)
  /\ e.s.id \notin {root, Zero, NoId}
  /\ nosec \/ e.s.sec

-----------------------------------------------------------------------------
\* C06, stated on a transition T -> T2 caused by event e

\* a contact enters only as the sender of an eligible event
Admit(e, T, T2) == \A n \in T2 : Key(n) \notin Keys(T) => (Eligible(e) /\ Key(n) = SenderKey(e))

\* an entry is displaced only if it is bad, or it never answered and the newcomer has just answered
Evict(e, T, T2) == \A m \in T : Key(m) \notin Keys(T2) =>
                      \/ Bad(m)
                      \/ /\ m.r = "never"
                         /\ e.kind = "RecvResp" /\ Eligible(e)
                         /\ SenderKey(e) \in Keys(T2) /\ SenderKey(e) \notin Keys(T)

\* an eligible sender is admitted whenever its bucket has room
MustAdmit(e, T, T2) == (Eligible(e) /\ SenderKey(e) \notin Keys(T) /\ Cardinality(InBucket(T, e.s.b)) < K)
                          => SenderKey(e) \in Keys(T2)

\* a good contact is never removed (consequence of Evict, stated separately for the evidence)
GoodStays(T, T2) == \A m \in T : Good(m) => Key(m) \in Keys(T2)

-----------------------------------------------------------------------------
\* C05

WellFormed(T) ==
  /\ \A n \in T : n.ab = n.b /\ n.id # root /\ n.id # Zero
  /\ \A b \in {n.ab : n \in T} : Cardinality(InBucket(T, b)) <= K
  /\ \A n, m \in T : Key(n) = Key(m) => n = m

-----------------------------------------------------------------------------
\* the operational model: updateNode / addNode of server.go

Fresh(s) == [id |-> s.id, addr |-> s.addr, b |-> s.b, ab |-> s.b, sec |-> s.sec, fam |-> s.fam,
             q |-> "never", r |-> "never", failed |-> FALSE]
Find(s) == {n \in table : Key(n) = <<s.id, s.addr>>}

\* set of possible successor tables (the victim in a full bucket depends on Go's map order)
UpdateNode(s, tryAdd, Upd(_)) ==
  IF s.id = NoId THEN {table}
  ELSE IF Find(s) # {} THEN {(table \ Find(s)) \cup {Upd(n) : n \in Find(s)}}
  ELSE IF ~tryAdd \/ s.id = root THEN {table}
  ELSE LET n == Upd(Fresh(s)) IN
       IF Bad(n) THEN {table}
       ELSE LET bk == InBucket(table, n.b) IN
            IF Cardinality(bk) < K THEN {table \cup {n}}
            ELSE LET droppable == {m \in bk : Bad(m) \/ (Good(n) /\ m.r = "never")} IN
                 IF droppable = {} THEN {table}
                 ELSE {(table \ {v}) \cup {n} : v \in droppable}

GotQuery(n) == [n EXCEPT !.q = "recent"]
GotResponse(n) == [n EXCEPT !.r = "recent", !.failed = FALSE]
PingFailed(n) == [n EXCEPT !.failed = TRUE]
Same(n) == n
AgeOne(n) == [n EXCEPT !.q = IF @ = "recent" THEN "old" ELSE @, !.r = IF @ = "recent" THEN "old" ELSE @]

\* successor tables of an event
Apply(e) ==
  CASE e.kind = "RecvQuery" -> IF e.drop THEN {table} ELSE UpdateNode(e.s, ~e.ro, GotQuery)
    [] e.kind = "RecvResp"  -> IF e.drop \/ ~e.matched THEN {table} ELSE UpdateNode(e.s, ~e.ro, GotResponse)
    [] e.kind = "AddNode"   -> IF e.s.id = Zero THEN {table} ELSE UpdateNode(e.s, TRUE, Same)
    [] e.kind = "PingFail"  -> UpdateNode(e.s, FALSE, PingFailed)
    [] e.kind = "Age"       -> {{AgeOne(n) : n \in table}}
    [] OTHER                -> {table}      \* errors, unknown message types, blocklist changes

-----------------------------------------------------------------------------
\* C09: the node lists of a reply.  ans = [tb, want4, want6, has4, has6, nodes, nodes6] with
\* nodes/nodes6 = sets of keys <<id, addr>> decoded from the reply, tb = bucket of the target the
\* query names (159 for the root itself), want4/want6 = what the requester is entitled to.
ListOK(L, fam, tb, T) ==
  LET G == {n \in T : Good(n) /\ n.fam = fam /\ n.ab <= tb} IN
  /\ Cardinality(L) <= K
  /\ \A k \in L : \E n \in G : Key(n) = k                  \* good, right family, from the walked buckets
  /\ \A k \in L : k[1] # root
  /\ \A n \in G : Key(n) \in L =>
        \A m \in G : (m.ab > n.ab) => Key(m) \in L         \* nearer bucket never skipped
  /\ Cardinality(L) < K => \A m \in G : Key(m) \in L       \* short only when exhausted

AnswerOK(a, T) ==
  /\ IF a.want4 THEN ListOK(a.nodes, 4, a.tb, T) /\ (a.has4 <=> a.nodes # {})
               ELSE a.nodes = {} /\ ~a.has4
  /\ IF a.want6 THEN ListOK(a.nodes6, 6, a.tb, T) /\ (a.has6 <=> a.nodes6 # {})
               ELSE a.nodes6 = {} /\ ~a.has6
=============================================================================
