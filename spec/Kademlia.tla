------------------------------ MODULE Kademlia ------------------------------
(***************************************************************************)
(* Identifiers, XOR metric, bucket index, closeness orders and the         *)
(* K-nearest container of a Kademlia node (property C18).                  *)
(*                                                                         *)
(* An ID is a sequence of bytes (0..255), most significant byte first; its *)
(* length is whatever the caller uses: 20 when records of the real code    *)
(* are validated (Trace_Kademlia), 1 or 2 with a restricted byte range in  *)
(* the exhaustive instances (MC_Kademlia) -- TLC integers are 32 bit, so a *)
(* 160-bit ID can never be one integer and everything is defined bytewise. *)
(* The definitions are written from the Kademlia paper / BEP 5, not from   *)
(* the Go code; where two formulations exist (XOR by table vs. by bits,    *)
(* bucket index by leading zeros vs. by shared prefix) both are given and  *)
(* MC_Kademlia checks that they agree.                                     *)
(***************************************************************************)
EXTENDS Integers, Sequences, FiniteSets, TLC

\* ---------------------------------------------------------------- bytes
P2 == <<1, 2, 4, 8, 16, 32, 64, 128, 256>>                 \* P2[k+1] = 2^k
\* bit j of byte x, j = 0 is the most significant bit
BitOf(x, j) == (x \div P2[8 - j]) % 2
\* XOR of two 4-bit values, computed once from the bits
NibBit(x, k) == (x \div k) % 2
XorBit(p, q) == (p + q) % 2
\* (TLCEval: the table is computed once, not re-derived at every look-up)
XorNib == TLCEval([x \in 0..15 |-> [y \in 0..15 |->
             8 * XorBit(NibBit(x, 8), NibBit(y, 8)) + 4 * XorBit(NibBit(x, 4), NibBit(y, 4))
           + 2 * XorBit(NibBit(x, 2), NibBit(y, 2)) + XorBit(NibBit(x, 1), NibBit(y, 1))]])
XorByte(x, y) == 16 * XorNib[x \div 16][y \div 16] + XorNib[x % 16][y % 16]
\* number of leading zero bits of a byte (8 for 0)
Lzb(x) == IF x >= 128 THEN 0 ELSE IF x >= 64 THEN 1 ELSE IF x >= 32 THEN 2 ELSE IF x >= 16 THEN 3
          ELSE IF x >= 8 THEN 4 ELSE IF x >= 4 THEN 5 ELSE IF x >= 2 THEN 6 ELSE IF x >= 1 THEN 7 ELSE 8

\* ---------------------------------------------------------------- IDs
NBits(a) == 8 * Len(a)
IsZeroId(a) == \A i \in 1..Len(a) : a[i] = 0
XorId(a, b) == [i \in 1..Len(a) |-> XorByte(a[i], b[i])]
\* lexicographic on bytes = order of the unsigned big-endian integers
LessId(a, b) == \E i \in 1..Len(a) : a[i] < b[i] /\ \A j \in 1..(i - 1) : a[j] = b[j]
CmpId(a, b) == IF LessId(a, b) THEN -1 ELSE IF LessId(b, a) THEN 1 ELSE 0
\* bit n of an ID, n = 0 is the most significant bit
Bit(a, n) == BitOf(a[(n \div 8) + 1], n % 8)
SetBit(a, n, v) == [i \in 1..Len(a) |->
                      IF i # (n \div 8) + 1 THEN a[i]
                      ELSE a[i] + (v - BitOf(a[i], n % 8)) * P2[8 - (n % 8)]]
FirstNonZero(a) == CHOOSE k \in 1..Len(a) : a[k] # 0 /\ \A j \in 1..(k - 1) : a[j] = 0
LeadingZeroBits(a) == IF IsZeroId(a) THEN NBits(a)
                      ELSE LET i == FirstNonZero(a) IN 8 * (i - 1) + Lzb(a[i])
BitLen(a) == NBits(a) - LeadingZeroBits(a)

\* length of the common bit prefix, from the bits alone (no XOR)
SharedPrefixLen(a, b) ==
  IF a = b THEN NBits(a)
  ELSE LET i == CHOOSE k \in 1..Len(a) : a[k] # b[k] /\ \A j \in 1..(k - 1) : a[j] = b[j]
           n == CHOOSE k \in 0..7 : /\ BitOf(a[i], k) # BitOf(b[i], k)
                                    /\ \A m \in 0..(k - 1) : BitOf(a[i], m) = BitOf(b[i], m)
       IN 8 * (i - 1) + n

Dist(a, b) == XorId(a, b)
\* a is strictly closer to t than b is
DistLess(a, b, t) == LessId(XorId(a, t), XorId(b, t))

\* routing-table bucket of id seen from root: number of leading zero bits of the distance;
\* meaningless for id = root (a node does not keep itself)
BucketIndex(root, id) == LeadingZeroBits(XorId(root, id))
\* an ID for bucket i of root: the first i bits of root, bit i inverted, the rest taken from r
IdInBucket(root, i, r) == [k \in 1..Len(root) |->
   LET byteBits == [j \in 0..7 |->
          LET n == 8 * (k - 1) + j IN
          IF n < i THEN Bit(root, n) ELSE IF n = i THEN 1 - Bit(root, n) ELSE Bit(r, n)]
   IN 128 * byteBits[0] + 64 * byteBits[1] + 32 * byteBits[2] + 16 * byteBits[3]
      + 8 * byteBits[4] + 4 * byteBits[5] + 2 * byteBits[6] + byteBits[7]]

\* ---------------------------------------------------------------- lookup candidates
\* [hasId, id, ip, port]: ip is a byte sequence of length 0 (no address), 4 or 16; the id field of
\* a candidate without ID is meaningless and never looked at
IpLess(x, y) == \/ Len(x) < Len(y)
                \/ Len(x) = Len(y) /\ LessId(x, y)
AddrLess(l, r) == \/ IpLess(l.ip, r.ip)
                  \/ l.ip = r.ip /\ l.port < r.port
SameId(l, r) == l.hasId = r.hasId /\ (l.hasId => l.id = r.id)
SameCand(l, r) == SameId(l, r) /\ l.ip = r.ip /\ l.port = r.port

\* The order of lookup candidates: a known ID before an unknown one, then XOR distance to the
\* target, then address, then port.
CloserThan(l, r, t) ==
  \/ l.hasId /\ ~r.hasId
  \/ l.hasId /\ r.hasId /\ DistLess(l.id, r.id, t)
  \/ SameId(l, r) /\ AddrLess(l, r)

\* What the property statement fixes of that order ("ranks known IDs by XOR distance to the target
\* ahead of unknown ones"); the tie-break among candidates with the same ID, or both without, only
\* has to make the relation a strict total order.
Must(l, r, t) == \/ l.hasId /\ ~r.hasId
                 \/ l.hasId /\ r.hasId /\ DistLess(l.id, r.id, t)
Tied(l, r, t) == ~Must(l, r, t) /\ ~Must(r, l, t)          \* = SameId(l, r)

\* ---------------------------------------------------------------- K-nearest container
\* elements [id, ip, port]; two elements with the same ID and different addresses are at the same
\* distance and the container may keep either one (the code orders them by a per-process hash)
NoCloserOutside(U, S, t) == \A x \in U \ S, y \in S : ~DistLess(x.id, y.id, t)
\* S2 is a possible content after pushing e into a container holding S with capacity K
IsPushResult(S, e, K, t, S2) ==
  LET U == S \cup {e} IN
  IF Cardinality(U) <= K THEN S2 = U
  ELSE /\ S2 \subseteq U
       /\ Cardinality(S2) = K
       /\ NoCloserOutside(U, S2, t)
\* all possible contents after the push (more than one only when equidistant elements compete)
KNearestPush(S, e, K, t) == {S2 \in SUBSET (S \cup {e}) : IsPushResult(S, e, K, t, S2)}
\* a sequence of elements is in distance order (ties in any order)
InDistOrder(s, t) == \A i \in 1..(Len(s) - 1) : ~DistLess(s[i + 1].id, s[i].id, t)
\* S holds exactly the K nearest of everything pushed (any selection among equidistant ones)
IsKNearestOf(S, pushed, K, t) ==
  /\ S \subseteq pushed
  /\ Cardinality(S) = (IF Cardinality(pushed) < K THEN Cardinality(pushed) ELSE K)
  /\ NoCloserOutside(pushed, S, t)
Farthest(S, t) == {x \in S : \A y \in S : ~DistLess(x.id, y.id, t)}
=============================================================================
