-------------------------------- MODULE Bep42 --------------------------------
(***************************************************************************)
(* BEP 42 "DHT security extension" (http://www.libtorrent.org/dht_sec.html)*)
(* transcribed from the BEP, CRC32-C included (property C17).  Nothing     *)
(* here is taken from the Go code or from a CRC library.                   *)
(*                                                                         *)
(*   crc32c((ip & mask) | (r << 29))   for IPv4, mask = 0x030f3fff         *)
(*   crc32c((ip64 & mask) | (r << 61)) for IPv6, mask = 0x0103070f1f3f7fff *)
(*                                       applied to the high 64 bits       *)
(*   r = the low 3 bits of the last byte of the node ID                    *)
(*   the first 21 bits of the node ID must equal the top 21 bits of the CRC*)
(*   nodes on local networks are exempt                                    *)
(*                                                                         *)
(* TLC integers are 32-bit signed, so a 32-bit word is the pair            *)
(* <<high 16 bits, low 16 bits>>.  IDs are sequences of 20 bytes, IP       *)
(* addresses sequences of 4 or 16 bytes (a 16-byte IPv4-mapped address     *)
(* ::ffff:a.b.c.d is the IPv4 address a.b.c.d).                            *)
(***************************************************************************)
EXTENDS Kademlia

\* ---------------------------------------------------------------- 32-bit words
Xor16(x, y) == 256 * XorByte(x \div 256, y \div 256) + XorByte(x % 256, y % 256)
Xor32(p, q) == <<Xor16(p[1], q[1]), Xor16(p[2], q[2])>>
Shr1(p) == <<p[1] \div 2, (p[2] \div 2) + 32768 * (p[1] % 2)>>
Shr8(p) == <<p[1] \div 256, (p[2] \div 256) + 256 * (p[1] % 256)>>
Ones32 == <<65535, 65535>>

\* ---------------------------------------------------------------- CRC32-C (Castagnoli)
\* reflected form: polynomial 0x82F63B78, initial value and final XOR 0xFFFFFFFF
Poly == <<33526, 15224>>
CrcBit(c) == IF c[2] % 2 = 1 THEN Xor32(Poly, Shr1(c)) ELSE Shr1(c)
\* the 256-entry table, computed once (TLCEval) from the bitwise definition
CrcTable == TLCEval([n \in 0..255 |-> CrcBit(CrcBit(CrcBit(CrcBit(CrcBit(CrcBit(CrcBit(CrcBit(<<0, n>>))))))))])
CrcByte(c, b) == Xor32(CrcTable[XorByte(c[2] % 256, b)], Shr8(c))
RECURSIVE CrcFeed(_, _, _)
CrcFeed(c, bytes, i) == IF i > Len(bytes) THEN c ELSE CrcFeed(CrcByte(c, bytes[i]), bytes, i + 1)
Crc32c(bytes) == Xor32(CrcFeed(Ones32, bytes, 1), Ones32)

\* ---------------------------------------------------------------- addresses
IsMapped4(ip) == Len(ip) = 16 /\ (\A i \in 1..10 : ip[i] = 0) /\ ip[11] = 255 /\ ip[12] = 255
IsV4(ip) == Len(ip) = 4 \/ IsMapped4(ip)
V4(ip) == IF Len(ip) = 4 THEN ip ELSE <<ip[13], ip[14], ip[15], ip[16]>>
Mapped(ip4) == <<0, 0, 0, 0, 0, 0, 0, 0, 0, 0, 255, 255>> \o ip4
IsAddr(ip) == Len(ip) \in {4, 16} /\ \A i \in 1..Len(ip) : ip[i] \in 0..255

Mask4 == <<3, 15, 63, 255>>                       \* 0x030f3fff
Mask6 == <<1, 3, 7, 15, 31, 63, 127, 255>>        \* 0x0103070f1f3f7fff
\* every mask byte is 2^k - 1, so "x AND m" is x modulo m + 1
AndMask(x, m) == x % (m + 1)
\* the bytes fed to the CRC: masked address, r in the top three bits of the first byte
CrcInput(ip, r) ==
  LET m == IF IsV4(ip) THEN [i \in 1..4 |-> AndMask(V4(ip)[i], Mask4[i])]
           ELSE [i \in 1..8 |-> AndMask(ip[i], Mask6[i])]
  IN [m EXCEPT ![1] = m[1] + 32 * r]
Expected(ip, r) == Crc32c(CrcInput(ip, r))

\* ---------------------------------------------------------------- node IDs
Rand(id) == id[20] % 8
\* the first 21 bits of id are the top 21 bits of word c
Top21Equal(id, c) == /\ id[1] = c[1] \div 256
                     /\ id[2] = c[1] % 256
                     /\ id[3] \div 8 = (c[2] \div 256) \div 8
Matches(id, ip) == Top21Equal(id, Expected(ip, Rand(id)))

\* exempt networks: 10/8, 172.16/12, 192.168/16, link-local 169.254/16 and fe80::/10, loopback
\* 127/8 and ::1
IsLocal(ip) ==
  IF IsV4(ip) THEN
    LET a == V4(ip) IN
    \/ a[1] = 10
    \/ a[1] = 172 /\ a[2] \in 16..31
    \/ a[1] = 192 /\ a[2] = 168
    \/ a[1] = 169 /\ a[2] = 254
    \/ a[1] = 127
  ELSE
    \/ ip[1] = 254 /\ ip[2] \in 128..191
    \/ (\A i \in 1..15 : ip[i] = 0) /\ ip[16] = 1
\* IPv6 unique-local fc00::/7 is "private" in today's terminology but not in BEP 42's list: the
\* property statement does not decide it, either answer is accepted
Undecided(ip) == ~IsV4(ip) /\ ip[1] \in {252, 253}

Secure(id, ip) == IsLocal(ip) \/ Matches(id, ip)

\* the ID made secure for ip: first 21 bits from the CRC, everything else kept
SecureId(id, ip) ==
  LET c == Expected(ip, Rand(id)) IN
  [id EXCEPT ![1] = c[1] \div 256, ![2] = c[1] % 256, ![3] = 8 * ((c[2] \div 256) \div 8) + (id[3] % 8)]

\* x and y differ at most in their first 21 bits
SameAfter21(x, y) == x[3] % 8 = y[3] % 8 /\ \A i \in 4..20 : x[i] = y[i]
=============================================================================
