CONSTANTS
 Procs = {"w", "a", "p1", "p2", "p3", "g"}
 Atomic = FALSE
 Gen = FALSE
SPECIFICATION TraceSpec
INVARIANTS StoredOK RightTarget RejectedPutCode ValidNotRefused ServeOnlyStored
CONSTRAINT HW
POSTCONDITION Accepted
CHECK_DEADLOCK FALSE
