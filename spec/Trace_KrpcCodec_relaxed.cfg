CONSTANTS
 Strict = FALSE
SPECIFICATION TraceSpec
CONSTRAINT HW
POSTCONDITION Accepted
CHECK_DEADLOCK FALSE
