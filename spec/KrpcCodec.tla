------------------------------ MODULE KrpcCodec ------------------------------
(***************************************************************************)
(* The KRPC wire codec as a specification (property C15).                  *)
(*                                                                         *)
(* (1) The field tables of krpc.Msg, krpc.MsgArgs and krpc.Return: bencode *)
(*     key, kind of value, whether the field is written only when it is    *)
(*     not empty -- transcribed from krpc/msg.go and the compact types of  *)
(*     package krpc (entry sizes 26, 38, 6, 18, 20).                       *)
(* (2) A model of what a bencode struct codec does with such a table:      *)
(*     Enc writes a field unless it is optional and empty, Dec gives a     *)
(*     missing field its zero value; per kind, what is written and what a  *)
(*     decoder makes of it (a pointer becomes non-nil, a plain list        *)
(*     becomes non-nil, a compact list of length 0 stays nil ...).         *)
(* (3) Canon: the identifications bencode cannot avoid (nil = empty, a     *)
(*     4-byte IPv4 address = its IPv4-mapped form inside an address-family *)
(*     list), WellFormed: the messages the round-trip clause talks about,  *)
(*     DecodesOK: the length rule of the compact formats.                  *)
(*                                                                         *)
(* A message shape is a record with one field per bencode key; values are  *)
(* represented so that equal representation = equal Go value:              *)
(*   str    hex string            bool   BOOLEAN         int  decimal str  *)
(*   id, arr32, arr64  hex string ("" = all zero)                          *)
(*   optint [p, d]  optstr [p, h]  optbloom [p, h]   (p = pointer non-nil) *)
(*   bytes  [p, h]  strlist [p, l] addrlist [p, l]   (p = slice non-nil)   *)
(*   nodes4, nodes6 [p, l] with l a sequence of [id, ip, port]             *)
(*   hashes [p, q, l]  (p = pointer non-nil, q = slice non-nil)            *)
(*   any    [p, s]  (s = the value in canonical bencode, hex)              *)
(*   raw    [p, h]  (raw bencode bytes)                                    *)
(*   addr   [p, ip, port]  (p = IP slice non-nil)                          *)
(*   args, ret  [p, f]  (p = pointer non-nil, f = the inner shape, only    *)
(*                       present when p)        err [p, code, msg]         *)
(* MC_KrpcCodec checks the laws on this model for all presence subsets and *)
(* value variants; Trace_KrpcCodec judges records of the real codec.       *)
(***************************************************************************)
EXTENDS Integers, Sequences, FiniteSets, TLC

Range(s) == {s[i] : i \in DOMAIN s}

\* ---------------------------------------------------------------- compact formats
ElemSize == [nodes4 |-> 26, nodes6 |-> 38, addrs4 |-> 6, addrs6 |-> 18, hashes |-> 20]
\* a compact string decodes iff it consists of whole entries
DecodesOK(len, size) == len % size = 0
\* the single-entry decoders: what they need at least (NodeAddr: port; NodeInfo: ID + port)
MinLen == [NodeAddr |-> 2, NodeInfo |-> 22]

\* ---------------------------------------------------------------- field tables
\* bencode key |-> [kind of value, omit: written only when not empty]
T(kind, omit) == [kind |-> kind, omit |-> omit]
MsgFields == [q |-> T("str", TRUE), a |-> T("args", TRUE), t |-> T("str", FALSE), y |-> T("str", FALSE),
              r |-> T("ret", TRUE), e |-> T("err", TRUE), ip |-> T("addr", TRUE), ro |-> T("bool", TRUE),
              v |-> T("str", TRUE)]
ArgsFields == [id |-> T("id", FALSE), info_hash |-> T("id", TRUE), target |-> T("id", TRUE),
               token |-> T("str", TRUE), port |-> T("optint", TRUE), implied_port |-> T("bool", TRUE),
               want |-> T("strlist", TRUE), noseed |-> T("int", TRUE), scrape |-> T("int", TRUE),
               v |-> T("any", TRUE), seq |-> T("optint", TRUE), cas |-> T("int", TRUE),
               k |-> T("arr32", TRUE), salt |-> T("bytes", TRUE), sig |-> T("arr64", TRUE)]
RetFields == [id |-> T("id", FALSE), nodes |-> T("nodes4", TRUE), nodes6 |-> T("nodes6", TRUE),
              token |-> T("optstr", TRUE), values |-> T("addrlist", TRUE), BFsd |-> T("optbloom", TRUE),
              BFpe |-> T("optbloom", TRUE), interval |-> T("optint", TRUE), num |-> T("optint", TRUE),
              samples |-> T("hashes", TRUE), v |-> T("raw", TRUE), k |-> T("arr32", TRUE),
              sig |-> T("arr64", TRUE), seq |-> T("optint", TRUE)]
Keys(table) == DOMAIN table
FieldOf(table, k) == table[k]

\* ---------------------------------------------------------------- addresses
IsMapped4(ip) == Len(ip) = 16 /\ (\A i \in 1..10 : ip[i] = 0) /\ ip[11] = 255 /\ ip[12] = 255
To4(ip) == IF IsMapped4(ip) THEN <<ip[13], ip[14], ip[15], ip[16]>> ELSE ip
To16(ip) == IF Len(ip) = 4 THEN <<0, 0, 0, 0, 0, 0, 0, 0, 0, 0, 255, 255>> \o ip ELSE ip
Node4(e) == [id |-> e.id, ip |-> To4(e.ip), port |-> e.port]
Node6(e) == [id |-> e.id, ip |-> To16(e.ip), port |-> e.port]
\* (TLCEval: TLC would otherwise keep the function unevaluated and recompute it at every use)
MapSeq(s, Op(_)) == TLCEval([i \in 1..Len(s) |-> Op(s[i])])
PortOK(p) == p \in 0..65535

\* ---------------------------------------------------------------- leaf kinds
LeafKinds == {"str", "bool", "int", "id", "arr32", "arr64", "optint", "optstr", "optbloom", "bytes",
              "strlist", "addrlist", "nodes4", "nodes6", "hashes", "any", "raw", "addr", "err"}
PtrKinds == {"args", "ret"}

\* classes of kinds (named constants: TLC evaluates them once)
Scalars == {"str", "bool", "int", "id", "arr32", "arr64"}      \* the representation is the value itself
HexZero == {"str", "id", "arr32", "arr64"}                      \* zero = ""
PtrH == {"optstr", "optbloom"}                                  \* [p, h], p = pointer non-nil
SliceH == {"bytes", "raw"}                                      \* [p, h], p = slice non-nil
Lists == {"strlist", "addrlist"}                                \* [p, l] plain bencode lists
Compacts == {"nodes4", "nodes6"}                                \* [p, l] compact strings
HasP == {"optint", "optstr", "optbloom", "bytes", "raw", "strlist", "addrlist", "nodes4", "nodes6", "hashes", "any", "err"}

\* the Go zero value
ZeroLeaf(kind) ==
  CASE kind \in HexZero -> ""
    [] kind = "bool" -> FALSE
    [] kind = "int" -> "0"
    [] kind = "optint" -> [p |-> FALSE, d |-> "0"]
    [] kind \in PtrH \/ kind \in SliceH -> [p |-> FALSE, h |-> ""]
    [] kind \in Lists \/ kind \in Compacts -> [p |-> FALSE, l |-> <<>>]
    [] kind = "hashes" -> [p |-> FALSE, q |-> FALSE, l |-> <<>>]
    [] kind = "any" -> [p |-> FALSE, s |-> ""]
    [] kind = "addr" -> [p |-> FALSE, ip |-> <<>>, port |-> 0]
    [] kind = "err" -> [p |-> FALSE, code |-> "0", msg |-> ""]

\* "empty" in the sense of the omitempty tag: zero scalar, all-zero array, nil pointer, nil slice
\* (an empty non-nil slice is NOT empty), nil interface, struct whose fields are all empty
EmptyLeaf(kind, v) ==
  CASE kind \in HasP -> ~v.p
    [] kind \in HexZero -> v = ""
    [] kind = "bool" -> ~v
    [] kind = "int" -> v = "0"
    [] kind = "addr" -> ~v.p /\ v.port = 0

\* what is written for a value (a nil pointer is written as the zero value it would point to)
WireLeaf(kind, v) ==
  CASE kind \in Scalars -> v
    [] kind = "optint" -> IF v.p THEN v.d ELSE "0"
    [] kind \in PtrH -> IF v.p THEN v.h ELSE ""
    [] kind \in SliceH -> v.h
    [] kind \in Lists -> v.l
    [] kind = "nodes4" -> MapSeq(v.l, Node4)
    [] kind = "nodes6" -> MapSeq(v.l, Node6)
    [] kind = "hashes" -> IF v.p THEN v.l ELSE <<>>
    [] kind = "any" -> v.s
    [] kind = "addr" -> [ip |-> v.ip, port |-> v.port]
    [] kind = "err" -> IF v.p THEN [code |-> v.code, msg |-> v.msg] ELSE [code |-> "0", msg |-> ""]

\* what a decoder makes of a written value
ReadLeaf(kind, w) ==
  CASE kind \in Scalars -> w
    [] kind = "optint" -> [p |-> TRUE, d |-> w]
    [] kind \in PtrH \/ kind \in SliceH -> [p |-> TRUE, h |-> w]
    [] kind \in Lists -> [p |-> TRUE, l |-> w]                 \* a list decodes to a non-nil slice
    [] kind \in Compacts -> [p |-> w # <<>>, l |-> w]          \* a compact string of length 0 leaves nil
    [] kind = "hashes" -> [p |-> TRUE, q |-> w # <<>>, l |-> w]
    [] kind = "any" -> [p |-> TRUE, s |-> w]
    [] kind = "addr" -> [p |-> TRUE, ip |-> w.ip, port |-> w.port]
    [] kind = "err" -> [p |-> TRUE, code |-> w.code, msg |-> w.msg]

\* what bencode cannot tell apart, per kind
CanonLeaf(kind, v) ==
  CASE kind \in Scalars -> v
    [] kind = "optint" \/ kind \in PtrH \/ kind = "any" \/ kind = "err" -> IF v.p THEN v ELSE ZeroLeaf(kind)
    [] kind \in SliceH -> [p |-> v.h # "", h |-> v.h]                              \* nil = empty
    [] kind \in Lists -> [p |-> v.l # <<>>, l |-> v.l]                             \* nil = empty
    [] kind = "nodes4" -> [p |-> v.l # <<>>, l |-> MapSeq(v.l, Node4)]             \* and a.b.c.d = ::ffff:a.b.c.d
    [] kind = "nodes6" -> [p |-> v.l # <<>>, l |-> MapSeq(v.l, Node6)]
    [] kind = "hashes" -> IF v.p THEN [p |-> TRUE, q |-> v.l # <<>>, l |-> v.l] ELSE ZeroLeaf(kind)
    [] kind = "addr" -> [p |-> v.ip # <<>>, ip |-> v.ip, port |-> v.port]

\* the values the round-trip clause speaks about
WFLeaf(kind, v) ==
  CASE kind = "addr" -> PortOK(v.port)
    [] kind = "addrlist" -> \A i \in 1..Len(v.l) : PortOK(v.l[i].port)
    [] kind = "nodes4" -> \A i \in 1..Len(v.l) : PortOK(v.l[i].port) /\ Len(To4(v.l[i].ip)) = 4
    [] kind = "nodes6" -> \A i \in 1..Len(v.l) : PortOK(v.l[i].port) /\ Len(v.l[i].ip) \in {4, 16}
    [] kind = "raw" -> v.p => v.h # ""
    [] kind = "hashes" -> ~v.p => ~v.q /\ v.l = <<>>
    [] OTHER -> TRUE

\* ---------------------------------------------------------------- structs of leaves (MsgArgs, Return)
\* wire image of a struct: key |-> [has, w]; an optional empty field is not written
EncField(f, v) == IF f.omit /\ EmptyLeaf(f.kind, v) THEN [has |-> FALSE, w |-> WireLeaf(f.kind, ZeroLeaf(f.kind))]
                  ELSE [has |-> TRUE, w |-> WireLeaf(f.kind, v)]
DecField(f, e) == IF e.has THEN ReadLeaf(f.kind, e.w) ELSE ZeroLeaf(f.kind)
EncInner(table, s) == TLCEval([k \in Keys(table) |-> EncField(FieldOf(table, k), s[k])])
DecInner(table, w) == TLCEval([k \in Keys(table) |-> DecField(FieldOf(table, k), w[k])])
ZeroInner(table) == TLCEval([k \in Keys(table) |-> ZeroLeaf(FieldOf(table, k).kind)])
CanonInner(table, s) == TLCEval([k \in Keys(table) |-> CanonLeaf(FieldOf(table, k).kind, s[k])])
WFInner(table, s) == \A k \in Keys(table) : WFLeaf(FieldOf(table, k).kind, s[k])
KeysInner(table, s) == {k \in Keys(table) : EncField(FieldOf(table, k), s[k]).has}

\* ---------------------------------------------------------------- the message
\* (TLC re-evaluates an operator argument at every use of the parameter inside a state predicate, so
\* nested calls like Canon(Decode(Encode(m))) would cost exponentially; values are therefore bound
\* once with "\A x \in {expr}" before they are passed on.)
Inner(kind) == IF kind = "args" THEN ArgsFields ELSE RetFields
ZeroArgs == ZeroInner(ArgsFields)
ZeroRet == ZeroInner(RetFields)
ZeroOf(kind) == IF kind = "args" THEN ZeroArgs ELSE ZeroRet
IsPtr(kind) == kind \in PtrKinds
ZeroTop(kind) == IF IsPtr(kind) THEN [p |-> FALSE] ELSE ZeroLeaf(kind)
EmptyTop(kind, v) == IF IsPtr(kind) THEN ~v.p ELSE EmptyLeaf(kind, v)
\* a nil struct pointer that is written all the same is written as the zero struct
WireTop(kind, v) == IF ~IsPtr(kind) THEN WireLeaf(kind, v)
                    ELSE IF v.p THEN EncInner(Inner(kind), v.f) ELSE EncInner(Inner(kind), ZeroOf(kind))
ReadTop(kind, w) == IF IsPtr(kind) THEN [p |-> TRUE, f |-> DecInner(Inner(kind), w)] ELSE ReadLeaf(kind, w)
CanonTop(kind, v) == IF IsPtr(kind) THEN (IF v.p THEN [p |-> TRUE, f |-> CanonInner(Inner(kind), v.f)] ELSE [p |-> FALSE])
                     ELSE CanonLeaf(kind, v)
WFTop(kind, v) == IF IsPtr(kind) THEN (v.p => WFInner(Inner(kind), v.f)) ELSE WFLeaf(kind, v)

EncTopField(f, v) == IF f.omit /\ EmptyTop(f.kind, v) THEN [has |-> FALSE] ELSE [has |-> TRUE, w |-> WireTop(f.kind, v)]
Encode(m) == TLCEval([k \in Keys(MsgFields) |-> EncTopField(MsgFields[k], m[k])])
Decode(w) == TLCEval([k \in Keys(MsgFields) |->
                IF w[k].has THEN ReadTop(MsgFields[k].kind, w[k].w) ELSE ZeroTop(MsgFields[k].kind)])
Canon(m) == TLCEval([k \in Keys(MsgFields) |-> CanonTop(MsgFields[k].kind, m[k])])
WellFormed(m) == \A k \in Keys(MsgFields) : WFTop(MsgFields[k].kind, m[k])

\* the bencode keys a message is written with: top level, inside "a", inside "r"
TopKeys(m) == {k \in Keys(MsgFields) : ~(MsgFields[k].omit /\ EmptyTop(MsgFields[k].kind, m[k]))}
SubKeys(m, k) == IF MsgFields[k].omit /\ EmptyTop(MsgFields[k].kind, m[k]) THEN {}
                 ELSE IF m[k].p THEN KeysInner(Inner(MsgFields[k].kind), m[k].f)
                 ELSE KeysInner(Inner(MsgFields[k].kind), ZeroOf(MsgFields[k].kind))

\* ---------------------------------------------------------------- the laws
\* decoding an encoded message yields the same message, up to Canon
RoundTrip(m) == \A e \in {Encode(m)} : \A d \in {Decode(e)} : Canon(d) = Canon(m)
\* what decoding the encoding of m gives
Recoded(m) == CHOOSE d \in {Decode(e) : e \in {Encode(m)}} : TRUE
\* re-encoding what was decoded is a fixpoint
Fixpoint(m) == \A m1 \in {Recoded(m)} : \A e2 \in {Encode(m1)} : \A m2 \in {Decode(e2)} : Encode(m2) = e2
\* Canon is idempotent
CanonIdempotent(m) == \A c \in {Canon(m)} : Canon(c) = c
=============================================================================
