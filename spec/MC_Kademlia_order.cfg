CONSTANTS
 IdLen = 1
 ByteVals = "w2"
 K = 2
SPECIFICATION SpecOrder
INVARIANTS Irreflexive Asymmetric Total EqualNotLess KnownIdsFirst ByDistance MustOrTied Transitive
CHECK_DEADLOCK FALSE
