CONSTANTS
 Report = FALSE
SPECIFICATION TraceSpec
INVARIANTS ObsOwnerStopped ObsOwnerClean ObsOwnerResult
CONSTRAINT HW
POSTCONDITION Accepted
CHECK_DEADLOCK FALSE
