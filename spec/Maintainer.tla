---------------------------- MODULE Maintainer ----------------------------
(***************************************************************************)
(* Server.TableMaintainer (server.go): the routine that keeps the routing  *)
(* table alive.  One pass is                                               *)
(*    bootstrap, if none was started in the last 30 minutes;               *)
(*    for each bucket, nearest-to-root last:                               *)
(*       ping (three tries) every questionable contact of the bucket, and  *)
(*         mark the ones that stay silent as failed (= bad, replaceable);  *)
(*       if the bucket is full of not-bad contacts go on to the next;      *)
(*       otherwise run a find_node lookup for a random ID of that bucket   *)
(*         until it stalls or the bucket is full and fine;                 *)
(*       if the bucket still is not, give up going deeper in this pass;    *)
(*    sleep a minute.                                                      *)
(* The pass walks the table under the server's read lock and gives the     *)
(* lock up around every wait.  The model follows the code's critical       *)
(* sections (pc values = places where the lock is taken or released):      *)
(* table changes need the write lock, which exists only while the          *)
(* maintainer's read lock is not held (rl = 0).                            *)
(*                                                                         *)
(* The table itself is RoutingTable's (same events, same successor         *)
(* tables); the lookups are Traversal's, seen here only from outside: the  *)
(* owner adds contacts, the lookup queries each address at most once, at   *)
(* most Alpha at a time, offers `stalled' only while nothing is in flight, *)
(* and its owner stops it and waits for it on every path.                  *)
(*                                                                         *)
(* Checked on the model (MC_Maintainer): LockOK (no wait while the lock is *)
(* held, no release of a lock not held), table well-formedness, contacts   *)
(* are marked failed only after MaxPingSends unanswered pings, no lookup   *)
(* or ping survives the phase that owns it, every pass reaches its sleep,  *)
(* and after Close the routine returns.  Bound to the code by              *)
(* Trace_Maintainer: recorded runs of the real TableMaintainer against a   *)
(* simulated network must be behaviours of this module.                    *)
(***************************************************************************)
EXTENDS Integers, FiniteSets, Sequences, TLC

CONSTANTS Contacts,       \* the other nodes; a name serves as ID and as address
          K,              \* bucket size
          NB,             \* number of buckets walked
          BucketOf(_),    \* bucket a contact's ID belongs to
          MaxPingSends,   \* tries of a questionable-node ping (3)
          Alpha,          \* fan-out of the lookups (3)
          HoldWhileWaiting \* FALSE = the code; TRUE = a variant that keeps the read lock while it waits
                           \* for its pings (vacuity guard: TLC must find that this one gets stuck)

VARIABLES table,     \* RoutingTable's table
          pc,        \* where the maintainer is
          bi,        \* bucket being processed
          rl,        \* read locks held by the maintainer
          closed,    \* Server.Close was called
          lastBoot,  \* "never" | "recent" | "old": when the last bootstrap started
          pings,     \* [Contacts -> [sends, st]] the questionable-node pings of the current bucket
          trav,      \* the lookup the maintainer currently owns (bootstrap or bucket refresh)
          bsig,      \* the bucket being refreshed got a new entry since the refresh loop last looked
          sleeps     \* passes finished (bounds the model)
vars == <<table, pc, bi, rl, closed, lastBoot, pings, trav, bsig, sleeps>>

RT == INSTANCE RoutingTable WITH root <- "self", nosec <- TRUE, Zero <- "zero", NoId <- ""

Sender(c) == [id |-> c, addr |-> c, b |-> BucketOf(c), sec |-> TRUE, fam |-> 4]
Ev(kind, c, matched) == [kind |-> kind, s |-> Sender(c), ro |-> FALSE, matched |-> matched, drop |-> FALSE]

\* target: a bucket number, or
NoTarget == -1
SelfTarget == -2     \* the node's own ID (bootstrap)
NoTrav == [target |-> NoTarget, known |-> {}, queried |-> {}, inflight |-> {}]
NoPing == [sends |-> 0, st |-> "none"]
NoPings == [c \in Contacts |-> NoPing]

Entries(c) == {n \in table : n.id = c}
InTable == {n.id : n \in table}
NotBadIds == {n.id : n \in {x \in table : ~RT!Bad(x)}}
QuestionableIn(b) == {n.id : n \in {x \in RT!InBucket(table, b) : RT!Questionable(x)}}
\* shouldStopRefreshingBucket
ShouldStop(b) == \/ closed
                 \/ /\ Cardinality(RT!InBucket(table, b)) = K
                    /\ \A n \in RT!InBucket(table, b) : ~RT!Bad(n)

Waiting == {"bootwait", "pingwait", "rwait", "rdrain", "sleep"}    \* the maintainer waits for others here
Locked  == {"ping", "check", "rloop", "rexit", "passend"}          \* it holds the read lock here

Init == /\ table = {} /\ pc = "top" /\ bi = 0 /\ rl = 0 /\ closed = FALSE /\ lastBoot = "never"
        /\ pings = NoPings /\ trav = NoTrav /\ bsig = FALSE /\ sleeps = 0

-----------------------------------------------------------------------------
\* the maintainer

\* for { if shouldBootstrapUnlocked() { Bootstrap() } ...
Top ==
  /\ pc = "top" /\ rl = 0
  /\ IF lastBoot = "recent" THEN pc' = "scanlock" /\ UNCHANGED <<trav, lastBoot>>
     ELSE IF table = {}
          \* no starting nodes (the harness configures none): BootstrapContext fails, lastBootstrap stays unset
          THEN pc' = "scanlock" /\ UNCHANGED <<trav, lastBoot>>
          \* TraversalStartingNodes: every table entry, bad ones too
          ELSE /\ trav' = [target |-> SelfTarget, known |-> InTable, queried |-> {}, inflight |-> {}]
               /\ lastBoot' = "recent" /\ pc' = "bootwait"
  /\ UNCHANGED <<table, bi, rl, closed, pings, bsig, sleeps>>

\* case <-t.Stalled(): t.Stop(); <-t.Stopped()   (the level-triggered stall is offered only while nothing is in flight)
BootDone ==
  /\ pc = "bootwait" /\ trav.inflight = {}
  /\ trav' = NoTrav /\ pc' = "scanlock"
  /\ UNCHANGED <<table, bi, rl, closed, lastBoot, pings, bsig, sleeps>>

\* s.mu.RLock(); for i := range s.table.buckets
ScanLock ==
  /\ pc = "scanlock" /\ rl = 0
  /\ rl' = 1 /\ bi' = 0 /\ pc' = "ping"
  /\ UNCHANGED <<table, closed, lastBoot, pings, trav, bsig, sleeps>>

\* pingQuestionableNodesInBucket: one goroutine per questionable contact, RUnlock, wg.Wait
ScanBucket ==
  /\ pc = "ping" /\ rl = 1
  /\ pings' = [c \in Contacts |-> IF c \in QuestionableIn(bi) THEN [sends |-> 0, st |-> "open"] ELSE NoPing]
  /\ rl' = IF HoldWhileWaiting THEN 1 ELSE 0
  /\ pc' = "pingwait"
  /\ UNCHANGED <<table, bi, closed, lastBoot, trav, bsig, sleeps>>

\* wg.Wait returned; s.mu.RLock()
PingsDone ==
  /\ pc = "pingwait"
  /\ \A c \in Contacts : pings[c].st \in {"none", "ok", "marked"}
  /\ pings' = NoPings /\ rl' = 1 /\ pc' = "check"
  /\ UNCHANGED <<table, bi, closed, lastBoot, trav, bsig, sleeps>>

NextBucket == IF bi + 1 < NB THEN bi' = bi + 1 /\ pc' = "ping" ELSE bi' = bi /\ pc' = "passend"

\* if s.shouldStopRefreshingBucket(i) { continue }; s.mu.RUnlock(); refreshBucket(i)
Check ==
  /\ pc = "check" /\ rl = 1
  /\ IF ShouldStop(bi) THEN NextBucket /\ rl' = 1
     ELSE rl' = 0 /\ pc' = "refresh" /\ bi' = bi
  /\ UNCHANGED <<table, closed, lastBoot, pings, trav, bsig, sleeps>>

\* refreshBucket: s.mu.RLock(); traversal.Start(target = random ID of the bucket)
RefreshStart ==
  /\ pc = "refresh" /\ rl = 0
  /\ rl' = 1 /\ trav' = [target |-> bi, known |-> {}, queried |-> {}, inflight |-> {}] /\ pc' = "rloop"
  /\ UNCHANGED <<table, bi, closed, lastBoot, pings, bsig, sleeps>>

\* wait: if shouldStop break; op.AddNodes(notBadNodes()); RUnlock; select
RefreshLoop ==
  /\ pc = "rloop" /\ rl = 1
  /\ IF ShouldStop(bi) THEN pc' = "rexit" /\ UNCHANGED <<rl, trav>>
     ELSE trav' = [trav EXCEPT !.known = @ \cup NotBadIds] /\ rl' = 0 /\ pc' = "rwait"
  \* b.changed.Signaled(): a fresh signal, taken under the read lock
  /\ bsig' = FALSE
  /\ UNCHANGED <<table, bi, closed, lastBoot, pings, sleeps>>

\* case <-op.Stalled(): RLock; break   |   case <-bucketChanged, <-serverClosed: RLock; loop
RefreshWake ==
  /\ pc = "rwait" /\ rl = 0
  /\ \/ trav.inflight = {} /\ pc' = "rexit"                 \* stalled
     \/ (bsig \/ closed) /\ pc' = "rloop"                     \* bucket changed, or server closed
  /\ rl' = 1
  /\ UNCHANGED <<table, bi, closed, lastBoot, pings, trav, bsig, sleeps>>

\* deferred: RUnlock; op.Stop(); <-op.Stopped()
RefreshExit ==
  /\ pc = "rexit" /\ rl = 1
  /\ rl' = 0 /\ pc' = "rdrain"
  /\ UNCHANGED <<table, bi, closed, lastBoot, pings, trav, bsig, sleeps>>
RefreshDrained ==
  /\ pc = "rdrain" /\ trav.inflight = {}
  /\ trav' = NoTrav /\ pc' = "after"
  /\ UNCHANGED <<table, bi, rl, closed, lastBoot, pings, bsig, sleeps>>

\* s.mu.RLock(); if !shouldStop(i) { break }
After ==
  /\ pc = "after" /\ rl = 0
  /\ rl' = 1
  /\ IF ShouldStop(bi) THEN NextBucket ELSE pc' = "passend" /\ bi' = bi
  /\ UNCHANGED <<table, closed, lastBoot, pings, trav, bsig, sleeps>>

PassEnd ==
  /\ pc = "passend" /\ rl = 1
  /\ rl' = 0 /\ pc' = "sleep" /\ sleeps' = sleeps + 1
  /\ UNCHANGED <<table, bi, closed, lastBoot, pings, trav, bsig>>

\* select { case <-s.closed.Done(): return; case <-time.After(time.Minute): }
Return == pc = "sleep" /\ closed /\ pc' = "returned"
          /\ UNCHANGED <<table, bi, rl, closed, lastBoot, pings, trav, bsig, sleeps>>
Minute == pc = "sleep" /\ pc' = "top"
          /\ UNCHANGED <<table, bi, rl, closed, lastBoot, pings, trav, bsig, sleeps>>

-----------------------------------------------------------------------------
\* the questionable-node pings (questionableNodePing: Query with NumTries 3, context.TODO)

PingSend(c) ==
  /\ pings[c].st = "open" /\ pings[c].sends < MaxPingSends /\ ~closed
  /\ pings' = [pings EXCEPT ![c].sends = @ + 1]
  /\ UNCHANGED <<table, pc, bi, rl, closed, lastBoot, trav, bsig, sleeps>>

\* the answer arrives in time: processPacket, under the write lock
PingAnswer(c) ==
  /\ pings[c].st = "open" /\ pings[c].sends > 0 /\ rl = 0 /\ ~closed
  /\ \E T2 \in RT!Apply(Ev("RecvResp", c, TRUE)) : table' = T2
  /\ pings' = [pings EXCEPT ![c].st = "ok"]
  /\ UNCHANGED <<pc, bi, rl, closed, lastBoot, trav, bsig, sleeps>>

\* all tries unanswered, or the server closed under it (the send fails)
PingGiveUp(c) ==
  /\ pings[c].st = "open" /\ (pings[c].sends = MaxPingSends \/ closed)
  /\ pings' = [pings EXCEPT ![c].st = "fail"]
  /\ UNCHANGED <<table, pc, bi, rl, closed, lastBoot, trav, bsig, sleeps>>

\* s.mu.Lock(); updateNode(addr, &id, false, failedLastQuestionablePing = true)
PingMark(c) ==
  /\ pings[c].st = "fail" /\ rl = 0
  /\ \E T2 \in RT!Apply(Ev("PingFail", c, FALSE)) : table' = T2
  /\ pings' = [pings EXCEPT ![c].st = "marked"]
  /\ UNCHANGED <<pc, bi, rl, closed, lastBoot, trav, bsig, sleeps>>

-----------------------------------------------------------------------------
\* the lookup the maintainer owns, from outside

Active == trav.target # NoTarget
\* bucket.AddNode broadcasts `changed'
Signal(T2) == bsig' = (bsig \/ \E n \in T2 : n.ab = bi /\ RT!Key(n) \notin RT!Keys(table))

\* one find_node to an address not asked before; on a closed server the write fails and the query returns at once
TLaunch(c) ==
  /\ Active /\ c \in trav.known \ trav.queried /\ Cardinality(trav.inflight) < Alpha
  /\ pc \notin {"rdrain"}
  /\ trav' = [trav EXCEPT !.queried = @ \cup {c}, !.inflight = @ \cup {c}]
  /\ UNCHANGED <<table, pc, bi, rl, closed, lastBoot, pings, bsig, sleeps>>

\* the reply: table effect of a matched response, the contacts it lists become candidates
TAnswer(c, L) ==
  /\ Active /\ c \in trav.inflight /\ rl = 0 /\ ~closed
  /\ \E T2 \in RT!Apply(Ev("RecvResp", c, TRUE)) : table' = T2 /\ Signal(T2)
  /\ trav' = [trav EXCEPT !.inflight = @ \ {c}, !.known = @ \cup L]
  /\ UNCHANGED <<pc, bi, rl, closed, lastBoot, pings, sleeps>>

\* time-out, write error, or cancelled by Stop
TFail(c) ==
  /\ Active /\ c \in trav.inflight
  /\ trav' = [trav EXCEPT !.inflight = @ \ {c}]
  /\ UNCHANGED <<table, pc, bi, rl, closed, lastBoot, pings, bsig, sleeps>>

-----------------------------------------------------------------------------
\* the rest of the world

\* a contact queries this node (processPacket under the write lock)
InboundQuery(c) ==
  /\ rl = 0 /\ ~closed
  /\ \E T2 \in RT!Apply(Ev("RecvQuery", c, FALSE)) : table' = T2 /\ Signal(T2)
  /\ UNCHANGED <<pc, bi, rl, closed, lastBoot, pings, trav, sleeps>>

\* a quarter of an hour passes (classification changes although nobody holds the write lock)
Age ==
  /\ \E T2 \in RT!Apply([kind |-> "Age", s |-> Sender("self"), ro |-> FALSE, matched |-> FALSE, drop |-> FALSE]) : table' = T2
  /\ lastBoot' = IF lastBoot = "recent" THEN "old" ELSE lastBoot
  /\ UNCHANGED <<pc, bi, rl, closed, pings, trav, bsig, sleeps>>

\* Server.Close takes the write lock
Close ==
  /\ rl = 0 /\ ~closed /\ closed' = TRUE
  /\ UNCHANGED <<table, pc, bi, rl, lastBoot, pings, trav, bsig, sleeps>>

MaintainerStep == Top \/ BootDone \/ ScanLock \/ ScanBucket \/ PingsDone \/ Check \/ RefreshStart \/ RefreshLoop
                  \/ RefreshWake \/ RefreshExit \/ RefreshDrained \/ After \/ PassEnd \/ Return
Resolve == \E c \in Contacts : PingSend(c) \/ PingGiveUp(c) \/ PingMark(c) \/ TLaunch(c) \/ TFail(c)
World == \/ \E c \in Contacts : PingAnswer(c) \/ InboundQuery(c) \/ (\E L \in SUBSET Contacts : TAnswer(c, L))
         \/ Age \/ Close \/ Minute

Next == MaintainerStep \/ Resolve \/ World
\* the maintainer runs, queries resolve (every query times out at the latest)
Spec == Init /\ [][Next]_vars /\ WF_vars(MaintainerStep) /\ WF_vars(Resolve)

-----------------------------------------------------------------------------
TypeOK ==
  /\ rl \in 0..1 /\ bi \in 0..(NB - 1) /\ closed \in BOOLEAN /\ lastBoot \in {"never", "recent", "old"}
  /\ pc \in {"top", "bootwait", "scanlock", "ping", "pingwait", "check", "refresh", "rloop", "rwait", "rexit",
             "rdrain", "after", "passend", "sleep", "returned"}
  /\ \A c \in Contacts : pings[c].sends \in 0..MaxPingSends /\ pings[c].st \in {"none", "open", "ok", "fail", "marked"}
  /\ trav.queried \subseteq trav.known /\ trav.inflight \subseteq trav.queried
\* never waits for others while holding the lock; holds it wherever it reads the table
LockOK == (pc \in Waiting => rl = 0) /\ (pc \in Locked => rl = 1)
TableOK == RT!WellFormed(table)
\* lookups and pings do not outlive the phase that owns them (C14 for the maintainer)
NoOrphans ==
  /\ pc \notin {"bootwait", "rloop", "rwait", "rexit", "rdrain"} => trav = NoTrav
  /\ pc # "pingwait" => pings = NoPings
  /\ pc = "bootwait" => trav.target = SelfTarget
  /\ pc \in {"rloop", "rwait", "rexit", "rdrain"} => trav.target = bi
\* fan-out and once-per-address of the owned lookup (C04 seen from the owner)
FanOut == Cardinality(trav.inflight) <= Alpha
\* a contact is marked failed only after MaxPingSends unanswered tries (or because the server closed under the ping)
FailMarkOK == [][\A c \in Contacts :
                   (\E n \in table' : n.id = c /\ n.failed) /\ ~(\E n \in table : n.id = c /\ n.failed)
                     => (pings[c].st = "fail" /\ (pings[c].sends = MaxPingSends \/ closed))]_vars
\* only contacts that were questionable when the bucket was scanned are pinged, and only bucket by bucket
PingScope == \A c \in Contacts : pings[c].st # "none" => (pc = "pingwait" /\ BucketOf(c) = bi)
\* the table does not change while the maintainer holds the read lock (ageing aside)
StableUnderLock == [][(rl = 1 /\ rl' = 1) => RT!Keys(table') = RT!Keys(table)]_vars
\* every pass ends, and after Close the routine returns
PassEnds == []<>(pc \in {"sleep", "returned"})
Returns == closed ~> (pc = "returned")
=============================================================================
