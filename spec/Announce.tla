---------------------------- MODULE Announce ----------------------------
(***************************************************************************)
(* announce.go over a compact abstraction of traversal/operation.go (the   *)
(* traversal itself is specified in Traversal.tla and judged by C02-C04;   *)
(* here it keeps what C16 talks about: which queries are in flight, the    *)
(* K-closest set of responders whose data is a string token, stopping /    *)
(* stopped).  One action per blocking point of announce.go:                *)
(*                                                                         *)
(*   getPeers (the traversal's DoQuery), per queried address:              *)
(*     fly  --Recv-->  got  --Take-->  send  --Deliver|Abandon-->  post    *)
(*     fly  --Recv(error)|Timeout|Cancel-->  post      post --Post--> done *)
(*   finisher goroutine:                                                   *)
(*     waitStalled -> stop -> waitStopped -> announcing -> announced       *)
(*                 -> close (peerAnnounced set) -> done (Peers closed)     *)
(*   API: Close, StopTraversing; the consumer of the unbuffered Peers      *)
(*   channel reads or has stopped reading.                                 *)
(*                                                                         *)
(* Shared by MC_Announce (exhaustive) and Trace_Announce (validation of    *)
(* datagram-boundary traces of the real code).  Property C16:              *)
(*   AnnounceOK, ClosestFinal, NoAnnounceDisabled, DeliverAtMostOnce,      *)
(*   DeliverOnlyResponses, NoLoss, AbandOnlyStopping, ReadersGetAll,       *)
(*   PeersClosedLast, FinishedAfterAnn, StallLive, CloseLive.              *)
(***************************************************************************)
EXTENDS Integers, FiniteSets, Sequences, Bitwise, TLC

CONSTANTS
  FixedEscape,  \* TRUE : getPeers also abandons its send on Peers when the query's own context is
                \*        cancelled, i.e. once the traversal is stopping (the design C16 requires);
                \* FALSE: the escape announce.go has today: only once the traversal is Stopped -- which
                \*        cannot happen while that very query is outstanding (variant / vacuity guard)
  TraceMode     \* TRUE in Trace_Announce: queries start in the order the code chose (C02-C04 judge
                \* that), silent steps are interleaved with the logged events

NoId == -1
NoRep == [kind |-> "none", id |-> NoId, tokk |-> "none", tok |-> "", nodes |-> {}, nvals |-> 0]

VARIABLES
  opt,       \* constant per announce: [k, alpha, target, announce, port, implied, scrape,
             \*                         short (addresses whose get_peers times out by itself),
             \*                         annhold (addresses that never answer announce_peer)]
  qst,       \* address -> "none" | "cand" | "fly" | "got" | "send" | "post" | "done"
  cid,       \* address -> ID the candidate was listed under (NoId: entry node)
  rep,       \* address -> the reply the query ended with (NoRep: none / timed out / cancelled)
  gate,      \* addresses whose query datagram is held inside WriteTo: the query cannot return
  closest,   \* the traversal's result set: set of [addr, id, tok]
  stopping, stopped,
  fin,       \* finisher goroutine
  ann,       \* address -> "none" | "todo" | "fly" | "done": announce_peer queries of announceClosest
  closedF,   \* Announce.closed
  finished,  \* peerAnnounced (what Finished() reports)
  peersClosed,
  reading,   \* the consumer is receiving from Peers
  userStop,  \* history: StopTraversing or Close was called
  deliv,     \* history: address -> number of PeersValues delivered for its response
  sent,      \* history: announce_peer queries written: set of [dst, tok, ih, port, implied]
  eligible,  \* history: every [addr, id, tok] that reached addClosest with a string token
  aband      \* history: addresses whose response was not delivered because the send was abandoned

vars == <<opt, qst, cid, rep, gate, closest, stopping, stopped, fin, ann, closedF, finished, peersClosed,
          reading, userStop, deliv, sent, eligible, aband>>

Addrs == DOMAIN qst
Dist(i) == i ^^ opt.target
InFlight == {n \in Addrs : qst[n] \in {"fly", "got", "send", "post"}}
Outstanding == Cardinality(InFlight)
Cands == {n \in Addrs : qst[n] = "cand"}

\* pop order of the frontier: known ID first, then XOR distance; ties open (see Traversal.tla)
Before(a, b) == \/ cid[a] # NoId /\ cid[b] = NoId
                \/ cid[a] # NoId /\ cid[b] # NoId /\ Dist(cid[a]) < Dist(cid[b])
Minimal(S) == {c \in S : \A d \in S : ~Before(d, c)}
Full == Cardinality(closest) >= opt.k
FarDist == IF closest = {} THEN -1
           ELSE LET ds == {Dist(e.id) : e \in closest} IN CHOOSE m \in ds : \A d \in ds : d <= m
HaveQuery == IF Cands = {} THEN FALSE
             ELSE IF ~Full THEN TRUE
             ELSE \E c \in Minimal(Cands) : cid[c] # NoId /\ Dist(cid[c]) <= FarDist

\* k-nearest Push: insert, then drop a farthest element while over K (equidistant: any of them)
Push(S, e) == LET S1 == S \cup {e} IN
              IF Cardinality(S1) <= opt.k THEN {S1}
              ELSE LET far == {x \in S1 : \A y \in S1 : Dist(y.id) <= Dist(x.id)} IN {S1 \ {x} : x \in far}

CAddrs == {e.addr : e \in closest}
Elem(n) == CHOOSE e \in closest : e.addr = n

\* the escape of getPeers' blocking send on Peers
Escape == IF FixedEscape THEN stopping ELSE stopped

-----------------------------------------------------------------------------
\* traversal.run: pop the closest candidate and call getPeers for it
StartQuery(n, gated) ==
  /\ ~stopped
  /\ IF TraceMode THEN qst[n] \in {"none", "cand"}
     ELSE /\ ~stopping /\ qst[n] = "cand" /\ Outstanding < opt.alpha /\ HaveQuery /\ n \in Minimal(Cands)
  /\ qst' = [qst EXCEPT ![n] = "fly"]
  /\ gate' = IF gated THEN gate \cup {n} ELSE gate
  /\ UNCHANGED <<opt, cid, rep, closest, stopping, stopped, fin, ann, closedF, finished, peersClosed, reading,
                 userStop, deliv, sent, eligible, aband>>

\* the held datagram is let through
GateOpen(n) ==
  /\ n \in gate
  /\ gate' = gate \ {n}
  /\ UNCHANGED <<opt, qst, cid, rep, closest, stopping, stopped, fin, ann, closedF, finished, peersClosed, reading,
                 userStop, deliv, sent, eligible, aband>>

\* a reply datagram reaches the pending transaction
Recv(n, r) ==
  /\ qst[n] = "fly" /\ n \notin gate
  /\ rep' = [rep EXCEPT ![n] = r]
  /\ qst' = [qst EXCEPT ![n] = IF r.kind = "resp" THEN "got" ELSE "post"]
  /\ UNCHANGED <<opt, cid, gate, closest, stopping, stopped, fin, ann, closedF, finished, peersClosed, reading,
                 userStop, deliv, sent, eligible, aband>>

\* the transaction times out
Timeout(n) ==
  /\ qst[n] = "fly" /\ n \notin gate /\ n \in opt.short
  /\ qst' = [qst EXCEPT ![n] = "post"]
  /\ UNCHANGED <<opt, cid, rep, gate, closest, stopping, stopped, fin, ann, closedF, finished, peersClosed, reading,
                 userStop, deliv, sent, eligible, aband>>

\* the query's context is cancelled (traversal stopping) and wins Server.Query's select: a reply that
\* was already queued for it is lost with it
Cancel(n) ==
  /\ qst[n] \in {"fly", "got"} /\ n \notin gate /\ stopping
  /\ qst' = [qst EXCEPT ![n] = "post"]
  /\ rep' = [rep EXCEPT ![n] = NoRep]
  /\ UNCHANGED <<opt, cid, gate, closest, stopping, stopped, fin, ann, closedF, finished, peersClosed, reading,
                 userStop, deliv, sent, eligible, aband>>

\* Server.GetPeers returns the response; getPeers reaches its select on Peers
Take(n) ==
  /\ qst[n] = "got"
  /\ qst' = [qst EXCEPT ![n] = "send"]
  /\ UNCHANGED <<opt, cid, rep, gate, closest, stopping, stopped, fin, ann, closedF, finished, peersClosed, reading,
                 userStop, deliv, sent, eligible, aband>>

\* rendezvous on the unbuffered channel
Deliver(n) ==
  /\ qst[n] = "send" /\ reading /\ ~peersClosed
  /\ deliv' = [deliv EXCEPT ![n] = @ + 1]
  /\ qst' = [qst EXCEPT ![n] = "post"]
  /\ UNCHANGED <<opt, cid, rep, gate, closest, stopping, stopped, fin, ann, closedF, finished, peersClosed, reading,
                 userStop, sent, eligible, aband>>

Abandon(n) ==
  /\ qst[n] = "send" /\ Escape
  /\ aband' = aband \cup {n}
  /\ qst' = [qst EXCEPT ![n] = "post"]
  /\ UNCHANGED <<opt, cid, rep, gate, closest, stopping, stopped, fin, ann, closedF, finished, peersClosed, reading,
                 userStop, deliv, sent, eligible>>

\* after DoQuery returned with reply r (NoRep: none): addClosest (data filter: string token), AddNodes,
\* outstanding--.  (three critical sections in the code; merged, nothing of C16 lies between them)
PostEffect(n, r) ==
  LET e == [addr |-> n, id |-> r.id, tok |-> r.tok]
      ok == r.kind = "resp" /\ r.tokk = "str"
      new == {c \in r.nodes : c.addr \in Addrs /\ c.addr # n /\ qst[c.addr] = "none"} IN
  /\ IF ok THEN closest' \in Push(closest, e) ELSE closest' = closest
  /\ eligible' = IF ok THEN eligible \cup {e} ELSE eligible
  /\ qst' = [a \in Addrs |-> IF a = n THEN "done"
                             ELSE IF \E c \in new : c.addr = a THEN "cand" ELSE qst[a]]
  /\ cid' = [a \in Addrs |-> IF a # n /\ \E c \in new : c.addr = a
                             THEN (CHOOSE c \in new : c.addr = a).id ELSE cid[a]]

Post(n) ==
  /\ qst[n] = "post"
  /\ PostEffect(n, rep[n])
  /\ UNCHANGED <<opt, rep, gate, stopping, stopped, fin, ann, closedF, finished, peersClosed, reading,
                 userStop, deliv, sent, aband>>

\* ---- the same steps run together, for the trace validator (TraceMode), which sees none of them:
\* Take . Deliver . Post / Take . Abandon . Post / Cancel . Post / Timeout . Post / Recv(error) . Post
DeliverDone(n) ==
  /\ qst[n] = "got" /\ reading /\ ~peersClosed
  /\ deliv' = [deliv EXCEPT ![n] = @ + 1]
  /\ PostEffect(n, rep[n])
  /\ UNCHANGED <<opt, rep, gate, stopping, stopped, fin, ann, closedF, finished, peersClosed, reading,
                 userStop, sent, aband>>

AbandonDone(n) ==
  /\ qst[n] = "got" /\ Escape
  /\ aband' = aband \cup {n}
  /\ PostEffect(n, rep[n])
  /\ UNCHANGED <<opt, rep, gate, stopping, stopped, fin, ann, closedF, finished, peersClosed, reading,
                 userStop, deliv, sent>>

CancelDone(n) ==
  /\ qst[n] \in {"fly", "got"} /\ n \notin gate /\ stopping
  /\ rep' = [rep EXCEPT ![n] = NoRep]
  /\ PostEffect(n, NoRep)
  /\ UNCHANGED <<opt, gate, stopping, stopped, fin, ann, closedF, finished, peersClosed, reading,
                 userStop, deliv, sent, aband>>

TimeoutDone(n) ==
  /\ qst[n] = "fly" /\ n \notin gate /\ n \in opt.short
  /\ PostEffect(n, NoRep)
  /\ UNCHANGED <<opt, rep, gate, stopping, stopped, fin, ann, closedF, finished, peersClosed, reading,
                 userStop, deliv, sent, aband>>

RecvErrorDone(n, r) ==
  /\ qst[n] = "fly" /\ n \notin gate /\ r.kind # "resp"
  /\ rep' = [rep EXCEPT ![n] = r]
  /\ PostEffect(n, r)
  /\ UNCHANGED <<opt, gate, stopping, stopped, fin, ann, closedF, finished, peersClosed, reading,
                 userStop, deliv, sent, aband>>

\* Stop()'s goroutine finds nothing outstanding
StopperDone ==
  /\ stopping /\ ~stopped /\ Outstanding = 0
  /\ stopped' = TRUE
  /\ UNCHANGED <<opt, qst, cid, rep, gate, closest, stopping, fin, ann, closedF, finished, peersClosed, reading,
                 userStop, deliv, sent, eligible, aband>>

\* <-a.traversal.Stalled(): the run loop offers it with nothing in flight and nothing left that
\* qualifies, or has exited.  (The stale offer on the empty frontier before the first AddNodes,
\* DESIGN O1, is a C03 matter: not in the exhaustive model; the trace validator admits it, because
\* there a stall needs nothing but an empty set of outstanding queries.)
Stalled == \/ stopping
           \/ Outstanding = 0 /\ (TraceMode \/ ~HaveQuery)
FinStalled ==
  /\ fin = "waitStalled" /\ Stalled
  /\ fin' = "stop"
  /\ UNCHANGED <<opt, qst, cid, rep, gate, closest, stopping, stopped, ann, closedF, finished, peersClosed, reading,
                 userStop, deliv, sent, eligible, aband>>

FinStop ==
  /\ fin = "stop"
  /\ stopping' = TRUE /\ fin' = "waitStopped"
  /\ UNCHANGED <<opt, qst, cid, rep, gate, closest, stopped, ann, closedF, finished, peersClosed, reading,
                 userStop, deliv, sent, eligible, aband>>

\* <-a.traversal.Stopped(); announceClosest ranges over the closest set as it is now
FinStopped ==
  /\ fin = "waitStopped" /\ stopped
  /\ IF opt.announce
     THEN /\ ann' = [n \in Addrs |-> IF n \in CAddrs THEN "todo" ELSE "none"]
          /\ fin' = "announcing"
     ELSE fin' = "announced" /\ UNCHANGED ann
  /\ UNCHANGED <<opt, qst, cid, rep, gate, closest, stopping, stopped, closedF, finished, peersClosed, reading,
                 userStop, deliv, sent, eligible, aband>>

AnnRec(n) == [dst |-> n, tok |-> Elem(n).tok, ih |-> opt.target, port |-> opt.port, implied |-> opt.implied]

\* the announce_peer datagram for one closest element is written
AnnSend(n) ==
  /\ fin = "announcing" /\ ann[n] = "todo"
  /\ sent' = sent \cup {AnnRec(n)}
  /\ ann' = [ann EXCEPT ![n] = "fly"]
  /\ UNCHANGED <<opt, qst, cid, rep, gate, closest, stopping, stopped, fin, closedF, finished, peersClosed, reading,
                 userStop, deliv, eligible, aband>>

\* nothing is written: the announce was closed first, or no port is configured ("no port specified")
AnnSkip(n) ==
  /\ fin = "announcing" /\ ann[n] = "todo"
  /\ closedF \/ (opt.port = 0 /\ ~opt.implied)
  /\ ann' = [ann EXCEPT ![n] = "done"]
  /\ UNCHANGED <<opt, qst, cid, rep, gate, closest, stopping, stopped, fin, closedF, finished, peersClosed, reading,
                 userStop, deliv, sent, eligible, aband>>

\* reply, error, time-out -- or cancellation by Close
AnnEnd(n) ==
  /\ ann[n] = "fly"
  /\ n \notin opt.annhold \/ closedF
  /\ ann' = [ann EXCEPT ![n] = "done"]
  /\ UNCHANGED <<opt, qst, cid, rep, gate, closest, stopping, stopped, fin, closedF, finished, peersClosed, reading,
                 userStop, deliv, sent, eligible, aband>>

FinAnnounced ==
  /\ fin = "announcing" /\ \A n \in Addrs : ann[n] \in {"none", "done"}
  /\ fin' = "announced"
  /\ UNCHANGED <<opt, qst, cid, rep, gate, closest, stopping, stopped, ann, closedF, finished, peersClosed, reading,
                 userStop, deliv, sent, eligible, aband>>

\* a.peerAnnounced.Set()
FinSetDone ==
  /\ fin = "announced"
  /\ finished' = TRUE /\ fin' = "close"
  /\ UNCHANGED <<opt, qst, cid, rep, gate, closest, stopping, stopped, ann, closedF, peersClosed, reading,
                 userStop, deliv, sent, eligible, aband>>

\* close(a.Peers)
FinClosePeers ==
  /\ fin = "close"
  /\ peersClosed' = TRUE /\ fin' = "done"
  /\ UNCHANGED <<opt, qst, cid, rep, gate, closest, stopping, stopped, ann, closedF, finished, reading,
                 userStop, deliv, sent, eligible, aband>>

\* ---- finisher steps run together (TraceMode): FinStalled . FinStop / StopperDone . FinStopped /
\* (AnnSkip | AnnEnd)* . FinAnnounced . FinSetDone . FinClosePeers
StallStop ==
  /\ fin = "waitStalled" /\ Stalled
  /\ stopping' = TRUE /\ fin' = "waitStopped"
  /\ UNCHANGED <<opt, qst, cid, rep, gate, closest, stopped, ann, closedF, finished, peersClosed, reading,
                 userStop, deliv, sent, eligible, aband>>

StoppedAnnounce ==
  /\ fin = "waitStopped" /\ stopping /\ Outstanding = 0
  /\ stopped' = TRUE
  /\ IF opt.announce
     THEN /\ ann' = [n \in Addrs |-> IF n \in CAddrs THEN "todo" ELSE "none"]
          /\ fin' = "announcing"
     ELSE fin' = "announced" /\ UNCHANGED ann
  /\ UNCHANGED <<opt, qst, cid, rep, gate, closest, stopping, closedF, finished, peersClosed, reading,
                 userStop, deliv, sent, eligible, aband>>

FinishAll ==
  /\ fin \in {"announcing", "announced"}
  /\ fin = "announcing" => \A n \in Addrs :
        /\ ann[n] = "todo" => (closedF \/ (opt.port = 0 /\ ~opt.implied))
        /\ ann[n] = "fly" => (n \notin opt.annhold \/ closedF)
  /\ ann' = [n \in Addrs |-> IF ann[n] = "none" THEN "none" ELSE "done"]
  /\ finished' = TRUE /\ peersClosed' = TRUE /\ fin' = "done"
  /\ UNCHANGED <<opt, qst, cid, rep, gate, closest, stopping, stopped, closedF, reading,
                 userStop, deliv, sent, eligible, aband>>

\* API
StopTraversing ==
  /\ stopping' = TRUE /\ userStop' = TRUE
  /\ UNCHANGED <<opt, qst, cid, rep, gate, closest, stopped, fin, ann, closedF, finished, peersClosed, reading,
                 deliv, sent, eligible, aband>>

Close ==
  /\ stopping' = TRUE /\ userStop' = TRUE /\ closedF' = TRUE
  /\ UNCHANGED <<opt, qst, cid, rep, gate, closest, stopped, fin, ann, finished, peersClosed, reading,
                 deliv, sent, eligible, aband>>

ConsSet(b) ==
  /\ reading' = b
  /\ UNCHANGED <<opt, qst, cid, rep, gate, closest, stopping, stopped, fin, ann, closedF, finished, peersClosed,
                 userStop, deliv, sent, eligible, aband>>

-----------------------------------------------------------------------------
\* Properties (C16)

\* every announce_peer went, after the traversal had stopped, to a member of the final closest set
\* that answered get_peers with a string token in this traversal, and carries exactly that token,
\* the announced infohash and the configured port / implied_port
AnnounceOK ==
  \A r \in sent :
    /\ stopped /\ opt.announce
    /\ r.dst \in CAddrs
    /\ rep[r.dst].kind = "resp" /\ rep[r.dst].tokk = "str" /\ r.tok = rep[r.dst].tok
    /\ r.ih = opt.target /\ r.port = opt.port /\ r.implied = opt.implied

\* the closest set is, at every moment, the <= K nearest of the token-bearing responders so far
ClosestFinal ==
  /\ Cardinality(closest) <= opt.k
  /\ closest \subseteq eligible
  /\ Cardinality(closest) < opt.k => closest = eligible
  /\ \A e \in eligible \ closest : \A m \in closest : ~(Dist(e.id) < Dist(m.id))

NoAnnounceDisabled == ~opt.announce => sent = {}

DeliverAtMostOnce == \A n \in Addrs : deliv[n] <= 1
DeliverOnlyResponses == \A n \in Addrs : deliv[n] > 0 => rep[n].kind = "resp"
\* a response that reached getPeers was handed to the consumer, or abandoned by the escape
NoLoss == \A n \in Addrs : (qst[n] \in {"post", "done"} /\ rep[n].kind = "resp") => (deliv[n] = 1 \/ n \in aband)
AbandOnlyStopping == aband # {} => stopping
\* without Close/StopTraversing nothing is ever abandoned: every response is delivered exactly once
ReadersGetAll == (finished /\ ~userStop) => aband = {}
\* Peers is closed last: after peerAnnounced, with no getPeers left that could send on it
PeersClosedLast == peersClosed => (finished /\ Outstanding = 0)
FinishedAfterAnn == finished => (stopped /\ \A n \in Addrs : ann[n] \in {"none", "done"})

StallLive == (fin # "waitStalled" \/ closedF) ~> (finished /\ peersClosed)
CloseLive == closedF ~> (finished /\ peersClosed)
=============================================================================
