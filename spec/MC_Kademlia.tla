---------------------------- MODULE MC_Kademlia ----------------------------
(***************************************************************************)
(* Exhaustive instances for C18: the states enumerate the inputs (tuples   *)
(* of IDs, candidate triples, contents of a K-nearest container) and the   *)
(* laws of the property statement are invariants evaluated on every one.   *)
(*   SpecMetric : all triples of IDs of the small universe                 *)
(*   SpecOrder  : all triples of lookup candidates x all targets           *)
(*   SpecKnn    : every content reachable by pushing elements, in any      *)
(*                order and with any choice among equidistant elements     *)
(***************************************************************************)
EXTENDS Kademlia

CONSTANTS IdLen,      \* bytes per ID (1 or 2)
          ByteVals,   \* name of the byte universe, see BV
          K           \* capacity of the container in SpecKnn

VARIABLE st
Range(s) == {s[i] : i \in DOMAIN s}

BV == CASE ByteVals = "w2" -> 0..3
        [] ByteVals = "w3" -> 0..7
        [] ByteVals = "w4" -> 0..15
        [] ByteVals = "w5" -> 0..31
        [] ByteVals = "w6" -> 0..63
        [] ByteVals = "hi4" -> {0, 1, 2, 3, 64, 65, 128, 129, 192, 254, 255}   \* all bit positions of a byte
        [] ByteVals = "mix" -> {0, 1, 2, 127, 128, 255}
Ids == [1..IdLen -> BV]
NB == 8 * IdLen

\* value of an ID as an unsigned integer (IdLen <= 3)
RECURSIVE ValUpTo(_, _)
ValUpTo(a, n) == IF n = 0 THEN 0 ELSE 256 * ValUpTo(a, n - 1) + a[n]
Val(a) == ValUpTo(a, Len(a))
RECURSIVE Pow2(_)
Pow2(n) == IF n = 0 THEN 1 ELSE 2 * Pow2(n - 1)

\* ------------------------------------------------------------------ metric
\* The tuple is built one component per step, so that the states of depth 1, 2, 3 are all IDs, all
\* pairs, all triples; a law about n components is evaluated on the states of depth n.
Z == [i \in 1..IdLen |-> 0]
InitMetric == st = [n |-> 0, a |-> Z, b |-> Z, c |-> Z]
NextMetric == \/ st.n = 0 /\ \E x \in Ids : st' = [st EXCEPT !.n = 1, !.a = x]
              \/ st.n = 1 /\ \E x \in Ids : st' = [st EXCEPT !.n = 2, !.b = x]
              \/ st.n = 2 /\ \E x \in Ids : st' = [st EXCEPT !.n = 3, !.c = x]
SpecMetric == InitMetric /\ [][NextMetric]_st

\* -- one ID
BitLenLaw == st.n = 1 =>
             /\ BitLen(st.a) = 0 <=> IsZeroId(st.a)
             /\ BitLen(st.a) > 0 => Pow2(BitLen(st.a) - 1) <= Val(st.a) /\ Val(st.a) < Pow2(BitLen(st.a))
SetGetBit == st.n = 1 =>
             \A n \in 0..(NB - 1), v \in {0, 1} :
               LET s == SetBit(st.a, n, v) IN
               /\ Bit(s, n) = v
               /\ \A m \in 0..(NB - 1) : m # n => Bit(s, m) = Bit(st.a, m)
               /\ s \in [1..IdLen -> 0..255]
\* -- two IDs
XorSymmetric == st.n = 2 => XorId(st.a, st.b) = XorId(st.b, st.a)
XorIdentity == st.n = 2 => (IsZeroId(XorId(st.a, st.b)) <=> st.a = st.b)
\* the table-driven XOR is the XOR of the bits
XorIsBitwise == st.n = 2 =>
                \A n \in 0..(NB - 1) : Bit(XorId(st.a, st.b), n) = (Bit(st.a, n) + Bit(st.b, n)) % 2
OrderIsUnsigned == st.n = 2 =>
                   /\ LessId(st.a, st.b) <=> Val(st.a) < Val(st.b)
                   /\ CmpId(st.a, st.b) = (IF Val(st.a) < Val(st.b) THEN -1 ELSE IF Val(st.a) > Val(st.b) THEN 1 ELSE 0)
                   /\ CmpId(st.a, st.b) = -CmpId(st.b, st.a)
BucketIsSharedPrefix ==
  st.n = 2 /\ st.a # st.b => /\ BucketIndex(st.a, st.b) = SharedPrefixLen(st.a, st.b)
                              /\ BucketIndex(st.a, st.b) \in 0..(NB - 1)
                              /\ BucketIndex(st.a, st.b) = BucketIndex(st.b, st.a)
\* an ID drawn for bucket i (any filler bits b) lands in bucket i
IdInBucketLands == st.n = 2 =>
                   \A i \in 0..(NB - 1) :
                     LET r == IdInBucket(st.a, i, st.b) IN r # st.a /\ BucketIndex(st.a, r) = i
\* -- three IDs
Unidirectional == st.n = 3 => (XorId(st.a, st.b) = XorId(st.a, st.c) => st.b = st.c)
Triangle == st.n = 3 => Val(XorId(st.a, st.c)) <= Val(XorId(st.a, st.b)) + Val(XorId(st.b, st.c))
\* a deeper bucket is strictly closer: what the routing table relies on
DeeperIsCloser == st.n = 3 =>
                  (SharedPrefixLen(st.a, st.b) > SharedPrefixLen(st.a, st.c) => DistLess(st.b, st.c, st.a))
\* the order by distance to a is a strict total order on IDs
DistOrderTotal == st.n = 3 =>
                  /\ ~DistLess(st.b, st.b, st.a)
                  /\ st.b # st.c => (DistLess(st.b, st.c, st.a) <=> ~DistLess(st.c, st.b, st.a))

\* ------------------------------------------------------------------ closeness order
Ips == {<<>>, <<1, 2, 3, 4>>, <<1, 2, 3, 5>>, <<0, 0, 0, 0, 0, 0, 0, 0, 0, 0, 255, 255, 1, 2, 3, 4>>}
Cands == [hasId : BOOLEAN, id : Ids, ip : Ips, port : {1, 2}]
C0 == [hasId |-> FALSE, id |-> Z, ip |-> <<>>, port |-> 1]
InitOrder == st = [n |-> 0, t |-> Z, x |-> C0, y |-> C0, z |-> C0]
NextOrder == \/ st.n = 0 /\ \E i \in Ids : st' = [st EXCEPT !.n = 1, !.t = i]
             \/ st.n = 1 /\ \E c \in Cands : st' = [st EXCEPT !.n = 2, !.x = c]
             \/ st.n = 2 /\ \E c \in Cands : st' = [st EXCEPT !.n = 3, !.y = c]
             \/ st.n = 3 /\ \E c \in Cands : st' = [st EXCEPT !.n = 4, !.z = c]
SpecOrder == InitOrder /\ [][NextOrder]_st

Lt(p, q) == CloserThan(p, q, st.t)
Irreflexive == st.n = 2 => ~Lt(st.x, st.x)
Asymmetric == st.n = 3 => ~(Lt(st.x, st.y) /\ Lt(st.y, st.x))
Total == st.n = 3 => Lt(st.x, st.y) \/ Lt(st.y, st.x) \/ SameCand(st.x, st.y)
EqualNotLess == st.n = 3 => (SameCand(st.x, st.y) => ~Lt(st.x, st.y) /\ ~Lt(st.y, st.x))
KnownIdsFirst == st.n = 3 => (st.x.hasId /\ ~st.y.hasId => Lt(st.x, st.y))
ByDistance == st.n = 3 => (st.x.hasId /\ st.y.hasId /\ DistLess(st.x.id, st.y.id, st.t) => Lt(st.x, st.y))
\* the part fixed by the property statement and the tie-break partition all pairs
MustOrTied == st.n = 3 => /\ Must(st.x, st.y, st.t) => Lt(st.x, st.y)
                          /\ Tied(st.x, st.y, st.t) <=> SameId(st.x, st.y)
Transitive == st.n = 4 => (Lt(st.x, st.y) /\ Lt(st.y, st.z) => Lt(st.x, st.z))

\* ------------------------------------------------------------------ K-nearest container
KIps == {<<1, 2, 3, 4>>, <<1, 2, 3, 5>>}
Elems == [id : Ids, ip : KIps, port : {1}]
InitKnn == st \in [S : {{}}, pushed : {{}}, t : Ids]
NextKnn == \E e \in Elems : \E S2 \in KNearestPush(st.S, e, K, st.t) :
             st' = [st EXCEPT !.S = S2, !.pushed = st.pushed \cup {e}]
SpecKnn == InitKnn /\ [][NextKnn]_st
KeepsKNearest == IsKNearestOf(st.S, st.pushed, K, st.t)
FarthestDefined == st.S # {} => Farthest(st.S, st.t) # {}
=============================================================================
