CONSTANTS
 Graph = "g1"
 K = 2
 Alpha = 2
 Target = 0
 GenHist = FALSE
 DedupAtPop = TRUE
 CaptureUnderLock = TRUE
 TraceMode = FALSE
 Strict = TRUE
SPECIFICATION Spec
INVARIANTS AlphaBound OncePerAddr FilterFirst ClosestOK StallPredicate HonestResult
CHECK_DEADLOCK FALSE
