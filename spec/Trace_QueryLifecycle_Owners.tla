------------------- MODULE Trace_QueryLifecycle_Owners -------------------
(***************************************************************************)
(* Trace validator for the traversal owners (Owners.tla) on the real code. *)
(* The harness (harness/cmd/life -mode owners) runs Server.Bootstrap-      *)
(* Context, Server.Announce / AnnounceTraversal, getput.Get, getput.Put    *)
(* and the table maintainer (bucket refresh) against a small simulated     *)
(* network and logs what the API user does and sees:                       *)
(*   OStart(owner, name, sn)   a scenario (resets); sn = what the starting-*)
(*                             node resolver will give: "ok" | "empty" |   *)
(*                             "error" (the table is empty)                *)
(*   OCall, ORet(class)        the API call and its return                 *)
(*   OCancel, OSrvClose, OAnnClose, OStopTrav, OConsGone   the user        *)
(*   OSkip                     the scenario was abandoned (no verdict)     *)
(*   OQuiesce(txns, gor, hung) what is left after the bound (hung: a       *)
(*                             blocking owner has not returned / the       *)
(*                             announce has not signalled Finished)        *)
(* What goes on inside the traversal is not logged, so only the observer   *)
(* `o` of Owners follows the log (the process part is checked by TLC on    *)
(* the model, MC_QueryLifecycle_Owners); the verdict is Owners' own        *)
(* obligation predicate MustEnd evaluated on the observer.                 *)
(* Report = TRUE: every falsified invariant is printed and the run goes on.*)
(***************************************************************************)
EXTENDS Integers, Sequences, TLC, Json

CONSTANT Report

VARIABLES l, owner, o, obs
tvars == <<l, owner, o, obs>>

\* Owners' definitions (the owner kind comes from the log: MustEndFor takes it as an argument)
O == INSTANCE Owners WITH Owner <- "Bootstrap", NQ <- 1, StopOnStartErr <- TRUE, WatchCtx <- TRUE,
             own <- 0, op <- 0, runl <- 0, added <- 0, tq <- 0, uctx <- 0, sclosed <- 0, aclosed <- 0,
             cons <- 0, fin <- 0, sub <- 0

TraceLog == ndJsonDeserialize("trace.ndjson")
Ev == TraceLog[l]
IsEvent(e) == l <= Len(TraceLog) /\ Ev.e = e /\ l' = l + 1
NoObs == [set |-> FALSE, txns |-> 0, gor |-> 0, hung |-> FALSE]
ObsInit == [sn |-> "ok", called |-> FALSE, returned |-> FALSE, class |-> "none", cancelled |-> FALSE,
            shut |-> FALSE, stopReq |-> FALSE, consGone |-> FALSE]

TraceInit == l = 1 /\ owner = "Bootstrap" /\ o = ObsInit /\ obs = NoObs

TraceStart ==
  /\ IsEvent("OStart")
  /\ owner' = Ev.owner
  /\ o' = [ObsInit EXCEPT !.sn = IF Ev.sn = "ok" THEN "ok" ELSE "err"]
  /\ obs' = NoObs

Upd(e, newo) == IsEvent(e) /\ o' = newo /\ UNCHANGED <<owner, obs>>

TraceCall == Upd("OCall", [o EXCEPT !.called = TRUE])
TraceRet == Upd("ORet", [o EXCEPT !.returned = TRUE, !.class = Ev.class])
TraceCancel == Upd("OCancel", [o EXCEPT !.cancelled = TRUE])
TraceSrvClose == Upd("OSrvClose", [o EXCEPT !.shut = TRUE])
TraceAnnClose == Upd("OAnnClose", [o EXCEPT !.stopReq = TRUE])
TraceStopTrav == Upd("OStopTrav", [o EXCEPT !.stopReq = TRUE])
TraceConsGone == Upd("OConsGone", [o EXCEPT !.consGone = TRUE])
TraceSkip == Upd("OSkip", o)     \* the scenario's point was not reached; nothing is claimed
TraceQuiesce ==
  /\ IsEvent("OQuiesce")
  /\ obs' = [set |-> TRUE, txns |-> Ev.txns, gor |-> Ev.gor, hung |-> Ev.hung]
  /\ UNCHANGED <<owner, o>>

\* ---- C14 on what was observed
Must == O!MustEndFor(owner, o)
ObsOwnerStopped == (obs.set /\ Must) => ~obs.hung
ObsOwnerClean == (obs.set /\ Must) => (obs.txns = 0 /\ obs.gor = 0)
ObsOwnerResult == o.returned => /\ o.class = "ctxErr" => o.cancelled
                                /\ (o.class = "startErr") = (o.sn = "err")

Check(name, holds) == holds \/ PrintT(<<"OBSVIOLATION", name, l, Ev.seg>>)
ReportAll == /\ Check("ObsOwnerStopped", ObsOwnerStopped') /\ Check("ObsOwnerClean", ObsOwnerClean')
             /\ Check("ObsOwnerResult", ObsOwnerResult')

TraceNext == /\ \/ TraceStart \/ TraceCall \/ TraceRet \/ TraceCancel \/ TraceSrvClose \/ TraceAnnClose
                \/ TraceStopTrav \/ TraceConsGone \/ TraceQuiesce \/ TraceSkip
             /\ Report => ReportAll

TraceSpec == TraceInit /\ [][TraceNext]_tvars

\* ---- acceptance: the whole file was consumed
HW == TLCSet(1, IF TLCGet(1) < l THEN l ELSE TLCGet(1))
Accepted == IF TLCGet(1) = Len(TraceLog) + 1 THEN TRUE
            ELSE PrintT(<<"REJECTED_AT", TLCGet(1)>>) /\ FALSE
ASSUME TLCSet(1, 0)
=============================================================================
