CONSTANTS
 Part = "msg"
 Reduced = TRUE
 Base = "zero"
 MaxDev = 99
SPECIFICATION Spec
INVARIANTS AllWellFormed RoundTripLaw FixpointLaw CanonLaw DecodedIsStable KeysLaw CompactLaw
CHECK_DEADLOCK FALSE
