SPECIFICATION TraceSpec
INVARIANTS ClientVerified ClientHighest PutSeqHighest
CONSTRAINT HW
POSTCONDITION Accepted
CHECK_DEADLOCK FALSE
