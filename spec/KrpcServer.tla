---------------------------- MODULE KrpcServer ----------------------------
(***************************************************************************)
(* The KRPC server seen at its boundaries: the socket (datagrams in and    *)
(* out), the caller-supplied callbacks (peer store, announce hook, query   *)
(* hook), the query API, the token clock and the send limiter.             *)
(*                                                                         *)
(* The module is an OBSERVER: a total, deterministic function              *)
(*     Step(o, ev, seq)                                                    *)
(* from the abstract state o and one boundary event ev to the next state,  *)
(* which records in o.bad every way in which the event contradicts one of  *)
(* the properties (each tag names the properties it falsifies).  The same  *)
(* function judges the design model (MC_KrpcServer: a model of server.go's *)
(* dispatch whose emitted events are fed through Step; o.bad must stay     *)
(* empty) and the real code (Trace_KrpcServer: events recorded at the real *)
(* Server's boundaries).                                                   *)
(*                                                                         *)
(*   C07 query/reply matching      C08 replies: destination, t, form       *)
(*   C10 write tokens              C11 announced peers / BEP 32            *)
(*   C19 blocklist and passive     C20 send budget      C01 survival       *)
(***************************************************************************)
EXTENDS Integers, FiniteSets, Sequences, TLC

ErrKinds == {"e201", "e202", "e203", "e204", "e205", "e206", "e207", "e301", "e302", "eX"}
AllKinds == {"r"} \cup ErrKinds

Tag(ps, what, seq) == [p |-> ps, what |-> what, at |-> seq]
Min(a, b) == IF a < b THEN a ELSE b

\* o = [cfg, now, issued, peers, oblig, expect, queries, tokens, count, bad]
\*  cfg     [passive, peerstore, announcecb, own, blocked (set of normalised IPs), burst (-1 = not
\*           accounted), rate (tokens per second, 0 = negligible), exp]
\*  now     seconds on the token clock
\*  issued  tokens seen in replies: set of [tok, ipn, at]
\*  peers   set of [ih, ip (raw), ipn, port, fam]: at most one per (ih, raw ip)
\*  oblig   replies owed or allowed: set of [seq, ipn, port, t, allow, must, q]
\*  expect  callbacks owed or allowed: set of [seq, kind, ih, ip, port, portOk, must]
\*  queries own queries: set of [k, ipn, port, t, st, cancelled]
\*  tokens  send budget left;  count = rated datagrams written

InitObs(c) == [cfg |-> c, now |-> 0, issued |-> {}, peers |-> {}, oblig |-> {}, expect |-> {}, queries |-> {},
               tokens |-> c.burst, count |-> 0, bad |-> {}]

Blocked(o, ipn) == ipn \in o.cfg.blocked
TokFresh(o, tok, ipn) == \E i \in o.issued : i.tok = tok /\ i.ipn = ipn /\ o.now - i.at <= 600
TokDead(o, tok, ipn) == ~\E i \in o.issued : i.tok = tok /\ i.ipn = ipn /\ o.now - i.at <= 900

-----------------------------------------------------------------------------
\* In: a datagram delivered to the socket.
\* ev = [src [ip, ipn, port, fam], drop, dec, y, q, t, hasA, veto, tok, ih, port, implied, want4, want6]

Silent(o, ev) == o.cfg.passive \/ ev.veto

Allow(o, ev) ==
  CASE ev.q = "ping" -> IF ev.hasA THEN {"r"} ELSE {"r", "e203"}
    [] ev.q \in {"find_node", "get_peers"} -> IF ev.hasA THEN {"r"} ELSE {"e203"}
    [] ev.q = "get" -> IF ev.hasA THEN AllKinds ELSE {"e203"}
    [] ev.q = "announce_peer" -> IF ~ev.hasA THEN {"e203"}
                                 ELSE IF TokDead(o, ev.tok, ev.src.ipn) THEN {} ELSE {"r"}
    [] ev.q = "put" -> IF ~ev.hasA THEN {"e203"}
                       ELSE IF TokDead(o, ev.tok, ev.src.ipn) THEN {} ELSE AllKinds
    [] OTHER -> {"e204"}

Must(o, ev) == (ev.q \in {"announce_peer", "put"} /\ ev.hasA) => TokFresh(o, ev.tok, ev.src.ipn)

AnnPort(ev) == IF ev.implied THEN ev.src.port ELSE IF ev.port >= 0 THEN ev.port ELSE 0
AnnPortOk(ev) == ev.implied \/ ev.port >= 0

NewExpect(o, ev, seq) ==
  IF ev.q = "announce_peer" /\ ev.hasA /\ ~TokDead(o, ev.tok, ev.src.ipn)
  THEN LET m == TokFresh(o, ev.tok, ev.src.ipn)
           e(k) == [seq |-> seq, kind |-> k, ih |-> ev.ih, ip |-> ev.src.ip, port |-> AnnPort(ev),
                    portOk |-> AnnPortOk(ev), must |-> m] IN
       (IF o.cfg.peerstore THEN {e("AddPeer")} ELSE {}) \cup (IF o.cfg.announcecb THEN {e("OnAnnounce")} ELSE {})
  ELSE IF ev.q = "put" /\ ev.hasA /\ ~TokDead(o, ev.tok, ev.src.ipn)
  THEN \* whether the item is stored depends on BEP 44's own rules (C12/C13); with a dead token it never is
       {[seq |-> seq, kind |-> "StorePut", ih |-> "", ip |-> ev.src.ip, port |-> 0, portOk |-> TRUE, must |-> FALSE]}
  ELSE {}

ObsIn(o, ev, seq) ==
  IF ev.drop \/ ~ev.dec THEN o                         \* blocked, port 0 or undecodable: no effect at all
  ELSE IF ev.y = "q"
  THEN IF Silent(o, ev) THEN o
       ELSE \* an obligation with an empty allow set: nothing may be sent for this query (dead token)
            [o EXCEPT !.oblig = @ \cup {[seq |-> seq, ipn |-> ev.src.ipn, port |-> ev.src.port, t |-> ev.t,
                                         allow |-> Allow(o, ev), must |-> (Must(o, ev) /\ Allow(o, ev) # {}), q |-> ev.q]},
                      !.expect = @ \cup NewExpect(o, ev, seq)]
  ELSE \* a response, an error or an unknown type: completes the own query it matches, nothing else
       LET m == {x \in o.queries : x.st = "open" /\ x.ipn = ev.src.ipn /\ x.port = ev.src.port /\ x.t = ev.t} IN
       IF m = {} THEN o
       ELSE [o EXCEPT !.queries = (@ \ m) \cup {[x EXCEPT !.st = "matched"] : x \in m}]

-----------------------------------------------------------------------------
\* Out: a datagram written to the socket.
\* ev = [dst [ipn, port], y, kind, t, idOk, ipOk, token, hasToken, values (set of [ipn, port, w]), nvalues,
\*       ro, q, rated, failed, ms, ih, want4, want6]

ObsOutBudget(o, ev, seq) ==
  IF ~ev.rated \/ o.cfg.burst < 0 THEN o
  ELSE IF o.cfg.rate = 0
  THEN \* exact accounting: negligible refill rate
       IF o.tokens = 0 THEN [o EXCEPT !.bad = @ \cup {Tag({"C20"}, "rated datagram written with no budget left", seq)}]
       ELSE IF ev.failed THEN o                      \* the token of a failed write is given back
       ELSE [o EXCEPT !.tokens = @ - 1, !.count = @ + 1]
  ELSE IF ev.failed THEN o                           \* the token of a failed write is given back
  ELSE \* rate form, prefix windows: count <= burst + rate * elapsed
       LET c == o.count + 1 IN
       \* (golang.org/x/time/rate reads the clock before it takes its lock and moves its mark back when one call
       \* overtakes another, so under load the limiter itself hands out a little more than burst + rate * t; the
       \* budget that counts is the limiter's: 50 ms of such skew are tolerated here, the exact accounting of the
       \* rate = 0 form is not affected)
       IF c > o.cfg.burst + (o.cfg.rate * ev.ms) \div 1000 + 1 + (o.cfg.rate * 50) \div 1000
       THEN [o EXCEPT !.count = c, !.bad = @ \cup {Tag({"C20"}, "more rated datagrams than burst + rate * elapsed", seq)}]
       ELSE [o EXCEPT !.count = c]

\* a reply or error
ObsOutReply(o, ev, seq) ==
  LET cands == {b \in o.oblig : b.ipn = ev.dst.ipn /\ b.port = ev.dst.port /\ b.t = ev.t}
      good == {b \in cands : ev.kind \in b.allow} IN
  IF cands = {}
  THEN [o EXCEPT !.bad = @ \cup {Tag({"C08"} \cup (IF o.cfg.passive THEN {"C19"} ELSE {}),
                                   "reply or error that no pending query from that address with that transaction ID explains", seq)}]
  ELSE LET good1 == IF \E b \in good : b.must THEN {b \in good : b.must} ELSE good   \* owed before merely allowed
           pick == IF good # {} THEN CHOOSE b \in good1 : \A c \in good1 : b.seq <= c.seq
                   ELSE CHOOSE b \in cands : \A c \in cands : b.seq <= c.seq
           o1 == [o EXCEPT !.oblig = @ \ {pick}]
           tags == (IF good = {} THEN {Tag(IF pick.q \in {"announce_peer", "put"} /\ pick.allow = {} THEN {"C10"} ELSE {"C08"},
                                            "wrong KRPC form for this query", seq)} ELSE {})
                   \cup (IF "foreign" \in DOMAIN ev /\ ev.foreign
                         THEN {Tag({"C08"}, "reply addressed with another address object than the transport handed out for the asker (other type, or IPv6 zone lost)", seq)} ELSE {})
                   \cup (IF ev.kind = "r" /\ ~ev.idOk THEN {Tag({"C08"}, "response without the node's own ID", seq)} ELSE {})
                   \cup (IF ev.kind = "r" /\ ~ev.ipOk THEN {Tag({"C08"}, "response whose ip field is not the requester's address", seq)} ELSE {})
                   \cup (IF ev.kind = "r" /\ pick.q = "get_peers" /\ o.cfg.peerstore /\ ~ev.hasToken
                         THEN {Tag({"C11"}, "get_peers reply without token", seq)} ELSE {})
       IN [o1 EXCEPT !.bad = @ \cup tags]

\* tokens handed out are remembered (get_peers and get replies)
ObsOutToken(o, ev) ==
  IF ev.kind = "r" /\ ev.hasToken
  THEN [o EXCEPT !.issued = @ \cup {[tok |-> ev.token, ipn |-> ev.dst.ipn, at |-> o.now]}]
  ELSE o

\* values of a get_peers reply against the announces accepted so far
ObsOutValues(o, ev, seq) ==
  IF ~(ev.kind = "r" /\ ev.q = "get_peers" /\ o.cfg.peerstore) THEN o
  ELSE LET E == {p \in o.peers : p.ih = ev.ih}
           tags == (IF \E v \in ev.values : ~\E p \in E : p.ipn = v.ipn /\ p.port = v.port
                    THEN {Tag({"C11"}, "values holds an endpoint that was not announced for this infohash", seq)} ELSE {})
                   \cup (IF \E v \in ev.values : (v.w = 6 /\ ~ev.want4) \/ (v.w = 18 /\ ~ev.want6) \/ v.w \notin {6, 18}
                         THEN {Tag({"C11"}, "values entry width not wanted by the requester (BEP 32)", seq)} ELSE {})
                   \cup (IF \E p \in E : ((p.fam = 4 /\ ev.want4) \/ (p.fam = 6 /\ ev.want6))
                                          /\ ~\E v \in ev.values : v.ipn = p.ipn /\ v.port = p.port
                         THEN {Tag({"C11"}, "an announced endpoint of a wanted family is missing from values", seq)} ELSE {})
       IN [o EXCEPT !.bad = @ \cup tags]

\* one of the node's own queries going out
ObsOutQuery(o, ev, seq) ==
  LET first == {x \in o.queries : x.st = "called" /\ x.ipn = ev.dst.ipn /\ x.port = ev.dst.port}
      tags == (IF o.cfg.passive /\ ~ev.ro THEN {Tag({"C19"}, "query sent in passive mode without the read-only flag", seq)} ELSE {})
              \cup (IF first # {} /\ \E x \in o.queries : x.st = "open" /\ x.t = ev.t
                    THEN {Tag({"C07"}, "two outstanding queries share a transaction ID", seq)} ELSE {})
  IN [o EXCEPT !.queries = IF first = {} THEN @
                           ELSE LET x == CHOOSE y \in first : \A z \in first : y.k <= z.k IN
                                (@ \ {x}) \cup {[x EXCEPT !.st = "open", !.t = ev.t]},
               !.bad = @ \cup tags]

ObsOut(o, ev, seq) ==
  LET o0 == IF Blocked(o, ev.dst.ipn)
            THEN [o EXCEPT !.bad = @ \cup {Tag({"C19"}, "datagram written to a blocklisted address", seq)}] ELSE o
      o1 == ObsOutBudget(o0, ev, seq) IN
  IF ev.failed THEN o1
  ELSE IF ev.y = "q" THEN ObsOutQuery(o1, ev, seq)
  ELSE ObsOutToken(ObsOutValues(ObsOutReply(o1, ev, seq), ev, seq), ev)

-----------------------------------------------------------------------------
\* Cb: a caller-supplied callback fired.  ev = [kind, ih, ip (raw), ipn, port, portOk, fam]
ObsCb(o, ev, seq) ==
  LET c == {e \in o.expect : e.kind = ev.kind /\ (e.kind = "StorePut" \/ e.ih = ev.ih) /\ e.ip = ev.ip} IN
  IF c = {}
  THEN [o EXCEPT !.bad = @ \cup {Tag(IF Blocked(o, ev.ipn) THEN {"C19", "C10"} ELSE {"C10"},
                                   "store or announce callback fired without an honoured token", seq)}]
  ELSE LET exact == {e \in c : e.port = ev.port /\ (ev.kind # "OnAnnounce" \/ e.portOk = ev.portOk)}
           from0 == IF exact # {} THEN exact ELSE c      \* callbacks of concurrent announces fire in any order
           \* an effect that is owed is discharged before one that is merely allowed (token between 10 and 15 minutes)
           from == IF \E e \in from0 : e.must THEN {e \in from0 : e.must} ELSE from0
           pick == CHOOSE e \in from : \A d \in from : e.seq <= d.seq
           o1 == [o EXCEPT !.expect = @ \ {pick}]
           o2 == IF ev.kind = "AddPeer"
                 THEN [o1 EXCEPT !.peers = {p \in @ : ~(p.ih = ev.ih /\ p.ip = ev.ip)}
                                            \cup {[ih |-> ev.ih, ip |-> ev.ip, ipn |-> ev.ipn, port |-> ev.port, fam |-> ev.fam]}]
                 ELSE o1
       IN IF ev.kind # "StorePut" /\ (ev.port # pick.port \/ (ev.kind = "OnAnnounce" /\ ev.portOk # pick.portOk))
          THEN [o2 EXCEPT !.bad = @ \cup {Tag({"C11"}, "announced endpoint recorded with the wrong port", seq)}]
          ELSE o2

-----------------------------------------------------------------------------
\* the query API.  Call [k, dst [ipn, port]], Cancel [k], Ret [k, class, t]
ObsCall(o, ev) == [o EXCEPT !.queries = @ \cup {[k |-> ev.k, ipn |-> ev.dst.ipn, port |-> ev.dst.port, t |-> "",
                                                st |-> "called", cancelled |-> FALSE]}]
ObsCancel(o, ev) == [o EXCEPT !.queries = {IF x.k = ev.k THEN [x EXCEPT !.cancelled = TRUE] ELSE x : x \in @}]
ObsRet(o, ev, seq) ==
  LET m == {x \in o.queries : x.k = ev.k} IN
  IF m = {} THEN o
  ELSE LET x == CHOOSE y \in m : TRUE
           tag == CASE ev.class = "reply" ->
                         IF x.st = "matched" /\ ev.t = x.t THEN {}
                         ELSE {Tag({"C07"} \cup (IF Blocked(o, x.ipn) THEN {"C19"} ELSE {}),
                                   "query returned a reply that did not come from its destination with its transaction ID", seq)}
                    [] ev.class = "ctx" -> IF x.cancelled THEN {} ELSE {Tag({"C07"}, "query failed although nobody cancelled it", seq)}
                    [] OTHER -> IF Blocked(o, x.ipn) \/ x.cancelled THEN {}
                                ELSE {Tag({"C07"}, "query failed although only foreign datagrams arrived", seq)}
       IN [o EXCEPT !.queries = @ \ m, !.bad = @ \cup tag]

-----------------------------------------------------------------------------
\* Quiesce: everything the last events caused has happened.  ev = [txns]
ObsQuiesce(o, ev, seq) ==
  LET owed == {b \in o.oblig : b.must}
      budgetOut == o.cfg.burst >= 0 /\ o.cfg.rate = 0 /\ o.tokens = 0
      t1 == IF owed # {} /\ ~budgetOut
            THEN {Tag(IF \E b \in owed : b.q \in {"announce_peer", "put"} THEN {"C08", "C10"} ELSE {"C08"},
                      "a query that must be answered got no reply", seq)} ELSE {}
      t2 == IF \E e \in o.expect : e.must
            THEN {Tag({"C10", "C11"}, "an announce with a fresh token did not take effect", seq)} ELSE {}
      t3 == IF \E x \in o.queries : x.st = "matched"
            THEN {Tag({"C07"}, "a query whose genuine reply arrived did not return", seq)} ELSE {}
      t4 == IF ev.txns # Cardinality({x \in o.queries : x.st \in {"called", "open"}})
            THEN {Tag({"C07"}, "pending-transaction count differs from the number of unanswered queries", seq)} ELSE {}
  IN [o EXCEPT !.oblig = {}, !.expect = {}, !.bad = @ \cup t1 \cup t2 \cup t3 \cup t4]

ObsClock(o, ev) == [o EXCEPT !.now = ev.sec]
ObsSetBlock(o, ev) == [o EXCEPT !.cfg.blocked = ev.blocked]
ObsRefill(o, ev) == [o EXCEPT !.tokens = Min(o.cfg.burst, @ + ev.k)]
\* Probe (C01): after a hostile sequence a fresh address pinged the node and the API was called
ObsProbe(o, ev, seq) ==
  [o EXCEPT !.bad = @ \cup (IF ~ev.answered THEN {Tag({"C01"}, "no answer to a well-formed ping from a fresh address", seq)} ELSE {})
                     \cup (IF ~ev.api THEN {Tag({"C01"}, "public API did not return", seq)} ELSE {})]

Step(o, ev, seq) ==
  CASE ev.e = "In" -> ObsIn(o, ev, seq)
    [] ev.e = "Out" -> ObsOut(o, ev, seq)
    [] ev.e = "Cb" -> ObsCb(o, ev, seq)
    [] ev.e = "Call" -> ObsCall(o, ev)
    [] ev.e = "Cancel" -> ObsCancel(o, ev)
    [] ev.e = "Ret" -> ObsRet(o, ev, seq)
    [] ev.e = "Quiesce" -> ObsQuiesce(o, ev, seq)
    [] ev.e = "Clock" -> ObsClock(o, ev)
    [] ev.e = "SetBlock" -> ObsSetBlock(o, ev)
    [] ev.e = "Refill" -> ObsRefill(o, ev)
    [] ev.e = "Probe" -> ObsProbe(o, ev, seq)
    [] ev.e = "Lookup" -> \* a finished lookup: addresses it decided to query vs. addresses a query was written to
         IF ev.tried > ev.written
         THEN [o EXCEPT !.bad = @ \cup {Tag({"C19"}, "a lookup tried to query an address the node may not send to (blocklisted or unusable)", seq)}]
         ELSE o
    [] ev.e = "Forget" -> [o EXCEPT !.oblig = {}, !.expect = {}]   \* replies were lost to injected write failures
    [] OTHER -> o

Holds(o, p) == \A b \in o.bad : p \notin b.p
=============================================================================
