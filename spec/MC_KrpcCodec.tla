---------------------------- MODULE MC_KrpcCodec ----------------------------
(***************************************************************************)
(* Exhaustive instance for C15: the states enumerate message shapes -- all *)
(* presence subsets of the fields of MsgArgs / Return / Msg, each field    *)
(* with its value variants (zero, nil, empty-but-not-nil, non-empty, both  *)
(* IP forms) -- and a step changes one field (the mutation operators).     *)
(* The laws of the property statement are invariants on the codec model of *)
(* KrpcCodec.tla: it shows that the field tables (which fields are         *)
(* optional, which are pointers) admit a faithful round trip at all.       *)
(***************************************************************************)
EXTENDS KrpcCodec

CONSTANTS Part,      \* "args" | "ret" | "msg": which struct is enumerated
          Reduced,   \* TRUE: fewer variants for the list kinds of Return (quick tier)
          Base,      \* "zero": start from the all-absent shape; "full": from the shape with every field set
          MaxDev     \* explore the shapes that differ from the base in at most MaxDev fields (99 = all)

VARIABLE st         \* [s |-> the shape of the enumerated struct, i |-> position of the last changed field, n |-> fields changed]

N4 == [id |-> "0a", ip |-> <<1, 2, 3, 4>>, port |-> 6881]
N4m == [id |-> "0a", ip |-> <<0, 0, 0, 0, 0, 0, 0, 0, 0, 0, 255, 255, 1, 2, 3, 4>>, port |-> 6881]
N6 == [id |-> "0b", ip |-> <<32, 1, 13, 184, 0, 0, 0, 0, 0, 0, 0, 0, 0, 0, 0, 1>>, port |-> 1]
A4 == [ip |-> <<1, 2, 3, 4>>, port |-> 65535]

Variants(kind) ==
  CASE kind = "str" -> {"", "78"}
    [] kind = "bool" -> BOOLEAN
    [] kind = "int" -> {"0", "-5"}
    [] kind \in {"id", "arr32", "arr64"} -> {"", "01ff"}
    [] kind = "optint" -> {[p |-> FALSE, d |-> "0"], [p |-> TRUE, d |-> "0"], [p |-> TRUE, d |-> "7"]}
    [] kind = "optstr" -> {[p |-> FALSE, h |-> ""], [p |-> TRUE, h |-> ""], [p |-> TRUE, h |-> "74"]}
    [] kind = "optbloom" -> IF Reduced THEN {[p |-> FALSE, h |-> ""], [p |-> TRUE, h |-> "01"]}
                            ELSE {[p |-> FALSE, h |-> ""], [p |-> TRUE, h |-> ""], [p |-> TRUE, h |-> "01"]}
    [] kind = "bytes" -> {[p |-> FALSE, h |-> ""], [p |-> TRUE, h |-> ""], [p |-> TRUE, h |-> "73"]}
    [] kind = "raw" -> {[p |-> FALSE, h |-> ""], [p |-> TRUE, h |-> "693165"]}
    [] kind = "strlist" -> {[p |-> FALSE, l |-> <<>>], [p |-> TRUE, l |-> <<>>], [p |-> TRUE, l |-> <<"6e34", "6e36">>]}
    [] kind = "addrlist" -> {[p |-> FALSE, l |-> <<>>], [p |-> TRUE, l |-> <<>>], [p |-> TRUE, l |-> <<A4>>]}
    [] kind = "nodes4" -> {[p |-> FALSE, l |-> <<>>], [p |-> TRUE, l |-> <<>>], [p |-> TRUE, l |-> <<N4>>]}
                          \cup (IF Reduced THEN {} ELSE {[p |-> TRUE, l |-> <<N4m, N4>>]})
    [] kind = "nodes6" -> {[p |-> FALSE, l |-> <<>>], [p |-> TRUE, l |-> <<>>], [p |-> TRUE, l |-> <<N6>>]}
                          \cup (IF Reduced THEN {} ELSE {[p |-> TRUE, l |-> <<N6, N4>>]})
    [] kind = "hashes" -> {[p |-> FALSE, q |-> FALSE, l |-> <<>>], [p |-> TRUE, q |-> FALSE, l |-> <<>>],
                           [p |-> TRUE, q |-> TRUE, l |-> <<"aa">>]}
                          \cup (IF Reduced THEN {} ELSE {[p |-> TRUE, q |-> TRUE, l |-> <<>>]})
    [] kind = "any" -> {[p |-> FALSE, s |-> ""], [p |-> TRUE, s |-> "693065"], [p |-> TRUE, s |-> "6c65"]}
    [] kind = "addr" -> {[p |-> FALSE, ip |-> <<>>, port |-> 0], [p |-> FALSE, ip |-> <<>>, port |-> 5],
                         [p |-> TRUE, ip |-> <<>>, port |-> 0], [p |-> TRUE, ip |-> <<1, 2, 3, 4>>, port |-> 6881]}
    [] kind = "err" -> {[p |-> FALSE, code |-> "0", msg |-> ""], [p |-> TRUE, code |-> "0", msg |-> ""],
                        [p |-> TRUE, code |-> "203", msg |-> "78"]}

SampleArgs == [ZeroInner(ArgsFields) EXCEPT !["id"] = "01ff", !["port"] = [p |-> TRUE, d |-> "0"],
                                            !["want"] = [p |-> TRUE, l |-> <<>>], !["salt"] = [p |-> TRUE, h |-> ""]]
SampleRet == [ZeroInner(RetFields) EXCEPT !["nodes"] = [p |-> TRUE, l |-> <<N4m>>], !["nodes6"] = [p |-> TRUE, l |-> <<>>],
                                          !["token"] = [p |-> TRUE, h |-> ""], !["samples"] = [p |-> TRUE, q |-> TRUE, l |-> <<>>]]
TopVariants(kind) ==
  CASE kind = "args" -> {[p |-> FALSE], [p |-> TRUE, f |-> ZeroInner(ArgsFields)], [p |-> TRUE, f |-> SampleArgs]}
    [] kind = "ret" -> {[p |-> FALSE], [p |-> TRUE, f |-> ZeroInner(RetFields)], [p |-> TRUE, f |-> SampleRet]}
    [] OTHER -> Variants(kind)

Table == CASE Part = "args" -> ArgsFields [] Part = "ret" -> RetFields [] Part = "msg" -> MsgFields
ZeroMsg == TLCEval([k \in Keys(MsgFields) |-> ZeroTop(MsgFields[k].kind)])
ZeroShape == IF Part = "msg" THEN ZeroMsg ELSE ZeroInner(Table)
VariantsOf(f) == IF Part = "msg" THEN TopVariants(f.kind) ELSE Variants(f.kind)

\* the message carrying the enumerated struct
Msg == CASE Part = "args" -> [ZeroMsg EXCEPT !["y"] = "71", !["a"] = [p |-> TRUE, f |-> st.s]]
         [] Part = "ret" -> [ZeroMsg EXCEPT !["y"] = "72", !["r"] = [p |-> TRUE, f |-> st.s]]
         [] Part = "msg" -> st.s

\* every field present with a non-empty value
FullOf(kind) ==
  CASE kind = "str" -> "78" [] kind = "bool" -> TRUE [] kind = "int" -> "-5"
    [] kind \in {"id", "arr32", "arr64"} -> "01ff"
    [] kind = "optint" -> [p |-> TRUE, d |-> "7"] [] kind = "optstr" -> [p |-> TRUE, h |-> "74"]
    [] kind = "optbloom" -> [p |-> TRUE, h |-> "01"] [] kind = "bytes" -> [p |-> TRUE, h |-> "73"]
    [] kind = "raw" -> [p |-> TRUE, h |-> "693165"]
    [] kind = "strlist" -> [p |-> TRUE, l |-> <<"6e34", "6e36">>] [] kind = "addrlist" -> [p |-> TRUE, l |-> <<A4>>]
    [] kind = "nodes4" -> [p |-> TRUE, l |-> <<N4>>] [] kind = "nodes6" -> [p |-> TRUE, l |-> <<N6>>]
    [] kind = "hashes" -> [p |-> TRUE, q |-> TRUE, l |-> <<"aa">>] [] kind = "any" -> [p |-> TRUE, s |-> "693065"]
    [] kind = "addr" -> [p |-> TRUE, ip |-> <<1, 2, 3, 4>>, port |-> 6881]
    [] kind = "err" -> [p |-> TRUE, code |-> "203", msg |-> "78"]
    [] kind = "args" -> [p |-> TRUE, f |-> SampleArgs] [] kind = "ret" -> [p |-> TRUE, f |-> SampleRet]
FullVariant(f) == FullOf(f.kind)
FullShape == TLCEval([k \in DOMAIN Table |-> FullVariant(Table[k])])
BaseShape == IF Base = "full" THEN FullShape ELSE ZeroShape

\* Each shape is generated exactly once: fields are changed in the order of Order, a step changes one
\* field that comes after the last one changed.
Order == CASE Part = "args" -> <<"id", "info_hash", "target", "token", "port", "implied_port", "want", "noseed",
                                 "scrape", "v", "seq", "cas", "k", "salt", "sig">>
           [] Part = "ret" -> <<"id", "nodes", "nodes6", "token", "values", "BFsd", "BFpe", "interval", "num",
                                "samples", "v", "k", "sig", "seq">>
           [] Part = "msg" -> <<"q", "a", "t", "y", "r", "e", "ip", "ro", "v">>
ASSUME Range(Order) = DOMAIN Table /\ Len(Order) = Cardinality(DOMAIN Table)

Init == st = [s |-> BaseShape, i |-> 0, n |-> 0]
Next == /\ st.n < MaxDev
        /\ \E j \in (st.i + 1)..Len(Order) : \E v \in VariantsOf(Table[Order[j]]) \ {BaseShape[Order[j]]} :
              st' = [s |-> [st.s EXCEPT ![Order[j]] = v], i |-> j, n |-> st.n + 1]
Spec == Init /\ [][Next]_st

\* ---- the laws (the message is bound once, see the note in KrpcCodec)
AllWellFormed == \A m \in {Msg} : WellFormed(m)
RoundTripLaw == \A m \in {Msg} : RoundTrip(m)
FixpointLaw == \A m \in {Msg} : Fixpoint(m)
CanonLaw == \A m \in {Msg} : CanonIdempotent(m) /\ (\A c \in {Canon(m)} : RoundTrip(c))
\* a decoded message is already in the form decoding produces: decoding its encoding changes nothing
DecodedIsStable == \A m \in {Msg} : \A m1 \in {Recoded(m)} : Recoded(m1) = m1
\* the mandatory keys are always written, the sender ID is written whenever a / r is
KeysLaw == \A m \in {Msg} :
           /\ {"t", "y"} \subseteq TopKeys(m)
           /\ \A e \in {Encode(m)} : TopKeys(m) = {k \in Keys(MsgFields) : e[k].has}
           /\ m["a"].p => "id" \in SubKeys(m, "a")
           /\ m["r"].p => "id" \in SubKeys(m, "r")
\* the compact-format rule, for every length up to 4 entries + 1
CompactLaw == st.n = 0 => \A ty \in DOMAIN ElemSize : \A len \in 0..(4 * ElemSize[ty] + 1) :
                DecodesOK(len, ElemSize[ty]) <=> \E n \in 0..4 : len = n * ElemSize[ty]
=============================================================================
