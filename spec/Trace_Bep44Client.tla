---------------------------- MODULE Trace_Bep44Client ----------------------------
(***************************************************************************)
(* Trace validator for the client side of BEP 44: getput.Get / getput.Put  *)
(* of a real dht.Server whose outgoing get queries are answered by the     *)
(* harness's simulated remote nodes.  ClientStart: the call; ClientReply:  *)
(* one crafted reply datagram delivered to the node (labelled by the       *)
(* harness's own hashing and signature verification); ClientResult: what   *)
(* the caller was handed.  GetPut's invariants judge every state.          *)
(***************************************************************************)
EXTENDS GetPut, Json

VARIABLES l
tvars == <<cvars, l>>

TraceLog == ndJsonDeserialize("trace.ndjson")
Ev == TraceLog[l]
IsEvent(e) == l <= Len(TraceLog) /\ Ev.e = e /\ l' = l + 1

TraceInit == l = 1 /\ want = NoWant /\ rcvd = {} /\ res = NoRes

TraceStart == IsEvent("ClientStart") /\ want' = Ev.want /\ rcvd' = {} /\ res' = NoRes
TraceReply == IsEvent("ClientReply") /\ ~res.set /\ Deliver(Ev.r)
\* a reply delivered after the caller already has its answer changes nothing the caller sees
TraceLateReply == IsEvent("ClientReply") /\ res.set /\ UNCHANGED cvars
TraceResult == IsEvent("ClientResult") /\ ~res.set /\ Result(Ev.res)
TraceNote == IsEvent("Note") /\ UNCHANGED cvars

TraceNext == TraceStart \/ TraceReply \/ TraceLateReply \/ TraceResult \/ TraceNote
TraceSpec == TraceInit /\ [][TraceNext]_tvars

\* ---- report mode: print every line after which an invariant is false instead of stopping
F(name, ok) == IF ok THEN {} ELSE {name}
Findings == F("ClientVerified", ClientVerified) \cup F("ClientHighest", ClientHighest)
            \cup F("PutSeqHighest", PutSeqHighest) \cup F("ClientFinds", ClientFinds)
Report == Findings = {} \/ PrintT(<<"FINDING", l - 1, Findings>>)

\* ---- acceptance: the whole file was consumed
HW == TLCSet(1, IF TLCGet(1) < l THEN l ELSE TLCGet(1))
Accepted == IF TLCGet(1) = Len(TraceLog) + 1 THEN TRUE
            ELSE PrintT(<<"REJECTED_AT", TLCGet(1)>>) /\ FALSE
ASSUME TLCSet(1, 0)
=============================================================================
