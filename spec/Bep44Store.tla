---------------------------- MODULE Bep44Store ----------------------------
(***************************************************************************)
(* BEP 44 store of the node: bep44.Wrapper over a bep44.Store, reached by  *)
(* the inbound put/get handlers (server.go) and by the local API           *)
(* (Server.Put).  One action per call of the underlying store: Wrapper.Put *)
(* is Check; s.Get; CheckIncoming; s.Put, Wrapper.Get is s.Get; if expired *)
(* s.Del.  Shared by the exhaustive models (MC_Bep44: sequential alphabet, *)
(* concurrent putters plus an expiring getter) and by the trace validator  *)
(* (Trace_Bep44), which feeds the same actions with the logged arguments.  *)
(*                                                                         *)
(* Properties: C12 (StoredOK, RejectedPutCode, ValidNotRefused,            *)
(* ServeOnlyStored, RightTarget) and C13 (SeqRule, RejectedUnchanged,      *)
(* AcceptedStored, AcceptedServed, ExpiredNotServed, GetSeqRule,           *)
(* NoSeqDecrease, NoEqualSeqOverwrite, NoCasRace, NoFreshDelete, and the   *)
(* action property SeqForward).                                            *)
(*                                                                         *)
(* Items are abstract: key, salt and val are names, sig is the tuple that  *)
(* was really signed (<<key, salt, seq, val>>) or a garbage tuple, vsize   *)
(* and ssize are the byte sizes of the encoded value and of the salt.      *)
(***************************************************************************)
EXTENDS Integers, FiniteSets, Sequences, TLC

CONSTANTS
  Procs,    \* callers of the wrapper (inbound handler, local API, concurrent putters, a getter)
  Atomic,   \* TRUE: a wrapper-level lock brackets the store calls of one Put / one Get (the design
            \* question C13 asks).  FALSE: the racy variant (vacuity guard, source of attack schedules)
  Gen       \* TRUE (MC): the actions decide, from the allowed sets, what the wrapper answers and
            \* which store call comes next.  FALSE (trace validation): the state follows what the
            \* code logged and only the invariants judge it

VARIABLES
  store,    \* target -> item (targets never stored are outside the domain)
  proc,     \* per caller: the operation in progress with what it read, wrote and answered
  lock,     \* holder of the wrapper-level lock or "free" (Atomic only)
  bad       \* history: property-relevant incidents at store calls (must stay empty)

vars == <<store, proc, lock, bad>>

MaxV == 1000
MaxSalt == 64

NoItem == [nil |-> TRUE, mut |-> FALSE, key |-> "", salt |-> "", ssize |-> 0, seq |-> 0, cas |-> 0,
           val |-> "", vsize |-> 0, sig |-> <<"none", "", 0, "">>, old |-> FALSE]
NoTgt == <<"", "", "">>
NoRep == [val |-> FALSE, item |-> NoItem, hasrseq |-> FALSE, rseq |-> 0]
Idle == [op |-> "idle", pc |-> "idle", item |-> NoItem, tgt |-> NoTgt, hasseq |-> FALSE, seqarg |-> 0,
         got |-> NoItem, gotany |-> FALSE, wrote |-> NoItem, dels |-> 0, code |-> 0, dec |-> 0, rep |-> NoRep]

\* what an ed25519 verification of i.sig over the BEP 44 buffer of (salt, seq, value) under i.key says
Verify(i) == i.sig = <<i.key, i.salt, i.seq, i.val>>
\* SHA-1(key || salt) for mutable items, SHA-1(encoded value) for immutable ones
Target(i) == IF i.mut THEN <<"m", i.key, i.salt>> ELSE <<"i", i.val, "">>

Lookup(t) == IF t \in DOMAIN store THEN store[t] ELSE NoItem
Stored(t) == t \in DOMAIN store

\* Check (C12): every applicable BEP 44 code is an acceptable answer
CheckCodes(i) == (IF i.vsize > MaxV THEN {205} ELSE {})
                 \cup (IF i.mut /\ i.ssize > MaxSalt THEN {207} ELSE {})
                 \cup (IF i.mut /\ ~Verify(i) THEN {206} ELSE {})
CheckOK(i) == CheckCodes(i) = {}
ItemOK(i) == i.vsize <= MaxV /\ (i.mut => i.ssize <= MaxSalt /\ Verify(i))

\* CheckIncoming (C13) against the item st the caller read.  Left open: an immutable item; a CAS on
\* the first put; a CAS on a refresh (same seq, same value); whether an expired but not yet removed
\* item still counts as stored
R302(st, i) == i.seq < st.seq \/ (i.seq = st.seq /\ i.val # st.val)
R301(st, i) == i.cas # 0 /\ i.cas # st.seq
Refresh(st, i) == i.seq = st.seq /\ i.val = st.val
SeqCodes(st, i) ==
  IF ~i.mut THEN {0, 301, 302}
  ELSE IF st.nil THEN (IF i.cas # 0 THEN {0, 301} ELSE {0})
  ELSE LET c == (IF R302(st, i) THEN {302} ELSE {}) \cup (IF R301(st, i) THEN {301} ELSE {})
           strict == IF c = {} THEN {0} ELSE IF Refresh(st, i) THEN c \cup {0} ELSE c
       IN IF st.old THEN strict \cup (IF i.cas # 0 THEN {0, 301} ELSE {0}) ELSE strict

\* items are compared on what identifies a version; cas and age are not part of it
Same(a, b) == /\ a.nil = b.nil /\ a.mut = b.mut /\ a.key = b.key /\ a.salt = b.salt /\ a.seq = b.seq
              /\ a.val = b.val /\ a.sig = b.sig /\ a.vsize = b.vsize

InOp(p) == proc[p].pc \notin {"idle", "ret"}
CanBegin(p) == proc[p].pc \in {"idle", "ret"}
LockOK(p) == (Gen /\ Atomic) => lock \in {"free", p}

-----------------------------------------------------------------------------
\* Wrapper.Put(i) is entered.  c: the code Check answers if the item is not acceptable (Gen only)
PutCall(p, i, c) ==
  /\ CanBegin(p)
  /\ Gen => (IF CheckOK(i) THEN c = 0 ELSE c \in CheckCodes(i))
  /\ proc' = [proc EXCEPT ![p] = [Idle EXCEPT !.op = "put", !.item = i, !.tgt = Target(i), !.dec = c,
                                              !.pc = IF Gen THEN (IF c = 0 THEN "get" ELSE "fin") ELSE "run"]]
  /\ UNCHANGED <<store, lock, bad>>

\* Wrapper.Get(t) is entered (the inbound get handler may name a sequence number)
GetCall(p, t, hs, sa) ==
  /\ CanBegin(p)
  /\ proc' = [proc EXCEPT ![p] = [Idle EXCEPT !.op = "get", !.tgt = t, !.hasseq = hs, !.seqarg = sa,
                                              !.pc = IF Gen THEN "get" ELSE "run"]]
  /\ UNCHANGED <<store, lock, bad>>

\* what a get answers, given what was read (Gen)
ReplyFor(P, g) == IF g.nil \/ g.old THEN NoRep
                  ELSE IF P.hasseq /\ g.seq <= P.seqarg THEN [NoRep EXCEPT !.hasrseq = TRUE, !.rseq = g.seq]
                  ELSE [val |-> TRUE, item |-> g, hasrseq |-> TRUE, rseq |-> g.seq]

\* the underlying store's Get(t) returns res.  d: the decision CheckIncoming takes (Gen, put only)
StoreGet(p, t, res, d) ==
  /\ InOp(p)
  /\ LockOK(p)
  /\ Gen => /\ proc[p].pc = "get" /\ t = proc[p].tgt /\ res = Lookup(t)
            /\ IF proc[p].op = "put" THEN d \in SeqCodes([res EXCEPT !.old = FALSE], proc[p].item) ELSE d = 0
  /\ LET P == proc[p]
         more == IF P.op = "put" THEN d = 0 ELSE ~res.nil /\ res.old   \* another store call follows
     IN /\ proc' = [proc EXCEPT ![p] = [P EXCEPT !.got = res, !.gotany = TRUE, !.dec = d,
                       !.rep = IF Gen /\ P.op = "get" THEN ReplyFor(P, res) ELSE P.rep,
                       !.pc = IF ~Gen THEN "run" ELSE IF ~more THEN "fin" ELSE IF P.op = "put" THEN "put" ELSE "del"]]
        /\ lock' = IF Gen /\ Atomic THEN (IF more THEN p ELSE "free") ELSE lock
  /\ bad' = bad \cup (IF ~Same(res, Lookup(t)) \/ res.old # Lookup(t).old THEN {[k |-> "incoherent", t |-> t]} ELSE {})
                \cup (IF t # proc[p].tgt THEN {[k |-> "wrongtarget", t |-> t]} ELSE {})
  /\ UNCHANGED store

\* the underlying store's Put(i); tt: the target the store files it under
StorePut(p, i, tt) ==
  /\ InOp(p)
  /\ LockOK(p)
  /\ Gen => proc[p].pc = "put" /\ i = proc[p].item /\ tt = Target(i)
  /\ LET cur == Lookup(tt)
         \* the caller decided on a read that is no longer (or never was) the content of the store;
         \* a wrong decision on an up-to-date read is SeqRule's business
         stale == ~proc[p].gotany \/ ~Same(proc[p].got, cur)
         live == stale /\ ~cur.nil /\ ~cur.old /\ i.mut /\ cur.mut
     IN bad' = bad \cup (IF live /\ i.seq < cur.seq THEN {[k |-> "seqdec", t |-> tt]} ELSE {})
                   \cup (IF live /\ i.seq = cur.seq /\ i.val # cur.val THEN {[k |-> "eqover", t |-> tt]} ELSE {})
                   \cup (IF live /\ R301(cur, i) /\ ~Refresh(cur, i) THEN {[k |-> "casrace", t |-> tt]} ELSE {})
                   \cup (IF tt # Target(i) THEN {[k |-> "wrongtarget", t |-> tt]} ELSE {})
  /\ store' = (tt :> [i EXCEPT !.old = FALSE]) @@ store
  /\ proc' = [proc EXCEPT ![p] = [@ EXCEPT !.wrote = i, !.pc = IF Gen THEN "fin" ELSE "run"]]
  /\ lock' = IF Gen /\ Atomic THEN "free" ELSE lock

\* the underlying store's Del(t)
StoreDel(p, t) ==
  /\ InOp(p)
  /\ LockOK(p)
  /\ Gen => proc[p].pc = "del" /\ t = proc[p].tgt
  /\ bad' = bad \cup (IF ~Lookup(t).nil /\ ~Lookup(t).old THEN {[k |-> "freshdel", t |-> t]} ELSE {})
  /\ store' = [x \in DOMAIN store \ {t} |-> store[x]]
  /\ proc' = [proc EXCEPT ![p] = [@ EXCEPT !.dels = @ + 1, !.pc = IF Gen THEN "fin" ELSE "run"]]
  /\ lock' = IF Gen /\ Atomic THEN "free" ELSE lock

\* Wrapper.Put returns / the put handler answers: 0 = accepted, else the KRPC error code
\* (-1: nothing was answered, -2: an error that is not a KRPC error)
PutReturn(p, code) ==
  /\ InOp(p) /\ proc[p].op = "put"
  /\ Gen => proc[p].pc = "fin" /\ code = proc[p].dec
  /\ proc' = [proc EXCEPT ![p] = [@ EXCEPT !.pc = "ret", !.code = code]]
  /\ UNCHANGED <<store, lock, bad>>

\* Wrapper.Get returns / the get handler answers
GetReturn(p, rep) ==
  /\ InOp(p) /\ proc[p].op = "get"
  /\ Gen => proc[p].pc = "fin" /\ rep = proc[p].rep
  /\ proc' = [proc EXCEPT ![p] = [@ EXCEPT !.pc = "ret", !.rep = rep]]
  /\ UNCHANGED <<store, lock, bad>>

\* time: the item under t becomes older than the configured expiry
Expire(t) ==
  /\ Stored(t) /\ ~store[t].old
  /\ store' = [store EXCEPT ![t].old = TRUE]
  /\ UNCHANGED <<proc, lock, bad>>

-----------------------------------------------------------------------------
\* Properties.  Completed operations are judged in the state after their return (pc = "ret").

Puts == {p \in Procs : proc[p].pc = "ret" /\ proc[p].op = "put"}
Gets == {p \in Procs : proc[p].pc = "ret" /\ proc[p].op = "get"}
CheckCodeSet == {205, 206, 207}

\* ---- C12
\* everything in the store is verified, within the size limits, and filed under its own target
StoredOK == \A t \in DOMAIN store : ItemOK(store[t]) /\ Target(store[t]) = t
RightTarget == ~\E b \in bad : b.k \in {"wrongtarget", "incoherent"}
\* a forged or oversized put is answered 205/206/207 (any code whose condition holds) and touches nothing
RejectedPutCode == \A p \in Puts : ~CheckOK(proc[p].item) =>
                      /\ proc[p].code \in CheckCodes(proc[p].item)
                      /\ proc[p].wrote.nil /\ proc[p].dels = 0
\* a well-formed put is not refused with one of the three codes
ValidNotRefused == \A p \in Puts : CheckOK(proc[p].item) => proc[p].code \notin CheckCodeSet
\* a get is answered from the item stored under the requested target, and with nothing else
ServeOnlyStored == \A p \in Gets : LET G == proc[p] IN
                     /\ G.rep.val => /\ ~G.got.nil /\ Same(G.rep.item, G.got)
                                     /\ Target(G.rep.item) = G.tgt /\ ItemOK(G.rep.item)
                     /\ (G.rep.hasrseq /\ ~G.got.nil) => G.rep.rseq = G.got.seq

\* ---- C13
\* sequential rule, judged against the item this caller read
SeqRule == \A p \in Puts : LET P == proc[p] IN
             (CheckOK(P.item) /\ P.item.mut /\ P.code \notin CheckCodeSet) => P.code \in SeqCodes(P.got, P.item)
RejectedUnchanged == \A p \in Puts : (proc[p].code # 0 /\ CheckOK(proc[p].item)) => proc[p].wrote.nil /\ proc[p].dels = 0
\* (a refresh -- same seq, same value as what was read -- need not be written again)
AcceptedStored == \A p \in Puts : proc[p].code = 0 =>
                     /\ \/ ~proc[p].wrote.nil /\ Same(proc[p].wrote, proc[p].item) /\ proc[p].wrote.cas = proc[p].item.cas
                        \/ proc[p].wrote.nil /\ ~proc[p].got.nil /\ proc[p].item.mut /\ Refresh(proc[p].got, proc[p].item)
                     /\ proc[p].dels = 0
\* an accepted, unexpired item is what a get without a sequence number returns
AcceptedServed == \A p \in Gets : LET G == proc[p] IN
                     (~G.got.nil /\ ~G.got.old /\ ~G.hasseq /\ G.gotany) => G.rep.val
ExpiredNotServed == \A p \in Gets : proc[p].rep.val => ~proc[p].got.old
GetSeqRule == \A p \in Gets : LET G == proc[p] IN
                 (G.hasseq /\ G.rep.val /\ G.got.mut) => G.got.seq > G.seqarg
\* at the granularity of the store calls
NoSeqDecrease == ~\E b \in bad : b.k = "seqdec"
NoEqualSeqOverwrite == ~\E b \in bad : b.k = "eqover"
NoCasRace == ~\E b \in bad : b.k = "casrace"
NoFreshDelete == ~\E b \in bad : b.k = "freshdel"

SeqForwardStep == \A t \in (DOMAIN store) \cap (DOMAIN store') :
                     (store[t].mut /\ store'[t].mut) => store'[t].seq >= store[t].seq
SeqForward == [][SeqForwardStep]_vars
=============================================================================
