CONSTANTS
 Variant = "code"
 Gen = FALSE
 Strict = TRUE
SPECIFICATION TraceSpec
INVARIANTS ObsSendsBound ObsJoined ObsNoLateSend ObsClosedNoSend ObsResult ObsWrites ObsNoHang ObsNoPending ObsNoGoroutines ObsDatagrams
CONSTRAINT HW
POSTCONDITION Accepted
CHECK_DEADLOCK FALSE
