---------------------------- MODULE Trace_Announce ----------------------------
(***************************************************************************)
(* Trace validator for announce.go.  trace.ndjson is what harness/cmd/ann  *)
(* saw at the boundaries the library offers: every datagram the node wrote *)
(* (decoded by the harness's own bencode reader inside WriteTo), every     *)
(* reply the simulated network injected (logged before it is handed to the *)
(* socket loop), every value the consumer received from Peers (logged by   *)
(* the consumer after the receive), the API calls and Finished().  Nothing *)
(* inside the node is logged, so everything between these lines is a       *)
(* silent step of Announce.tla; TLC searches for an interleaving of silent *)
(* steps that explains the whole file.  Only orders that are causally      *)
(* forced are relied upon: e.g. PeersDelivered for a response may be       *)
(* logged after GetPeersSent lines that the same response caused.          *)
(*                                                                         *)
(* Each guard that states a clause of C16 is named; Off is the set of      *)
(* clauses not enforced.  Off = {} validates; after a rejection the        *)
(* pipeline re-validates the segment with one clause off at a time: the    *)
(* clause whose removal makes the segment acceptable is the one the code   *)
(* violated; if even Off = all does not help, the trace is not one of this *)
(* harness (inconclusive).                                                 *)
(***************************************************************************)
EXTENDS Announce, Json

CONSTANT Off   \* subset of {"stopped", "dst", "tok", "args", "once", "right", "owed", "order", "deliver"}

VARIABLES l,     \* next line of the trace
          dlog,  \* address -> number of PeersDelivered lines
          owed   \* responses handed to the node while the consumer reads and nobody has stopped
                 \* the announce: each must have been delivered before the driver's next move
tvars == <<vars, l, dlog, owed>>

On(c) == c \notin Off

TraceLog == ndJsonDeserialize("trace.ndjson")
Ev == TraceLog[l]
IsEvent(e) == l <= Len(TraceLog) /\ Ev.e = e /\ l' = l + 1
Range(s) == {s[i] : i \in DOMAIN s}

\* the driver moves only after it has waited for the deliveries it is owed
Checkpoint == On("owed") => \A n \in owed : dlog[n] > 0

TraceInit ==
  /\ l = 1 /\ dlog = <<>> /\ owed = {}
  /\ opt = [k |-> 8, alpha |-> 3, target |-> 0, announce |-> FALSE, port |-> 0, implied |-> FALSE, scrape |-> FALSE,
            short |-> {}, annhold |-> {}]
  /\ qst = <<>> /\ cid = <<>> /\ rep = <<>> /\ gate = {} /\ closest = {}
  /\ stopping = FALSE /\ stopped = FALSE /\ fin = "done" /\ ann = <<>>
  /\ closedF = FALSE /\ finished = FALSE /\ peersClosed = FALSE /\ reading = TRUE /\ userStop = FALSE
  /\ deliv = <<>> /\ sent = {} /\ eligible = {} /\ aband = {}

\* Server.Announce / Server.AnnounceTraversal returned
TraceStart ==
  /\ IsEvent("Start")
  /\ LET A == Range(Ev.addrs) IN
     /\ opt' = [k |-> Ev.k, alpha |-> Ev.alpha, target |-> Ev.target, announce |-> Ev.announce, port |-> Ev.port,
                implied |-> Ev.implied, scrape |-> Ev.scrape, short |-> Range(Ev.short), annhold |-> Range(Ev.annhold)]
     /\ qst' = [n \in A |-> "none"] /\ cid' = [n \in A |-> NoId] /\ rep' = [n \in A |-> NoRep]
     /\ ann' = [n \in A |-> "none"] /\ deliv' = [n \in A |-> 0] /\ dlog' = [n \in A |-> 0]
  /\ gate' = {} /\ closest' = {} /\ stopping' = FALSE /\ stopped' = FALSE /\ fin' = "waitStalled"
  /\ closedF' = FALSE /\ finished' = FALSE /\ peersClosed' = FALSE /\ reading' = TRUE /\ userStop' = FALSE
  /\ sent' = {} /\ eligible' = {} /\ aband' = {} /\ owed' = {}

\* a get_peers query datagram reached WriteTo.  After the finisher's own Stop (stall) the run loop
\* starts nothing (the driver discards the rare runs in which the stale stall of DESIGN O1 shows)
TraceGetPeersSent ==
  /\ IsEvent("GetPeersSent")
  /\ Ev.dst \in Addrs
  /\ ~stopping \/ userStop
  /\ StartQuery(Ev.dst, Ev.gated)
  /\ UNCHANGED <<dlog, owed>>

TraceGateOpen ==
  /\ IsEvent("GateOpen") /\ Checkpoint
  /\ GateOpen(Ev.dst)
  /\ UNCHANGED <<dlog, owed>>

\* a reply is handed to the socket loop: it completes the pending query -- or finds none (timed
\* out, cancelled); a reply with an integer token is not a KRPC message the node can read
TraceReplyInjected ==
  /\ IsEvent("ReplyInjected") /\ Checkpoint
  /\ Ev.dst \in Addrs
  /\ LET n == Ev.dst
         r == [kind |-> Ev.kind, id |-> Ev.id, tokk |-> Ev.tokk, tok |-> Ev.token,
               nodes |-> {[addr |-> p[1], id |-> p[2]] : p \in Range(Ev.nodes)}, nvals |-> Ev.nvals] IN
     \/ /\ r.kind = "resp" /\ Recv(n, r)
        /\ owed' = IF r.tokk # "int" /\ reading /\ ~stopping THEN owed \cup {n} ELSE owed
     \/ /\ RecvErrorDone(n, r)
        /\ UNCHANGED owed
     \/ /\ qst[n] \in {"post", "done"} \/ r.tokk = "int"
        /\ UNCHANGED <<vars, owed>>
  /\ UNCHANGED dlog

\* the consumer received a value from Peers (the rendezvous itself is the silent step Deliver)
TracePeersDelivered ==
  /\ IsEvent("PeersDelivered")
  /\ \E m \in Addrs :
       /\ On("once") => deliv[m] > dlog[m]
       /\ On("right") => (m = Ev.addr /\ rep[m].kind = "resp" /\ Ev.id = rep[m].id)
       /\ dlog' = [dlog EXCEPT ![m] = @ + 1]
  /\ UNCHANGED <<vars, owed>>

\* an announce_peer query datagram reached WriteTo
TraceAnnounceSent ==
  /\ IsEvent("AnnounceSent")
  /\ LET n == Ev.dst
         rec == [dst |-> n, tok |-> Ev.token, ih |-> Ev.ih, port |-> Ev.port, implied |-> Ev.implied] IN
     /\ On("stopped") => fin = "announcing"
     /\ On("dst") => (n \in CAddrs /\ (fin = "announcing" => ann[n] \in {"todo", "fly"}))
     /\ (On("tok") /\ n \in CAddrs) => Ev.token = Elem(n).tok
     /\ On("args") => /\ Ev.ih = opt.target
                      /\ Ev.implied = opt.implied
                      /\ Ev.port = opt.port \/ (opt.implied /\ Ev.port = -1)
     /\ sent' = sent \cup {rec}
     /\ ann' = IF n \in Addrs THEN [ann EXCEPT ![n] = "fly"] ELSE ann
  /\ UNCHANGED <<opt, qst, cid, rep, gate, closest, stopping, stopped, fin, closedF, finished, peersClosed, reading,
                 userStop, deliv, eligible, aband, dlog, owed>>

\* the answer to an announce_peer (AnnEnd is a silent step: it may as well have timed out)
TraceAnnReplyInjected == IsEvent("AnnReplyInjected") /\ Checkpoint /\ UNCHANGED <<vars, dlog, owed>>
TraceOtherSent == IsEvent("OtherSent") /\ UNCHANGED <<vars, dlog, owed>>

TraceClose == IsEvent("Close") /\ Checkpoint /\ Close /\ UNCHANGED <<dlog, owed>>
TraceStopTraversing == IsEvent("StopTraversing") /\ Checkpoint /\ StopTraversing /\ UNCHANGED <<dlog, owed>>

TracePause == IsEvent("Pause") /\ Checkpoint /\ ConsSet(FALSE) /\ UNCHANGED <<dlog, owed>>
\* from now on the responses that wait in getPeers are owed, too
TraceResume ==
  /\ IsEvent("Resume") /\ Checkpoint /\ ConsSet(TRUE)
  /\ owed' = IF stopping THEN owed ELSE owed \cup {n \in Addrs : qst[n] = "got"}
  /\ UNCHANGED dlog

\* the driver saw Finished() fire
TraceFinished ==
  /\ IsEvent("Finished") /\ Checkpoint
  /\ On("order") => finished
  /\ UNCHANGED <<vars, dlog, owed>>

\* the consumer saw Peers closed: after peerAnnounced, and nothing was delivered that it did not see
TracePeersClosed ==
  /\ IsEvent("PeersClosed")
  /\ On("order") => (peersClosed /\ Ev.fin)
  /\ On("owed") => \A n \in Addrs : dlog[n] >= deliv[n]
  /\ On("once") => \A n \in Addrs : dlog[n] <= deliv[n]
  /\ UNCHANGED <<vars, dlog, owed>>

TraceEnd ==
  /\ IsEvent("End") /\ Checkpoint
  /\ On("order") => (finished /\ peersClosed)
  /\ UNCHANGED <<vars, dlog, owed>>

\* clause "deliver" (never enabled while the clause is on): a response that waits for the consumer is given up
\* although nobody has stopped the announce
AbandonAnyway(n) ==
  /\ ~On("deliver")
  /\ qst[n] = "got"
  /\ aband' = aband \cup {n}
  /\ PostEffect(n, rep[n])
  /\ UNCHANGED <<opt, rep, gate, stopping, stopped, fin, ann, closedF, finished, peersClosed, reading,
                 userStop, deliv, sent>>

\* what the node does between two lines (Announce's steps, run together where nothing observable
\* lies between them)
Silent ==
  /\ \/ \E n \in Addrs : TimeoutDone(n) \/ CancelDone(n) \/ DeliverDone(n) \/ AbandonDone(n) \/ AbandonAnyway(n)
     \/ StallStop \/ StoppedAnnounce \/ FinishAll
  /\ UNCHANGED <<l, dlog, owed>>

TraceNext == \/ TraceStart \/ TraceGetPeersSent \/ TraceGateOpen \/ TraceReplyInjected \/ TracePeersDelivered
             \/ TraceAnnounceSent \/ TraceAnnReplyInjected \/ TraceOtherSent \/ TraceClose \/ TraceStopTraversing
             \/ TracePause \/ TraceResume \/ TraceFinished \/ TracePeersClosed \/ TraceEnd
             \/ Silent

TraceSpec == TraceInit /\ [][TraceNext]_tvars

\* ---- acceptance: the whole file was consumed
HW == TLCSet(1, IF TLCGet(1) < l THEN l ELSE TLCGet(1))
Accepted == IF TLCGet(1) = Len(TraceLog) + 1 THEN TRUE
            ELSE PrintT(<<"REJECTED_AT", TLCGet(1)>>) /\ FALSE
ASSUME TLCSet(1, 0)
=============================================================================
