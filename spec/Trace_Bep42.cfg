CONSTANTS
 Strict = TRUE
SPECIFICATION TraceSpec
CONSTRAINT HW
POSTCONDITION Accepted
CHECK_DEADLOCK FALSE
