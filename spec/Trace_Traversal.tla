---------------------------- MODULE Trace_Traversal ----------------------------
(***************************************************************************)
(* Trace validator for traversal/operation.go.  Every line of trace.ndjson *)
(* (hook events ordered by the sequence number taken under op.mu, plus the *)
(* harness's own bracketing events) must be a step of Traversal's actions  *)
(* with the logged arguments and post-state scalars; Traversal's invariants*)
(* are evaluated by TLC on the reconstructed state after every line.       *)
(* Many lookups are concatenated; a "Start" line resets the state.         *)
(***************************************************************************)
EXTENDS Traversal, Json

VARIABLES l,    \* next line of the trace
          obs   \* what the harness observed without hooks (Summary line)
tvars == <<vars, l, obs>>

TraceLog == ndJsonDeserialize("trace.ndjson")
Ev == TraceLog[l]
IsEvent(e) == l <= Len(TraceLog) /\ Ev.e = e /\ l' = l + 1
Range(s) == {s[i] : i \in DOMAIN s}
Cand(r) == [addr |-> r.addr, id |-> r.id]
Mem(r) == [id |-> r.id, addr |-> r.addr]
NoObs == [set |-> FALSE]

TraceInit ==
  /\ l = 1 /\ obs = NoObs
  /\ cfg = [k |-> 1, alpha |-> 1, target |-> 0, bad |-> {}, badp |-> {}]
  /\ unq = {} /\ queried = {} /\ closest = {} /\ qs = {}
  /\ stopping = FALSE /\ stopped = FALSE
  /\ run = [pc |-> "done", offer |-> FALSE] /\ runSig = FALSE
  /\ stp = "idle" /\ stpSig = FALSE /\ cons = "idle" /\ offered = FALSE
  /\ qcount = <<>> /\ learned = {} /\ responders = {} /\ eligible = {}

\* a new lookup: traversal.Start
TraceStart ==
  /\ IsEvent("Start")
  /\ cfg' = [k |-> Ev.k, alpha |-> Ev.alpha, target |-> Ev.target, bad |-> Range(Ev.bad),
             badp |-> {<<p[1], p[2]>> : p \in Range(Ev.badp)}]
  /\ unq' = {} /\ queried' = {} /\ closest' = {} /\ qs' = {}
  /\ stopping' = FALSE /\ stopped' = FALSE
  /\ run' = [pc |-> "check", offer |-> FALSE] /\ runSig' = FALSE
  /\ stp' = "idle" /\ stpSig' = FALSE /\ cons' = "idle" /\ offered' = FALSE
  /\ qcount' = [a \in Range(Ev.addrs) |-> 0]
  /\ learned' = {} /\ responders' = {} /\ eligible' = {}
  /\ obs' = NoObs

TraceAddNode ==
  /\ IsEvent("AddNode")
  /\ LET c == Cand(Ev.c) IN
       /\ AddNodeAs(c, Ev.res)
       \* the code's frontier may hold the same candidate twice (its IPv4 address reported in 4-byte and in
       \* v4-mapped form) and stale candidates; it never holds fewer than the live ones
       /\ Strict => Cardinality({x \in unq' : x.addr \notin queried'}) <= Ev.nu
  /\ UNCHANGED obs

TraceStartQuery ==
  /\ IsEvent("StartQuery")
  /\ StartQuery(Cand(Ev.c))
  /\ Strict => Ev.out = Outstanding'
  /\ UNCHANGED obs

TraceReturned ==
  /\ IsEvent("Returned")
  /\ \E q \in qs :
       /\ q.addr = Ev.c.addr /\ q.cid = Ev.c.id
       /\ QueryReturn(q, [ok |-> Ev.ok, id |-> Ev.id, dok |-> Ev.dok,
                          nodes |-> {Cand(n) : n \in Range(Ev.nodes)}])
  /\ UNCHANGED obs

TraceClosest ==
  /\ IsEvent("Closest")
  /\ \E q \in qs :
       /\ q.addr = Ev.addr /\ q.ph = "closest" /\ q.resp.id = Ev.id
       /\ PostClosestAs(q, Ev.nodeOk, Ev.dataOk, {Mem(x) : x \in Range(Ev.closest)})
  /\ UNCHANGED obs

\* follow-the-code mode only: the query completes although its response was never merged (no Closest event):
\* the responder has answered all the same, which is what the C02 predicates need to know
PostDoneSkipping(q) ==
  /\ q \in qs /\ q.ph = "closest"
  /\ LET e == [id |-> q.resp.id, addr |-> q.addr]
         ok == NodeOK([addr |-> q.addr, id |-> q.resp.id]) /\ q.resp.dok IN
     /\ responders' = responders \cup {e}
     /\ eligible' = IF ok THEN eligible \cup {e} ELSE eligible
  /\ qs' = qs \ {q}
  /\ Broadcast
  /\ UNCHANGED <<cfg, unq, queried, closest, stopping, stopped, run, stp, cons, offered, qcount, learned>>

TraceQueryDone ==
  /\ IsEvent("QueryDone")
  /\ \E q \in qs : q.addr = Ev.c.addr /\ q.cid = Ev.c.id /\ (PostDone(q) \/ (~Strict /\ PostDoneSkipping(q)))
  /\ Strict => Ev.out = Outstanding'
  /\ UNCHANGED obs

TraceRunEval ==
  /\ IsEvent("RunEval")
  /\ RunEvalAs(Ev.offer)
  /\ Strict => Ev.out = Outstanding
  /\ UNCHANGED obs

TraceRunExit == IsEvent("RunExit") /\ RunExit /\ UNCHANGED obs

\* Stop() entry; a second call changes nothing
TraceStop ==
  /\ IsEvent("Stop")
  /\ IF stopping THEN UNCHANGED vars ELSE Stop
  /\ UNCHANGED obs

\* the stopper found nothing in flight (its earlier sleeping iterations are silent)
TraceStopperDone ==
  /\ IsEvent("StopperDone")
  /\ stopping /\ ~stopped /\ Outstanding = 0
  /\ stp' = "done" /\ stopped' = TRUE
  /\ UNCHANGED <<cfg, unq, queried, closest, qs, stopping, run, runSig, stpSig, cons, offered, qcount, learned, responders, eligible, obs>>

TraceConsWait == IsEvent("ConsWait") /\ ConsWait /\ UNCHANGED obs

\* the harness's receive from Stalled() returned: an offer was pending at some point while it
\* waited, or the run loop has exited (channel closed)
TraceConsGot ==
  /\ IsEvent("ConsGot")
  /\ cons = "waiting" /\ (offered \/ run.pc = "done")
  /\ cons' = "idle" /\ offered' = FALSE
  /\ UNCHANGED <<cfg, unq, queried, closest, qs, stopping, stopped, run, runSig, stp, stpSig, qcount, learned, responders, eligible, obs>>

\* hook-independent observations of the harness at the end of a lookup
TraceSummary ==
  /\ IsEvent("Summary")
  /\ obs' = [set |-> TRUE, maxconc |-> Ev.maxconc, counts |-> Ev.counts,
             closest |-> {Mem(x) : x \in Range(Ev.closest)}, uncancelled |-> Ev.uncancelled,
             stopped |-> Ev.stopped]
  /\ UNCHANGED vars

TraceNext == \/ TraceStart \/ TraceAddNode \/ TraceStartQuery \/ TraceReturned \/ TraceClosest
             \/ TraceQueryDone \/ TraceRunEval \/ TraceRunExit \/ TraceStop \/ TraceStopperDone
             \/ TraceConsWait \/ TraceConsGot \/ TraceSummary

TraceSpec == TraceInit /\ [][TraceNext]_tvars

\* ---- hook-independent invariants (harness counters at the DoQuery boundary)
ObsAlpha == obs.set => obs.maxconc <= cfg.alpha                                   \* C04
ObsOnce == obs.set => \A i \in DOMAIN obs.counts : obs.counts[i][2] <= 1          \* C04
ObsFilter == obs.set => \A i \in DOMAIN obs.counts : obs.counts[i][1] \notin cfg.bad  \* C04
ObsCancel == obs.set => obs.uncancelled = 0                                      \* C04
ObsClosest == obs.set => obs.closest = closest                                   \* C02
ObsStopped == obs.set => (obs.stopped = stopped)                                 \* C03

\* ---- acceptance: the whole file was consumed
HW == TLCSet(1, IF TLCGet(1) < l THEN l ELSE TLCGet(1))
Accepted == IF TLCGet(1) = Len(TraceLog) + 1 THEN TRUE
            ELSE PrintT(<<"REJECTED_AT", TLCGet(1)>>) /\ FALSE
ASSUME TLCSet(1, 0)
=============================================================================
