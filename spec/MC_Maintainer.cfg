SPECIFICATION MCSpec
CONSTANTS
  Contacts = {"a", "b", "c"}
  K = 2
  NB = 2
  BucketOf <- MCBucketOf
  MaxPingSends = 3
  Alpha = 2
  HoldWhileWaiting = FALSE
  MaxPasses = 2
INVARIANTS TypeOK LockOK TableOK NoOrphans FanOut PingScope
PROPERTIES FailMarkOK StableUnderLock PassEnds Returns
CHECK_DEADLOCK FALSE
