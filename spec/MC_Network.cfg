CONSTANTS
 Nodes = {"a", "b", "c"}
 K = 1
 MaxMsgs = 4
SPECIFICATION Spec
INVARIANTS Provenance NoGhost NoSelf WellFormedAll
PROPERTIES Hearsay
VIEW View
CHECK_DEADLOCK FALSE
