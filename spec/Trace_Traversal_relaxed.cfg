CONSTANTS
 DedupAtPop = TRUE
 CaptureUnderLock = TRUE
 TraceMode = TRUE
 Strict = FALSE
SPECIFICATION TraceSpec
INVARIANTS AlphaBound OncePerAddr FilterFirst ClosestOK StallPredicate ObsAlpha ObsOnce ObsFilter ObsCancel ObsClosest ObsStopped
CONSTRAINT HW
POSTCONDITION Accepted
CHECK_DEADLOCK FALSE
