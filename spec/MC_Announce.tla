---------------------------- MODULE MC_Announce ----------------------------
(* Exhaustive instances of Announce over a small library of simulated networks and option sets:  *)
(* all reply orders, Close / StopTraversing at every point, consumer reading or giving up.       *)
EXTENDS Announce

CONSTANTS NetId,      \* which network of the library; "all": any of them (chosen by the initial state)
          OptId,      \* which option set; "all": any of them (chosen by the initial state)
          K, Alpha,
          ConsStops,  \* the consumer may stop reading (for good) at any point
          ApiStops,   \* Close / StopTraversing may be called (each once) at any point
          AnnHolds    \* TRUE: the network's annhold nodes never answer announce_peer (such a query ends
                      \* only when Close cancels it); FALSE: every announce_peer ends by itself

VARIABLE netid       \* the network of this behaviour (constant)
mcvars == <<vars, netid>>

R(kind, i, tokk, tok, ns, nv) == [kind |-> kind, id |-> i, tokk |-> tokk, tok |-> tok, nodes |-> ns, nvals |-> nv]
C(a, i) == [addr |-> a, id |-> i]
Tok(a, i, ns) == R("resp", i, "str", "t_" \o a, ns, 0)       \* response with this node's own token
Val(a, i, ns) == R("resp", i, "str", "t_" \o a, ns, 2)       \* ... and values
NoTok(i, ns) == R("resp", i, "none", "", ns, 0)              \* response without token
IntTok(i, ns) == R("resp", i, "int", "", ns, 0)              \* response whose token is not a string
Err == R("error", NoId, "none", "", {}, 0)
Silent == NoRep

\* ---- library: [net, entry (addresses the server starts from), target, annhold]
\* n1: four token-bearing nodes, K = 2 trims; the two nearest are found last
A4 == {"a", "b", "c", "d"}
N1 == [net |-> [n \in A4 |-> CASE n = "a" -> Tok("a", 6, {C("b", 1), C("d", 5)})
                               [] n = "b" -> Tok("b", 1, {C("c", 2), C("a", 6)})
                               [] n = "c" -> Val("c", 2, {C("a", 6)})
                               [] n = "d" -> Tok("d", 5, {})],
       entry |-> {"a"}, target |-> 0, annhold |-> {"c"}]
\* n2: the nearest answer without a usable token, one is silent, one sends an error
N2 == [net |-> [n \in A4 |-> CASE n = "a" -> Tok("a", 3, {C("b", 0), C("c", 1), C("d", 2)})
                               [] n = "b" -> NoTok(0, {C("d", 2)})
                               [] n = "c" -> Silent
                               [] n = "d" -> IntTok(2, {})],
       entry |-> {"a"}, target |-> 0, annhold |-> {}]
\* n3: two entry nodes, an error reply, two equidistant token-bearing responders (tie in the K set)
A3 == {"a", "b", "c"}
N3 == [net |-> [n \in A3 |-> CASE n = "a" -> Tok("a", 4, {C("b", 7), C("c", 4)})
                               [] n = "b" -> Err
                               [] n = "c" -> Val("c", 4, {C("a", 4)})],
       entry |-> {"a", "c"}, target |-> 5, annhold |-> {"a"}]
\* n4: three token-bearing nodes in a chain, K = 2 trims the entry node
N4 == [net |-> [n \in A3 |-> CASE n = "a" -> Tok("a", 7, {C("b", 3)})
                               [] n = "b" -> Tok("b", 3, {C("c", 1)})
                               [] n = "c" -> Tok("c", 1, {C("a", 7), C("b", 3)})],
       entry |-> {"a"}, target |-> 0, annhold |-> {"b"}]

NetIds == {"n1", "n2", "n3", "n4"}
G == CASE netid = "n1" -> N1 [] netid = "n2" -> N2 [] netid = "n3" -> N3 [] netid = "n4" -> N4

\* ---- option sets: [announce, port, implied, scrape]
OptIds == {"port", "implied", "both", "noport", "none"}
OptOf(i) == CASE i = "port" -> [announce |-> TRUE, port |-> 7, implied |-> FALSE, scrape |-> FALSE]
              [] i = "implied" -> [announce |-> TRUE, port |-> 0, implied |-> TRUE, scrape |-> FALSE]
              [] i = "both" -> [announce |-> TRUE, port |-> 7, implied |-> TRUE, scrape |-> TRUE]
              [] i = "noport" -> [announce |-> TRUE, port |-> 0, implied |-> FALSE, scrape |-> FALSE]
              [] i = "none" -> [announce |-> FALSE, port |-> 0, implied |-> FALSE, scrape |-> TRUE]

NA == DOMAIN G.net

Init ==
  /\ netid \in (IF NetId = "all" THEN NetIds ELSE {NetId})
  /\ \E i \in (IF OptId = "all" THEN OptIds ELSE {OptId}) : LET O == OptOf(i) IN
       opt = [k |-> K, alpha |-> Alpha, target |-> G.target, announce |-> O.announce, port |-> O.port,
              implied |-> O.implied, scrape |-> O.scrape,
              short |-> {n \in NA : G.net[n].kind = "none"},
              annhold |-> IF AnnHolds THEN G.annhold ELSE {}]
  /\ qst = [n \in NA |-> IF n \in G.entry THEN "cand" ELSE "none"]
  /\ cid = [n \in NA |-> NoId]
  /\ rep = [n \in NA |-> NoRep]
  /\ gate = {} /\ closest = {}
  /\ stopping = FALSE /\ stopped = FALSE /\ fin = "waitStalled"
  /\ ann = [n \in NA |-> "none"]
  /\ closedF = FALSE /\ finished = FALSE /\ peersClosed = FALSE /\ reading = TRUE /\ userStop = FALSE
  /\ deliv = [n \in NA |-> 0] /\ sent = {} /\ eligible = {} /\ aband = {}

\* the network answers (only nodes that answer at all)
Same(A) == A /\ UNCHANGED netid
RecvE == Same(\E n \in NA : G.net[n].kind # "none" /\ Recv(n, G.net[n]))
StartE == Same(\E n \in NA : StartQuery(n, FALSE))
TimeoutE == Same(\E n \in NA : Timeout(n))
CancelE == Same(\E n \in NA : Cancel(n))
TakeE == Same(\E n \in NA : Take(n))
DeliverE == Same(\E n \in NA : Deliver(n))
AbandonE == Same(\E n \in NA : Abandon(n))
PostE == Same(\E n \in NA : Post(n))
AnnSendE == Same(\E n \in NA : AnnSend(n))
AnnSkipE == Same(\E n \in NA : AnnSkip(n))
AnnEndE == Same(\E n \in NA : AnnEnd(n))
StopperDoneE == Same(StopperDone)
FinStalledE == Same(FinStalled)
FinStopE == Same(FinStop)
FinStoppedE == Same(FinStopped)
FinAnnouncedE == Same(FinAnnounced)
FinSetDoneE == Same(FinSetDone)
FinClosePeersE == Same(FinClosePeers)

StopTravE == Same(ApiStops /\ ~userStop /\ StopTraversing)
CloseE == Same(ApiStops /\ ~closedF /\ Close)
ConsStopE == Same(ConsStops /\ reading /\ ConsSet(FALSE))

Next == \/ StartE \/ RecvE \/ TimeoutE \/ CancelE \/ TakeE \/ DeliverE \/ AbandonE \/ PostE
        \/ StopperDoneE \/ FinStalledE \/ FinStopE \/ FinStoppedE \/ AnnSendE \/ AnnSkipE \/ AnnEndE
        \/ FinAnnouncedE \/ FinSetDoneE \/ FinClosePeersE
        \/ StopTravE \/ CloseE \/ ConsStopE

Spec == Init /\ [][Next]_mcvars

\* weak fairness of everything the node and the network do by themselves; none for the API user
\* and for the consumer's decision to stop reading
Fair == /\ WF_mcvars(StartE) /\ WF_mcvars(RecvE) /\ WF_mcvars(TimeoutE) /\ WF_mcvars(CancelE) /\ WF_mcvars(TakeE)
        /\ WF_mcvars(DeliverE) /\ WF_mcvars(AbandonE) /\ WF_mcvars(PostE) /\ WF_mcvars(StopperDoneE)
        /\ WF_mcvars(FinStalledE) /\ WF_mcvars(FinStopE) /\ WF_mcvars(FinStoppedE)
        /\ WF_mcvars(AnnSendE) /\ WF_mcvars(AnnSkipE) /\ WF_mcvars(AnnEndE)
        /\ WF_mcvars(FinAnnouncedE) /\ WF_mcvars(FinSetDoneE) /\ WF_mcvars(FinClosePeersE)
FairSpec == Spec /\ Fair

\* ---- vacuity guards: the interesting things do happen in this instance
\* (checked as invariants that must be VIOLATED)
NeverAnnounces == sent = {}
NeverAbandons == aband = {}
NeverTrims == Cardinality(eligible) <= K
\* one reachable state shows all of it: an announce_peer written, a send abandoned, the K set trimmed
Vacuous == ~(sent # {} /\ aband # {} /\ Cardinality(eligible) > K)
=============================================================================
