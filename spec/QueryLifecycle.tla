------------------------- MODULE QueryLifecycle -------------------------
(***************************************************************************)
(* One outbound query of server.go: Server.Query (register the transaction,*)
(* spawn the sender goroutine, select {reply, ctx, sender error}, cancel   *)
(* the send context, join the sender, deregister, return) together with    *)
(* its sender goroutine (transaction.go transactionSender + the final wait *)
(* of Server.transactionQuerySender) and the goroutine that hands a reply  *)
(* to the query (transaction.handleResponse).  One action per blocking     *)
(* select / critical section of Server.mu.  The environment - the remote   *)
(* node, the API user, the clock, the socket, the rate limiter - is made   *)
(* of explicit actions: DeliverReply, CancelCtx, Close, TimerFire, the     *)
(* outcome of Write (WriteFails), the limiter refusing (BudgetDenied).     *)
(*                                                                         *)
(* Property C14 (query part) is stated twice:                              *)
(*  - on the process state (ReturnClean, SendsBound, ResultJustified,      *)
(*    ClosedNoSend, Returns, Quiesces) for the exhaustive runs, and        *)
(*  - on the observer `o`, a deterministic function of the events that a   *)
(*    harness can log at the PacketConn / QueryResendDelay / API boundary  *)
(*    (Obs* invariants).  The exhaustive runs check the Obs* invariants on *)
(*    the design, so they are never stricter than it; the trace validator  *)
(*    (Trace_QueryLifecycle) evaluates them on what the real code did.     *)
(***************************************************************************)
EXTENDS Integers, Sequences, FiniteSets, TLC

CONSTANTS
  Variant,  \* "code": what server.go does.  Broken variants (vacuity guards and attack schedules):
            \* "nojoin"     Query does not wait for the sender before it returns
            \* "nodereg"    the transaction is not deregistered on the ctx path
            \* "extrasend"  `sends <= maxSends`
            \* "noclosedck" writeToNode does not look at the closed flag
            \* "unbuffered" the reply channel has no buffer
  Gen       \* TRUE: schedule generator.  Environment actions only while the sender is parked in one
            \* of the two gates a harness owns (Conn.WriteTo, QueryResendDelay) or blocked in the
            \* limiter, before the call or after the return; a resend delay is "short" (the timer
            \* fires) or "long" (it does not fire within the run); every action is appended to hist

Results == {"reply", "ctxErr", "timeout", "sendErr"}

VARIABLES
  cfg,     \* [n: NumTries, budget: sends the limiter lets through (-1 = no limit),
           \*  bwait: an empty limiter blocks (Wait) instead of refusing (Allow)]
  closed,  \* Server.closed
  ctx,     \* the caller's context is cancelled
  csend,   \* cancelSend() was called (sendCtx is done iff ctx \/ csend)
  txn,     \* the transaction key is in Server.transactions
  q,       \* Query: [pc, res]
  s,       \* sender goroutine: [pc, i (send() calls), w (datagrams written = QueryResult.Writes),
           \*                    fin (the send loop is over, the next delay is the final wait)]
  timer,   \* the time.After the sender waits on: "none" | "armed" | "long" | "fired"
  serr,    \* the error in the sendErr channel: "none" or a class
  rch,     \* messages buffered in replyChan (0 or 1)
  hr,      \* goroutine `go t.handleResponse(d)`: "none" | "pushing" | "done"
  o,       \* observer (history): see ObsInit
  hist     \* generator only: the actions so far

pvars == <<cfg, closed, ctx, csend, txn, q, s, timer, serr, rch, hr>>
vars == <<cfg, closed, ctx, csend, txn, q, s, timer, serr, rch, hr, o, hist>>

MaxSends == IF Variant = "extrasend" THEN cfg.n + 1 ELSE cfg.n
SendCtxDone == ctx \/ csend
Rec(x) == hist' = IF Gen THEN Append(hist, x) ELSE hist

ObsInit == [begun |-> 0,        \* datagrams handed to the socket for this transaction (WriteTo calls)
            wok |-> 0,          \* of these, written successfully
            werr |-> FALSE,     \* a write failed
            parked |-> FALSE,   \* the sender is inside WriteTo or inside QueryResendDelay right now
            calls |-> 0,        \* QueryResendDelay calls
            lastDec |-> "none", \* what the last one returned
            delivered |-> FALSE,\* a reply was accepted (it found the transaction registered)
            cancelled |-> FALSE, shut |-> FALSE,
            called |-> FALSE, preClosed |-> FALSE,
            returned |-> FALSE, class |-> "none", rw |-> 0, parkedAtRet |-> FALSE,
            late |-> FALSE]     \* something was handed to the socket after the return

\* observer updates, one per loggable event (shared by the actions below and by the follow-the-log
\* mode of the trace validator)
OClose(b) == [b EXCEPT !.shut = TRUE]
OCancel(b) == [b EXCEPT !.cancelled = TRUE]
OReply(b, acc) == [b EXCEPT !.delivered = @ \/ acc]
OCall(b) == [b EXCEPT !.called = TRUE, !.preClosed = b.shut]
OSendBegin(b) == [b EXCEPT !.begun = @ + 1, !.parked = TRUE, !.late = @ \/ b.returned]
OWrite(b, ok) == [b EXCEPT !.parked = FALSE, !.wok = IF ok THEN @ + 1 ELSE @, !.werr = @ \/ ~ok]
ODelayCall(b) == [b EXCEPT !.parked = TRUE, !.calls = @ + 1]
ODelayRet(b, dec) == [b EXCEPT !.parked = FALSE, !.lastDec = dec]
ORet(b, class, writes) == [b EXCEPT !.returned = TRUE, !.class = class, !.rw = writes, !.parkedAtRet = b.parked]

InitWith(c) ==
  /\ cfg = c
  /\ closed = FALSE /\ ctx = FALSE /\ csend = FALSE /\ txn = FALSE
  /\ q = [pc |-> "idle", res |-> "none"]
  /\ s = [pc |-> "none", i |-> 0, w |-> 0, fin |-> FALSE]
  /\ timer = "none" /\ serr = "none" /\ rch = 0 /\ hr = "none"
  /\ o = ObsInit /\ hist = <<>>

\* where the harness can act: the sender is held in a gate, or is blocked in the limiter
AtGate == s.pc \in {"write", "delay", "budget"}
Quiet == q.pc = "returned" /\ s.pc = "done" /\ hr # "pushing"

\* Generator only (maximal progress): a goroutine that can move without the harness or the clock
\* does so before the harness acts again or a timer fires - the harness waits for that after each
\* of its actions.  Races between two ready cases of one select stay in (both are urgent).
Urgent == \/ q.pc = "select" /\ (rch = 1 \/ ctx \/ serr # "none")
          \/ q.pc \in {"cancel", "dereg"}
          \/ q.pc = "join" /\ (s.pc = "done" \/ Variant = "nojoin")
          \/ hr = "pushing" /\ (Variant # "unbuffered" \/ q.pc = "select")
          \/ s.pc \in {"wait", "final", "budget"} /\ (ctx \/ csend)
          \/ s.pc = "dcall"
Calm == Gen => ~Urgent

-----------------------------------------------------------------------------
\* Environment

Close ==
  /\ ~closed /\ Calm
  /\ Gen => (q.pc = "idle" \/ AtGate)
  /\ closed' = TRUE
  /\ o' = OClose(o)
  /\ Rec("close")
  /\ UNCHANGED <<cfg, ctx, csend, txn, q, s, timer, serr, rch, hr>>

CancelCtx ==
  /\ ~ctx /\ Calm
  /\ Gen => (q.pc = "idle" \/ AtGate)
  /\ ctx' = TRUE
  /\ o' = OCancel(o)
  /\ Rec("cancel")
  /\ UNCHANGED <<cfg, closed, csend, txn, q, s, timer, serr, rch, hr>>

\* A datagram with the transaction's `t` from the queried address reaches processPacket.  It is
\* accepted iff the transaction is registered and the server is open; the server pops the
\* transaction and starts the goroutine that hands the message over.  Otherwise it is dropped.
DeliverReply(acc) ==
  /\ q.pc # "idle"                       \* `t` is not known before the call
  /\ acc = (txn /\ ~closed)
  /\ IF acc THEN txn' = FALSE /\ hr' = "pushing" ELSE UNCHANGED <<txn, hr>>
  /\ o' = OReply(o, acc)
  /\ UNCHANGED <<cfg, closed, ctx, csend, q, s, timer, serr, rch>>

EnvReply ==
  /\ Calm
  /\ ~(\E j \in DOMAIN hist : hist[j] = "reply")
  /\ Gen => (AtGate \/ Quiet)
  /\ \E acc \in BOOLEAN : DeliverReply(acc)
  /\ Rec("reply")

TimerFire ==
  /\ timer = "armed" /\ Calm
  /\ timer' = "fired"
  /\ UNCHANGED <<cfg, closed, ctx, csend, txn, q, s, serr, rch, hr, o, hist>>

-----------------------------------------------------------------------------
\* handleResponse: `replyChan <- m`

HRPush ==
  /\ hr = "pushing"
  /\ IF Variant = "unbuffered"
     THEN /\ q.pc = "select"              \* rendezvous with the query's select
          /\ q' = [pc |-> "cancel", res |-> "reply"]
          /\ UNCHANGED rch
     ELSE rch' = 1 /\ UNCHANGED q
  /\ hr' = "done"
  /\ UNCHANGED <<cfg, closed, ctx, csend, txn, s, timer, serr, o, hist>>

-----------------------------------------------------------------------------
\* Query

Call ==
  /\ q.pc = "idle"
  /\ txn' = TRUE                                   \* addTransaction under Server.mu
  /\ s' = [pc |-> "wait", i |-> 0, w |-> 0, fin |-> FALSE]
  /\ timer' = "fired"                              \* the first delay is 0
  /\ q' = [pc |-> "select", res |-> "none"]
  /\ o' = OCall(o)
  /\ Rec("call")
  /\ UNCHANGED <<cfg, closed, ctx, csend, serr, rch, hr>>

SelReply ==
  /\ q.pc = "select" /\ rch = 1
  /\ rch' = 0 /\ q' = [pc |-> "cancel", res |-> "reply"]
  /\ UNCHANGED <<cfg, closed, ctx, csend, txn, s, timer, serr, hr, o, hist>>

SelCtx ==
  /\ q.pc = "select" /\ ctx
  /\ q' = [pc |-> "cancel", res |-> "ctxErr"]
  /\ UNCHANGED <<cfg, closed, ctx, csend, txn, s, timer, serr, rch, hr, o, hist>>

SelSendErr ==
  /\ q.pc = "select" /\ serr # "none"
  /\ q' = [pc |-> "cancel", res |-> serr] /\ serr' = "none"
  /\ UNCHANGED <<cfg, closed, ctx, csend, txn, s, timer, rch, hr, o, hist>>

CancelSend ==
  /\ q.pc = "cancel"
  /\ csend' = TRUE /\ q' = [q EXCEPT !.pc = "join"]
  /\ UNCHANGED <<cfg, closed, ctx, txn, s, timer, serr, rch, hr, o, hist>>

\* `<-sendErr`: the sender's error or the closed channel
Join ==
  /\ q.pc = "join"
  /\ s.pc = "done" \/ Variant = "nojoin"
  /\ serr' = "none" /\ q' = [q EXCEPT !.pc = "dereg"]
  /\ UNCHANGED <<cfg, closed, ctx, csend, txn, s, timer, rch, hr, o, hist>>

\* deleteTransaction under Server.mu, then return (class, writes)
Return(class, writes) ==
  /\ q.pc = "dereg"
  /\ class = q.res /\ writes = s.w
  /\ txn' = IF Variant = "nodereg" /\ q.res = "ctxErr" THEN txn ELSE FALSE
  /\ q' = [q EXCEPT !.pc = "returned"]
  /\ o' = ORet(o, class, writes)
  /\ Rec("ret")
  /\ UNCHANGED <<cfg, closed, ctx, csend, s, timer, serr, rch, hr>>

-----------------------------------------------------------------------------
\* Sender

Finish(e) == serr' = e                 \* `sendErr <- err; close(sendErr)`

\* time.After(delay) wins the select of the send loop: writeToNode looks at the closed flag,
\* then at the limiter, then hands the datagram to the socket
SendAttempt ==
  /\ s.pc = "wait" /\ timer = "fired"
  /\ Gen => ~SendCtxDone       \* generator: a context that is already done wins (the other outcome of that
                               \* race is a behaviour of the unrestricted specification all the same)
  /\ timer' = "none"
  /\ IF closed /\ Variant # "noclosedck"
     THEN s' = [s EXCEPT !.pc = "done", !.i = @ + 1] /\ Finish("sendErr") /\ UNCHANGED <<o, hist>>
     ELSE IF cfg.budget # -1 /\ s.w >= cfg.budget
     THEN IF cfg.bwait
          THEN s' = [s EXCEPT !.pc = "budget"] /\ UNCHANGED <<serr, o>> /\ Rec("bwait")
          ELSE s' = [s EXCEPT !.pc = "done", !.i = @ + 1] /\ Finish("sendErr") /\ UNCHANGED <<o, hist>>
     ELSE /\ s' = [s EXCEPT !.pc = "write"]
          /\ o' = OSendBegin(o)
          /\ Rec("wbegin")
          /\ UNCHANGED serr
  /\ UNCHANGED <<cfg, closed, ctx, csend, txn, q, rch, hr>>

\* a token arrives while the sender waits in the limiter (not in the generator: the harness's
\* limiter refills once an hour)
TokenArrives ==
  /\ ~Gen
  /\ s.pc = "budget"
  /\ s' = [s EXCEPT !.pc = "write"]
  /\ o' = OSendBegin(o)
  /\ UNCHANGED <<cfg, closed, ctx, csend, txn, q, timer, serr, rch, hr, hist>>

\* socket.WriteTo returns
Write(ok) ==
  /\ s.pc = "write" /\ Calm
  /\ IF ok THEN s' = [s EXCEPT !.pc = "dcall", !.i = @ + 1, !.w = @ + 1] /\ UNCHANGED serr
           ELSE s' = [s EXCEPT !.pc = "done", !.i = @ + 1] /\ Finish("sendErr")
  /\ o' = OWrite(o, ok)
  /\ Rec(IF ok THEN "wok" ELSE "werr")
  /\ UNCHANGED <<cfg, closed, ctx, csend, txn, q, timer, rch, hr>>

\* resendDelay() is entered ...
DelayCall ==
  /\ s.pc = "dcall"
  /\ s' = [s EXCEPT !.pc = "delay"]
  /\ o' = ODelayCall(o)
  /\ Rec("dcall")
  /\ UNCHANGED <<cfg, closed, ctx, csend, txn, q, timer, serr, rch, hr>>

\* ... and returns: after each send; the value obtained after the last send of the loop is
\* discarded and the function is called once more for the final wait
DelayRet(dec) ==
  /\ s.pc = "delay" /\ Calm
  /\ (Gen /\ s.i >= MaxSends /\ ~s.fin) => dec = "short"     \* discarded anyway: one schedule is enough
  /\ IF s.i < MaxSends
     THEN s' = [s EXCEPT !.pc = "wait"] /\ timer' = (IF dec = "short" THEN "armed" ELSE "long")
     ELSE IF ~s.fin
     THEN s' = [s EXCEPT !.pc = "dcall", !.fin = TRUE] /\ UNCHANGED timer
     ELSE s' = [s EXCEPT !.pc = "final"] /\ timer' = (IF dec = "short" THEN "armed" ELSE "long")
  /\ o' = ODelayRet(o, dec)
  /\ Rec(dec)
  /\ UNCHANGED <<cfg, closed, ctx, csend, txn, q, serr, rch, hr>>

\* sendCtx.Done() wins a select of the sender (send loop, final wait, limiter.Wait)
SenderCtxExit ==
  /\ s.pc \in {"wait", "final", "budget"} /\ SendCtxDone
  /\ s' = [s EXCEPT !.pc = "done"] /\ Finish("ctxErr")
  /\ timer' = "none"
  /\ UNCHANGED <<cfg, closed, ctx, csend, txn, q, rch, hr, o, hist>>

\* the last resend interval has passed without a reply
FinalTimeout ==
  /\ s.pc = "final" /\ timer = "fired"
  /\ s' = [s EXCEPT !.pc = "done"] /\ Finish("timeout")
  /\ timer' = "none"
  /\ UNCHANGED <<cfg, closed, ctx, csend, txn, q, rch, hr, o, hist>>

\* the environment's share of the sender's steps, by the names DESIGN 4.6 uses
WriteFails == Write(FALSE)                                                \* the socket write of this send fails
BudgetDenied == SendAttempt /\ ~(closed /\ Variant # "noclosedck") /\ s'.pc \in {"done", "budget"}  \* the limiter refuses / blocks

-----------------------------------------------------------------------------
Decs == IF Gen THEN {"short", "long"} ELSE {"short"}

QueryStep == Call \/ SelReply \/ SelCtx \/ SelSendErr \/ CancelSend \/ Join
             \/ \E c \in Results, w \in 0..4 : Return(c, w)
SenderStep == SendAttempt \/ TokenArrives \/ (\E ok \in BOOLEAN : Write(ok)) \/ DelayCall
              \/ (\E d \in Decs : DelayRet(d)) \/ SenderCtxExit \/ FinalTimeout
EnvStep == Close \/ CancelCtx \/ EnvReply

Next == QueryStep \/ SenderStep \/ HRPush \/ TimerFire \/ EnvStep

Fairness == /\ WF_vars(QueryStep) /\ WF_vars(SenderStep) /\ WF_vars(HRPush) /\ WF_vars(TimerFire)

-----------------------------------------------------------------------------
\* C14 on the process state

TypeOK == /\ q.pc \in {"idle", "select", "cancel", "join", "dereg", "returned"}
          /\ s.pc \in {"none", "wait", "write", "dcall", "delay", "final", "budget", "done"}
          /\ timer \in {"none", "armed", "long", "fired"}
          /\ serr \in Results \cup {"none"} /\ rch \in {0, 1} /\ hr \in {"none", "pushing", "done"}

\* at Return: no pending transaction, the sender has finished, the result is one of the four
ReturnClean == q.pc = "returned" => /\ ~txn
                                    /\ s.pc = "done"
                                    /\ q.res \in Results
SendsBound == s.i <= cfg.n /\ s.w <= cfg.n /\ o.begun <= cfg.n
ResultJustified ==
  q.pc = "returned" =>
    /\ q.res = "reply" => o.delivered
    /\ q.res = "ctxErr" => ctx
    /\ q.res = "timeout" => s.w = cfg.n /\ s.fin
    /\ q.res = "sendErr" => (o.werr \/ closed \/ (cfg.budget # -1 /\ s.w >= cfg.budget))
\* a query started after Close hands nothing to the socket and fails
ClosedNoSend == o.preClosed => /\ o.begun = 0 /\ s.w = 0
                               /\ q.pc = "returned" => q.res \in {"sendErr", "ctxErr"}
NoLateSend == ~o.late

Returns == <>(q.pc = "returned")
Quiesces == <>[](Quiet /\ ~txn)

-----------------------------------------------------------------------------
\* C14 on the observer: what a harness sees at the PacketConn, in QueryResendDelay, at the API
\* and in Stats()/the goroutine scan.  Checked on the design by the exhaustive runs and on the
\* real code by the trace validator.

ObsSendsBound == o.begun <= cfg.n
ObsJoined == o.returned => ~o.parkedAtRet
ObsNoLateSend == ~o.late
ObsClosedNoSend == o.preClosed => /\ o.begun = 0
                                  /\ o.returned => (o.class \in {"sendErr", "ctxErr"} /\ o.rw = 0)
ObsResult ==
  o.returned =>
    /\ o.class \in Results
    /\ o.class = "reply" => o.delivered
    /\ o.class = "ctxErr" => o.cancelled
    /\ o.class = "timeout" => (o.wok = cfg.n /\ o.lastDec = "short")
    /\ o.class = "sendErr" => (o.werr \/ o.shut \/ (cfg.budget # -1 /\ o.wok >= cfg.budget))
ObsWrites == o.returned => o.rw = o.wok
=============================================================================
