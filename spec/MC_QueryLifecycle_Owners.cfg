CONSTANTS
 Owner = "Announce"
 NQ = 2
 StopOnStartErr = TRUE
 WatchCtx = TRUE
SPECIFICATION FairSpec
INVARIANTS TypeOK StopBeforeReturn ResultJustified
PROPERTIES Returns RefreshReturns EndsClean
CHECK_DEADLOCK FALSE
