CONSTANTS
 Procs = {"w"}
 Atomic = TRUE
 Gen = TRUE
 Keys = {"k1", "k2"}
 Salts = {"s0", "s64", "s65"}
 Vals = {"v2", "v1000", "v1001"}
 Seqs = {0, 1, 2, 3}
 Cass = {0}
 SigClasses = {"ok", "osalt", "oseq", "oval", "okey", "garbage"}
 Immutables = TRUE
 Putters = {"w"}
 Getters = {"w"}
 MaxOps = 3
 InitSeqs = {}
 Expiry = FALSE
 GetSeqs = FALSE
 Sched = FALSE
SPECIFICATION Spec
VIEW View
INVARIANTS StoredOK RightTarget RejectedPutCode ValidNotRefused ServeOnlyStored SeqRule RejectedUnchanged AcceptedStored AcceptedServed ExpiredNotServed GetSeqRule NoSeqDecrease NoEqualSeqOverwrite NoCasRace NoFreshDelete
PROPERTIES SeqForwardMC
CHECK_DEADLOCK FALSE
