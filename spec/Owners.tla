------------------------------ MODULE Owners ------------------------------
(***************************************************************************)
(* Second part of the lifecycle family (C14): the OWNERS of a traversal -   *)
(* Server.BootstrapContext (bootstrap.go), Server.AnnounceTraversal with   *)
(* its finisher goroutine and the unbuffered Peers channel (announce.go),  *)
(* getput.Get / getput.Put (exts/getput/getput.go) and the bucket refresh  *)
(* of the table maintainer (server.go refreshBucket) - as small processes  *)
(* over an abstract traversal.Operation:                                   *)
(*   started -> [starting nodes ok | error] -> running -> stalled / ctx /  *)
(*   Close -> Stop -> stopped.                                             *)
(* The traversal is abstract: NQ queries that the run loop may start, each *)
(* of which ends (QueryLifecycle: every query returns), possibly with a    *)
(* value that its DoQuery callback hands to a consumer over an unbuffered  *)
(* channel (Announce.Peers, getput's vChan); Stop() marks the operation    *)
(* stopping, cancels the query contexts and a stopper goroutine marks it   *)
(* stopped once no query is in flight; the run loop exits when stopping.   *)
(*                                                                         *)
(* C14: on every exit path the operation reaches `stopped` and every       *)
(* spawned process `done` (EndsClean), and the blocking owners return.     *)
(* Two flags describe what the code does today (DESIGN section 8, items 8  *)
(* and 10); with the flags FALSE the model reproduces both defects.        *)
(***************************************************************************)
EXTENDS Integers, FiniteSets, TLC

CONSTANTS
  Owner,           \* "Bootstrap" | "Announce" | "Get" | "Put" | "Refresh"
  NQ,              \* queries the lookup can make
  StopOnStartErr,  \* TRUE: the owner stops the traversal when the starting nodes cannot be had
  WatchCtx         \* TRUE: Announce.getPeers also gives up handing over a reply when its query context is done

Blocking == Owner # "Announce"
HonoursCtx == Owner \in {"Announce", "Get", "Put"}   \* DoQuery passes its context on (FindNode does not)
HandsOver == Owner \in {"Announce", "Get", "Put"}    \* DoQuery may block on an unbuffered channel
Q == 1..NQ

VARIABLES
  own,      \* the owner: [pc, class]
  op,       \* traversal.Operation: "none" | "running" | "stopping" | "stopped"
  runl,     \* its run goroutine: "none" | "live" | "done"
  added,    \* AddNodes has been called
  tq,       \* [Q -> "unq" | "fly" | "deliver" | "done"]
  uctx,     \* the caller's context is cancelled
  sclosed,  \* Server.Close
  aclosed,  \* Announce.Close (closed.Set())
  cons,     \* the reader of Announce.Peers: "reading" | "gone"
  fin,      \* Announce's finisher goroutine: "none" | "stalled?" | "stopped?" | "announcing" | "done"
  sub,      \* the announce_peer / put query made after the traversal: "none" | "fly" | "done"
  o         \* observer (what a harness can log at the API): see ObsInit

vars == <<own, op, runl, added, tq, uctx, sclosed, aclosed, cons, fin, sub, o>>

ObsInit == [sn |-> "ok", called |-> FALSE, returned |-> FALSE, class |-> "none", cancelled |-> FALSE,
            shut |-> FALSE, stopReq |-> FALSE, consGone |-> FALSE]

Init ==
  /\ own = [pc |-> "idle", class |-> "none"]
  /\ op = "none" /\ runl = "none" /\ added = FALSE
  /\ tq = [i \in Q |-> "unq"]
  /\ uctx = FALSE /\ sclosed = FALSE /\ aclosed = FALSE /\ cons = "reading"
  /\ fin = "none" /\ sub = "none"
  /\ o = ObsInit

InFlight == {i \in Q : tq[i] \in {"fly", "deliver"}}
Stopping == op \in {"stopping", "stopped"}
\* the run loop offers "stalled" (nothing in flight, nothing to start); once it has exited the
\* channel is closed and every receive succeeds
StalledRecv == \/ runl = "done"
               \/ runl = "live" /\ op = "running" /\ InFlight = {} /\ (~added \/ \A i \in Q : tq[i] # "unq")
\* Operation.Stop(): idempotent
DoStop == op' = IF op = "running" THEN "stopping" ELSE op

-----------------------------------------------------------------------------
\* the abstract traversal

RunStart(i) ==
  /\ runl = "live" /\ op = "running" /\ added /\ tq[i] = "unq"
  /\ tq' = [tq EXCEPT ![i] = "fly"]
  /\ UNCHANGED <<own, op, runl, added, uctx, sclosed, aclosed, cons, fin, sub, o>>

RunExit ==
  /\ runl = "live" /\ Stopping
  /\ runl' = "done"
  /\ UNCHANGED <<own, op, added, tq, uctx, sclosed, aclosed, cons, fin, sub, o>>

\* the server query inside DoQuery returns: reply, time-out, send error or (if the callback passes
\* its context on) cancellation.  With a reply the callback may have something to hand over.
QueryEnds(i) ==
  /\ tq[i] = "fly"
  /\ \E give \in BOOLEAN :
       tq' = [tq EXCEPT ![i] = IF give /\ HandsOver THEN "deliver" ELSE "done"]
  /\ UNCHANGED <<own, op, runl, added, uctx, sclosed, aclosed, cons, fin, sub, o>>

\* Announce.getPeers: select { a.Peers <- v ; <-a.traversal.Stopped() [; <-ctx.Done()] }
AnnDeliver(i) ==
  /\ Owner = "Announce" /\ tq[i] = "deliver"
  /\ \/ cons = "reading"
     \/ op = "stopped"
     \/ WatchCtx /\ Stopping
  /\ tq' = [tq EXCEPT ![i] = "done"]
  /\ UNCHANGED <<own, op, runl, added, uctx, sclosed, aclosed, cons, fin, sub, o>>

\* getput: select { vChan <- v ; <-ctx.Done() } - the context is the query's, cancelled by Stop
GetGiveUp(i) ==
  /\ Owner \in {"Get", "Put"} /\ tq[i] = "deliver" /\ Stopping
  /\ tq' = [tq EXCEPT ![i] = "done"]
  /\ UNCHANGED <<own, op, runl, added, uctx, sclosed, aclosed, cons, fin, sub, o>>

\* the goroutine started by Stop(): waits until no query is in flight
StopperDone ==
  /\ op = "stopping" /\ InFlight = {}
  /\ op' = "stopped"
  /\ UNCHANGED <<own, runl, added, tq, uctx, sclosed, aclosed, cons, fin, sub, o>>

-----------------------------------------------------------------------------
\* the owners

Call ==
  /\ own.pc = "idle"
  /\ op' = "running" /\ runl' = "live"              \* traversal.Start
  /\ own' = [own EXCEPT !.pc = "nodes"]
  /\ o' = [o EXCEPT !.called = TRUE]
  /\ UNCHANGED <<added, tq, uctx, sclosed, aclosed, cons, fin, sub>>

Ret(class) == own' = [pc |-> "returned", class |-> class] /\ o' = [o EXCEPT !.returned = TRUE, !.class = class]

\* Server.TraversalStartingNodes(): table, else the resolver; error if both give nothing
Nodes(res) ==
  /\ own.pc = "nodes"
  /\ Owner = "Refresh" => res = "ok"                \* the refresh feeds the table's nodes, no resolver
  /\ IF res = "ok"
     THEN /\ added' = TRUE
          /\ IF Owner = "Announce"
             THEN fin' = "stalled?" /\ Ret("ok")     \* the *Announce is handed back at once
             ELSE own' = [own EXCEPT !.pc = "wait"] /\ UNCHANGED <<fin, o>>
          /\ UNCHANGED op
     ELSE /\ IF StopOnStartErr \/ Owner = "Announce" THEN DoStop ELSE UNCHANGED op
          /\ own' = [pc |-> "returned", class |-> "startErr"]
          /\ o' = [o EXCEPT !.returned = TRUE, !.class = "startErr", !.sn = "err"]
          /\ UNCHANGED <<added, fin>>
  /\ UNCHANGED <<runl, tq, uctx, sclosed, aclosed, cons, sub>>

\* the owner's select
WaitStalled ==
  /\ own.pc = "wait" /\ StalledRecv
  /\ own' = [pc |-> "stop", class |-> "ok"]
  /\ UNCHANGED <<op, runl, added, tq, uctx, sclosed, aclosed, cons, fin, sub, o>>

WaitCtx ==
  /\ own.pc = "wait" /\ Owner \in {"Bootstrap", "Get", "Put"} /\ uctx
  /\ own' = [pc |-> "stop", class |-> "ctxErr"]
  /\ UNCHANGED <<op, runl, added, tq, uctx, sclosed, aclosed, cons, fin, sub, o>>

WaitClosed ==
  /\ own.pc = "wait" /\ Owner = "Refresh" /\ sclosed
  /\ own' = [pc |-> "stop", class |-> "ok"]
  /\ UNCHANGED <<op, runl, added, tq, uctx, sclosed, aclosed, cons, fin, sub, o>>

\* getput: the owner receives a value; Get stops at the first immutable one, otherwise goes on
WaitValue(i) ==
  /\ own.pc = "wait" /\ Owner \in {"Get", "Put"} /\ tq[i] = "deliver"
  /\ tq' = [tq EXCEPT ![i] = "done"]
  /\ \E last \in BOOLEAN : own' = IF last /\ Owner = "Get" THEN [pc |-> "stop", class |-> "ok"] ELSE own
  /\ UNCHANGED <<op, runl, added, uctx, sclosed, aclosed, cons, fin, sub, o>>

OwnerStop ==
  /\ own.pc = "stop"
  /\ DoStop
  /\ CASE Owner = "Bootstrap" /\ own.class = "ctxErr" -> Ret("ctxErr") /\ UNCHANGED sub
       [] Owner \in {"Bootstrap", "Refresh"} -> own' = [own EXCEPT !.pc = "stopped?"] /\ UNCHANGED <<o, sub>>
       [] Owner = "Get" -> Ret(own.class) /\ UNCHANGED sub
       [] Owner = "Put" -> own' = [own EXCEPT !.pc = "puts"] /\ sub' = "fly" /\ UNCHANGED o
  /\ UNCHANGED <<runl, added, tq, uctx, sclosed, aclosed, cons, fin>>

OwnerStopped ==
  /\ own.pc = "stopped?" /\ op = "stopped"
  /\ Ret(own.class)
  /\ UNCHANGED <<op, runl, added, tq, uctx, sclosed, aclosed, cons, fin, sub>>

\* the put / announce_peer query ends (reply, time-out, context)
SubEnds ==
  /\ sub = "fly"
  /\ sub' = "done"
  /\ UNCHANGED <<own, op, runl, added, tq, uctx, sclosed, aclosed, cons, fin, o>>

PutsDone ==
  /\ own.pc = "puts" /\ sub = "done"
  /\ Ret(own.class)
  /\ UNCHANGED <<op, runl, added, tq, uctx, sclosed, aclosed, cons, fin, sub>>

\* Announce's finisher: <-Stalled(); Stop(); <-Stopped(); announceClosest(); peerAnnounced.Set(); close(Peers)
FinStalled ==
  /\ fin = "stalled?" /\ StalledRecv
  /\ DoStop /\ fin' = "stopped?"
  /\ UNCHANGED <<own, runl, added, tq, uctx, sclosed, aclosed, cons, sub, o>>

FinStopped ==
  /\ fin = "stopped?" /\ op = "stopped"
  /\ \E announce \in BOOLEAN : IF announce THEN fin' = "announcing" /\ sub' = "fly" ELSE fin' = "done" /\ UNCHANGED sub
  /\ UNCHANGED <<own, op, runl, added, tq, uctx, sclosed, aclosed, cons, o>>

FinAnnounced ==
  /\ fin = "announcing" /\ sub = "done"
  /\ fin' = "done"
  /\ UNCHANGED <<own, op, runl, added, tq, uctx, sclosed, aclosed, cons, sub, o>>

-----------------------------------------------------------------------------
\* the user and the rest of the world

CancelCtx ==
  /\ ~uctx /\ Owner \in {"Bootstrap", "Get", "Put"}
  /\ uctx' = TRUE /\ o' = [o EXCEPT !.cancelled = TRUE]
  /\ UNCHANGED <<own, op, runl, added, tq, sclosed, aclosed, cons, fin, sub>>

SrvClose ==
  /\ ~sclosed
  /\ sclosed' = TRUE /\ o' = [o EXCEPT !.shut = TRUE]
  /\ UNCHANGED <<own, op, runl, added, tq, uctx, aclosed, cons, fin, sub>>

AnnClose ==
  /\ Owner = "Announce" /\ own.pc = "returned" /\ own.class = "ok" /\ ~aclosed
  /\ DoStop /\ aclosed' = TRUE /\ o' = [o EXCEPT !.stopReq = TRUE]
  /\ UNCHANGED <<own, runl, added, tq, uctx, sclosed, cons, fin, sub>>

StopTraversing ==
  /\ Owner = "Announce" /\ own.pc = "returned" /\ own.class = "ok" /\ ~o.stopReq
  /\ DoStop /\ o' = [o EXCEPT !.stopReq = TRUE]
  /\ UNCHANGED <<own, runl, added, tq, uctx, sclosed, aclosed, cons, fin, sub>>

ConsGone ==
  /\ Owner = "Announce" /\ cons = "reading"
  /\ cons' = "gone" /\ o' = [o EXCEPT !.consGone = TRUE]
  /\ UNCHANGED <<own, op, runl, added, tq, uctx, sclosed, aclosed, fin, sub>>

-----------------------------------------------------------------------------
Internal == \/ Call \/ (\E r \in {"ok", "err"} : Nodes(r)) \/ WaitStalled \/ WaitCtx \/ WaitClosed
            \/ (\E i \in Q : WaitValue(i)) \/ OwnerStop \/ OwnerStopped \/ SubEnds \/ PutsDone
            \/ FinStalled \/ FinStopped \/ FinAnnounced
            \/ (\E i \in Q : RunStart(i) \/ QueryEnds(i) \/ AnnDeliver(i) \/ GetGiveUp(i))
            \/ RunExit \/ StopperDone
Env == CancelCtx \/ SrvClose \/ AnnClose \/ StopTraversing \/ ConsGone
Next == Internal \/ Env

\* every goroutine that can move does (queries end: QueryLifecycle.Returns); nothing is assumed
\* about the user or the reader of Peers
Fairness == /\ WF_vars(Call) /\ WF_vars(\E r \in {"ok", "err"} : Nodes(r))
            /\ WF_vars(WaitStalled \/ WaitCtx \/ WaitClosed) /\ WF_vars(\E i \in Q : WaitValue(i))
            /\ WF_vars(OwnerStop) /\ WF_vars(OwnerStopped) /\ WF_vars(SubEnds) /\ WF_vars(PutsDone)
            /\ WF_vars(FinStalled) /\ WF_vars(FinStopped) /\ WF_vars(FinAnnounced)
            /\ \A i \in Q : WF_vars(RunStart(i)) /\ WF_vars(QueryEnds(i)) /\ WF_vars(AnnDeliver(i)) /\ WF_vars(GetGiveUp(i))
            /\ WF_vars(RunExit) /\ WF_vars(StopperDone)
Spec == Init /\ [][Next]_vars
FairSpec == Spec /\ Fairness

-----------------------------------------------------------------------------
\* C14

Clean == /\ runl \in {"none", "done"} /\ op \in {"none", "stopped"}
         /\ \A i \in Q : tq[i] \in {"unq", "done"}
         /\ fin \in {"none", "done"} /\ sub \in {"none", "done"}

\* when the operation owes its end, judged from what the API user did and saw alone: a blocking
\* owner always (the refresh: once the server is closed); an announce once it failed to start, was
\* closed / told to stop traversing, or as long as its Peers are being read
MustEndFor(kind, b) == CASE kind \in {"Bootstrap", "Get", "Put"} -> TRUE
                         [] kind = "Refresh" -> b.shut
                         [] kind = "Announce" -> b.class = "startErr" \/ b.stopReq \/ ~b.consGone
MustEnd(b) == MustEndFor(Owner, b)

TypeOK == /\ op \in {"none", "running", "stopping", "stopped"} /\ runl \in {"none", "live", "done"}
          /\ \A i \in Q : tq[i] \in {"unq", "fly", "deliver", "done"}
          /\ fin \in {"none", "stalled?", "stopped?", "announcing", "done"} /\ sub \in {"none", "fly", "done"}
\* an owner never returns leaving the operation running
StopBeforeReturn == (own.pc = "returned" /\ (Blocking \/ own.class = "startErr")) => Stopping
ResultJustified == own.pc = "returned" => /\ own.class = "ctxErr" => uctx
                                          /\ (own.class = "startErr") = (o.sn = "err")
\* liveness
Returns == Owner \in {"Bootstrap", "Get", "Put"} => <>(own.pc = "returned")
RefreshReturns == Owner = "Refresh" => (sclosed ~> own.pc = "returned")
EndsClean == /\ Blocking => ((own.pc = "returned") ~> Clean)
             /\ (Owner = "Announce") => /\ (o.class = "startErr" \/ o.stopReq) ~> Clean
                                        /\ <>(cons = "gone") \/ <>Clean
=============================================================================
