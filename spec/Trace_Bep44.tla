---------------------------- MODULE Trace_Bep44 ----------------------------
(***************************************************************************)
(* Trace validator for the BEP 44 store path of the real code: bep44.Wrapper*)
(* over the harness's recording / gating bep44.Store (wrapper mode), and   *)
(* the put/get handlers and Server.Put of a real dht.Server (wire mode).   *)
(* Every line of trace.ndjson is one step of Bep44Store's actions with the *)
(* logged arguments; the state follows what the code did (Gen = FALSE) and *)
(* Bep44Store's invariants judge it after every line.  A "Reset" line      *)
(* starts a new segment with an empty store.                               *)
(***************************************************************************)
EXTENDS Bep44Store, Json

VARIABLES l     \* next line of the trace
tvars == <<vars, l>>

TraceLog == ndJsonDeserialize("trace.ndjson")
Ev == TraceLog[l]
IsEvent(e) == l <= Len(TraceLog) /\ Ev.e = e /\ l' = l + 1
IsEvent2(e, f) == l <= Len(TraceLog) /\ Ev.e \in {e, f} /\ l' = l + 1

Fresh == /\ store = <<>> /\ proc = [p \in Procs |-> Idle] /\ lock = "free" /\ bad = {}
TraceInit == l = 1 /\ Fresh

TraceReset ==
  /\ IsEvent("Reset")
  /\ store' = <<>> /\ proc' = [p \in Procs |-> Idle] /\ lock' = "free" /\ bad' = {}

\* Wrapper.Put / Server.Put entered, or a put datagram handed to the socket
TracePutBegin == IsEvent2("PutBegin", "WirePut") /\ PutCall(Ev.p, Ev.item, 0)
TraceGetBegin == IsEvent2("GetBegin", "WireGet") /\ GetCall(Ev.p, Ev.t, Ev.hasseq, Ev.seqarg)
\* calls of the underlying store, logged by the store itself when the call completes
TraceStoreGet == IsEvent("StoreGet") /\ StoreGet(Ev.p, Ev.t, Ev.res, 0)
TraceStorePut == IsEvent("StorePut") /\ StorePut(Ev.p, Ev.item, Ev.t)
TraceStoreDel == IsEvent("StoreDel") /\ StoreDel(Ev.p, Ev.t)
\* results: return value of the API call, or the reply datagram decoded by the harness
TracePutEnd == IsEvent2("PutEnd", "WirePutReply") /\ PutReturn(Ev.p, Ev.code)
TraceGetEnd == IsEvent2("GetEnd", "WireGetReply") /\ GetReturn(Ev.p, Ev.rep)
\* the harness aged the item stored under t (hook VerifAge); expired: beyond the configured expiry
TraceAge ==
  /\ IsEvent("Age")
  /\ IF Ev.expired /\ Stored(Ev.t) /\ ~Lookup(Ev.t).old THEN Expire(Ev.t) ELSE UNCHANGED vars
\* harness bookkeeping (schedule attempts, summaries); no step of the specification
TraceNote == IsEvent("Note") /\ UNCHANGED vars

TraceNext == \/ TraceReset \/ TracePutBegin \/ TraceGetBegin \/ TraceStoreGet \/ TraceStorePut \/ TraceStoreDel
             \/ TracePutEnd \/ TraceGetEnd \/ TraceAge \/ TraceNote

TraceSpec == TraceInit /\ [][TraceNext]_tvars

\* ---- report mode (Trace_Bep44_report.cfg): instead of stopping at the first violated invariant, every
\* line after which an invariant is false is printed, so that one pass classifies all segments
F(name, ok) == IF ok THEN {} ELSE {name}
Findings == F("StoredOK", StoredOK) \cup F("RightTarget", RightTarget) \cup F("RejectedPutCode", RejectedPutCode)
            \cup F("ValidNotRefused", ValidNotRefused) \cup F("ServeOnlyStored", ServeOnlyStored)
            \cup F("SeqRule", SeqRule) \cup F("RejectedUnchanged", RejectedUnchanged)
            \cup F("AcceptedStored", AcceptedStored) \cup F("AcceptedServed", AcceptedServed)
            \cup F("ExpiredNotServed", ExpiredNotServed) \cup F("GetSeqRule", GetSeqRule)
            \cup F("NoSeqDecrease", NoSeqDecrease) \cup F("NoEqualSeqOverwrite", NoEqualSeqOverwrite)
            \cup F("NoCasRace", NoCasRace) \cup F("NoFreshDelete", NoFreshDelete)
Report == Findings = {} \/ PrintT(<<"FINDING", l - 1, Findings>>)

\* ---- acceptance: the whole file was consumed
HW == TLCSet(1, IF TLCGet(1) < l THEN l ELSE TLCGet(1))
Accepted == IF TLCGet(1) = Len(TraceLog) + 1 THEN TRUE
            ELSE PrintT(<<"REJECTED_AT", TLCGet(1)>>) /\ FALSE
ASSUME TLCSet(1, 0)
=============================================================================
