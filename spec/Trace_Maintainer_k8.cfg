CONSTANTS
 Contacts = {"c1","c2","c3","c4","c5","c6","c7","c8","c9","c10","c11","c12"}
 K = 8
 NB = 160
 BucketOf <- TBucketOf
 MaxPingSends = 3
 Alpha = 3
 HoldWhileWaiting = FALSE
SPECIFICATION TraceSpec
INVARIANTS TypeOK LockOK TableOK NoOrphans FanOut PingScope
CONSTRAINT HW
POSTCONDITION Accepted
CHECK_DEADLOCK FALSE
