---------------------------- MODULE Gen_Traversal ----------------------------
(* TLC as schedule generator for the traversal family (spec -> code direction of the binding).

   The model is MC_Traversal with GenHist = TRUE: the environment actions of a behaviour (seed and late AddNodes,
   the completion of one particular in-flight query, Stop, a consumer starting to wait for "stalled") are collected
   in hist.  Run with `tlc -simulate`, every behaviour that has run to its end - stopped and drained, or stalled with
   nothing in flight - is printed as one schedule together with the response graph it was generated for.
   harness/cmd/trav -scripts replays each schedule on the real traversal.Operation over the same graph (gated DoQuery:
   the schedule, not the Go scheduler, decides which query completes when); the hook events recorded on the way are
   validated by Trace_Traversal like any other trace, so a verdict never rests on the schedule having been followed
   exactly (a step that is not applicable in the state the code reached is skipped and counted).

   Simulation picks uniformly among the enabled steps, which would stop almost every lookup within its first three
   steps; StopAfter delays Stop until the schedule has that many environment steps (a value beyond every schedule's
   length means "never stopped": those behaviours end stalled).  Consumers wait at most twice per behaviour. *)
EXTENDS MC_Traversal

CONSTANT StopAfter

SchedEnded == stopped /\ run.pc = "done" /\ qs = {}
SchedStalled == run.pc = "select" /\ run.offer /\ ~runSig /\ qs = {} /\ learned # {} /\ (late \/ G.late = {})
Waits == Cardinality({i \in DOMAIN hist : hist[i].a = "wait"})

GenNext == /\ ~SchedEnded
           /\ \/ AddSeeds \/ AddLate \/ ReturnE \/ Base(Internal)
              \/ (Len(hist) >= StopAfter /\ StopE)
              \/ (Waits < 2 /\ ConsWaitE)
GenSpec == Init /\ [][GenNext]_mcvars

GraphJson == [addrs |-> G.addrs, net |-> G.net, seeds |-> G.seeds, late |-> G.late, bad |-> G.bad,
              badp |-> {[addr |-> p[1], id |-> p[2]] : p \in G.badp}]
GenOut == IF SchedEnded \/ SchedStalled
          THEN PrintT(<<"SCHED", ToJson([graph |-> Graph, k |-> K, alpha |-> Alpha, target |-> Target,
                                         g |-> GraphJson, hist |-> hist])>>)
          ELSE TRUE
=============================================================================
