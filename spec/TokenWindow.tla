---------------------------- MODULE TokenWindow ----------------------------
(***************************************************************************)
(* The arithmetic behind C10 at one-second grain: a token is the hash of   *)
(* (IP, floor(time / Interval), secret); it is accepted while the current  *)
(* interval index is at most MaxDelta ahead of the one it was made in      *)
(* (tokens.go: interval 5 min, maxIntervalDelta 2).  For every issue       *)
(* instant T against the rotation grid and every use instant U >= T:       *)
(*     U - T <= 600  =>  accepted          (honoured for at least 10 min)  *)
(*     accepted      =>  U - T <  900      (never honoured after 15 min)   *)
(* TLC enumerates all (T, U) with T over two full rotation intervals.      *)
(* The vacuity guards show the constants matter: with MaxDelta = 1 the     *)
(* first law fails, with MaxDelta = 3 the second.                          *)
(***************************************************************************)
EXTENDS Integers

CONSTANTS Interval, MaxDelta
VARIABLES T, U

Accepted == (U \div Interval) - (T \div Interval) <= MaxDelta
Init == T \in 0..(2 * Interval - 1) /\ U = T
Next == U < T + 4 * Interval /\ U' = U + 1 /\ UNCHANGED T
Spec == Init /\ [][Next]_<<T, U>>

HonouredTenMinutes == (U - T <= 600) => Accepted
DeadAfterFifteen == Accepted => (U - T < 900)
=============================================================================
