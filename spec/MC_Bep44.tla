---------------------------- MODULE MC_Bep44 ----------------------------
(***************************************************************************)
(* Exhaustive instances of Bep44Store.                                     *)
(*  - sequential: one caller loops over the whole put alphabet (keys x     *)
(*    salts and salt sizes x seq x cas x values and value sizes x          *)
(*    signature classes, plus immutable items) and gets (with and without  *)
(*    a sequence number), with items expiring in between;                  *)
(*  - concurrent: 2-3 putters and an expiring getter, one operation each   *)
(*    on one target, every interleaving at store-call granularity, with    *)
(*    (Atomic) and without (racy variant) the wrapper lock;                *)
(*  - schedule generator: the racy concurrent model with the order of      *)
(*    store calls kept in hist; every complete behaviour is printed as one *)
(*    JSON line (the attack schedules tried on the real wrapper).          *)
(* cfg text is generated in lib/fam_bep44.py; MC_Bep44_seq.cfg and         *)
(* MC_Bep44_conc.cfg are examples for running TLC by hand.                 *)
(***************************************************************************)
EXTENDS Bep44Store, Json

CONSTANTS
  Keys, Salts, Vals,     \* names; sizes below
  Seqs, Cass,            \* sequence numbers and CAS values of incoming puts
  SigClasses,            \* subset of {"ok","osalt","oseq","oval","okey","garbage"}
  Immutables,            \* TRUE: immutable puts/gets are part of the alphabet
  Putters, Getters,      \* subsets of Procs
  MaxOps,                \* operations per caller; 0 = unbounded
  InitSeqs,              \* the store starts empty or with one valid item (first key/salt) with one of these seq
  Expiry,                \* TRUE: stored items may expire at any time
  GetSeqs,               \* TRUE: gets may name a sequence number
  Sched                  \* TRUE: schedule generator (canonical order of the non-store steps, hist recorded)

VARIABLES ops,           \* operations begun per caller
          hist, init0    \* schedule generator only

mcvars == <<vars, ops, hist, init0>>

SSize(s) == CASE s = "s0" -> 0 [] s = "s1" -> 1 [] s = "s64" -> 64 [] s = "s65" -> 65 [] s = "s200" -> 200
VSize(v) == CASE v = "v1" -> 1 [] v = "v2" -> 12 [] v = "v999" -> 999 [] v = "v1000" -> 1000
              [] v = "v1001" -> 1001 [] v = "v4000" -> 4000

SigOf(k, s, q, v, sc) ==
  CASE sc = "ok" -> <<k, s, q, v>>
    [] sc = "osalt" -> <<k, "sx", q, v>>       \* valid for another salt
    [] sc = "oseq" -> <<k, s, q + 1, v>>       \* valid for another sequence number
    [] sc = "oval" -> <<k, s, q, "vx">>        \* valid for another value
    [] sc = "okey" -> <<"kx", s, q, v>>        \* made with another key
    [] sc = "garbage" -> <<"garbage", "", 0, "">>

Mut(k, s, q, c, v, sc) == [nil |-> FALSE, mut |-> TRUE, key |-> k, salt |-> s, ssize |-> SSize(s), seq |-> q,
                           cas |-> c, val |-> v, vsize |-> VSize(v), sig |-> SigOf(k, s, q, v, sc), old |-> FALSE]
Imm(q, c, v) == [nil |-> FALSE, mut |-> FALSE, key |-> "", salt |-> "", ssize |-> 0, seq |-> q, cas |-> c,
                 val |-> v, vsize |-> VSize(v), sig |-> <<"none", "", 0, "">>, old |-> FALSE]

PutAlphabet == {Mut(k, s, q, c, v, sc) : k \in Keys, s \in Salts, q \in Seqs, c \in Cass, v \in Vals, sc \in SigClasses}
               \cup (IF Immutables THEN {Imm(q, 0, v) : q \in {0, 1} \cap Seqs, v \in Vals} ELSE {})
Targets == {<<"m", k, s>> : k \in Keys, s \in Salts} \cup (IF Immutables THEN {<<"i", v, "">> : v \in Vals} ELSE {})

K0 == CHOOSE k \in Keys : TRUE
S0 == CHOOSE s \in Salts : SSize(s) <= 64
V0 == CHOOSE v \in Vals : VSize(v) <= 1000
InitStores == {<<>>} \cup {(<<"m", K0, S0>> :> [Mut(K0, S0, q, 0, V0, "ok") EXCEPT !.old = o]) :
                            q \in InitSeqs, o \in (IF Expiry \/ Sched THEN BOOLEAN ELSE {FALSE})}

Init == /\ store \in InitStores
        /\ proc = [p \in Procs |-> Idle]
        /\ lock = "free" /\ bad = {}
        /\ ops = [p \in Procs |-> 0]
        /\ hist = <<>> /\ init0 = store

MayBegin(p) == MaxOps = 0 \/ ops[p] < MaxOps
Count(p) == ops' = IF MaxOps = 0 THEN ops ELSE [ops EXCEPT ![p] = @ + 1]
\* schedule generator: calls first and in a fixed order of callers, returns as soon as possible
AllBegun == \A q \in Procs : ops[q] = MaxOps
NoFin == \A q \in Procs : proc[q].pc # "fin"
Rank(p) == CASE p = "p1" -> 1 [] p = "p2" -> 2 [] p = "p3" -> 3 [] p = "g" -> 4 [] OTHER -> 5
CallTurn(p) == Sched => \A q \in Procs : (Rank(q) < Rank(p)) => ops[q] = MaxOps
StoreTurn == Sched => AllBegun /\ NoFin
Rec(p) == hist' = IF Sched THEN Append(hist, p) ELSE hist

Begin(p) ==
  /\ MayBegin(p) /\ CallTurn(p)
  /\ \/ p \in Putters /\ \E i \in PutAlphabet : \E c \in (IF CheckOK(i) THEN {0} ELSE CheckCodes(i)) : PutCall(p, i, c)
     \/ p \in Getters /\ \E t \in Targets, hs \in (IF GetSeqs THEN BOOLEAN ELSE {FALSE}) :
           \E sa \in (IF hs THEN Seqs ELSE {0}) : GetCall(p, t, hs, sa)
  /\ Count(p) /\ UNCHANGED <<hist, init0>>

StoreStep(p) ==
  /\ StoreTurn
  /\ \/ \E d \in {0, 301, 302} : StoreGet(p, proc[p].tgt, Lookup(proc[p].tgt), d)
     \/ StorePut(p, proc[p].item, Target(proc[p].item))
     \/ StoreDel(p, proc[p].tgt)
  /\ Rec(p) /\ UNCHANGED <<ops, init0>>

End(p) == /\ (PutReturn(p, proc[p].dec) \/ GetReturn(p, proc[p].rep))
          /\ UNCHANGED <<ops, hist, init0>>

Age == /\ Expiry /\ \E t \in DOMAIN store : Expire(t)
       /\ UNCHANGED <<ops, hist, init0>>

Next == (\E p \in Procs : Begin(p) \/ StoreStep(p) \/ End(p)) \/ Age
Spec == Init /\ [][Next]_mcvars

View == <<vars, ops>>

\* the property as the statement puts it (checked as an action property where Atomic = TRUE)
SeqForwardMC == [][SeqForwardStep]_mcvars

\* schedule generator: one line per complete behaviour
Complete == AllBegun /\ \A q \in Procs : proc[q].pc = "ret"
Slim(i) == [nil |-> i.nil, seq |-> i.seq, cas |-> i.cas, val |-> i.val, old |-> i.old]
EmitSchedules == Complete =>
  PrintT(<<"SCHED", ToJson([init |-> Slim(IF init0 = <<>> THEN NoItem ELSE init0[<<"m", K0, S0>>]),
                            ops |-> [q \in Procs |-> [op |-> proc[q].op, item |-> Slim(proc[q].item)]],
                            order |-> hist,
                            bad |-> {b.k : b \in bad}])>>)
=============================================================================
