------------------------- MODULE MC_QueryLifecycle -------------------------
(* Exhaustive / generator instance of QueryLifecycle: every NumTries in NSet, every limiter budget
   (none, or refusing / blocking from send b+1 on), every placement of reply, cancellation, Close,
   write failure and timer expiry. *)
EXTENDS QueryLifecycle, Json

CONSTANTS NSet,      \* set of NumTries values
          Budgets    \* TRUE: also the limiter configurations

MCCfgs == {[n |-> n, budget |-> -1, bwait |-> FALSE] : n \in NSet}
          \cup (IF Budgets
                THEN {[n |-> n, budget |-> b, bwait |-> w] : n \in NSet, b \in 0..2, w \in BOOLEAN}
                ELSE {})

MCInit == \E c \in {x \in MCCfgs : x.budget < x.n} : InitWith(c)

Spec == MCInit /\ [][Next]_vars
FairSpec == Spec /\ Fairness

\* generator: print the history of every finished behaviour (python collects the distinct ones)
GenOut == IF Gen /\ Quiet
          THEN PrintT(<<"SCRIPT", ToJson([cfg |-> cfg, hist |-> hist])>>)
          ELSE TRUE
=============================================================================
