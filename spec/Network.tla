---------------------------- MODULE Network ----------------------------
(***************************************************************************)
(* Composition: N nodes, each with its own routing table (an instance of   *)
(* RoutingTable with that node's ID as root), connected by a wire that may *)
(* delay, reorder, duplicate and drop datagrams, plus an adversary that    *)
(* injects responses nobody asked for.  Nodes ping and find_node each      *)
(* other; every delivered datagram is the RecvQuery / RecvResp event of    *)
(* RoutingTable!Apply at the receiver, and every find_node reply lists the *)
(* contacts RoutingTable's selection rule allows at that instant.          *)
(*                                                                         *)
(* What the composition adds to the per-node specifications:               *)
(*   Provenance   a node is in n's table only if it really sent n a query  *)
(*                or really answered one of n's own queries (C06 end to    *)
(*                end: no hearsay through node lists, no spoofed response) *)
(*   Hearsay      what a reply lists was good at the responder when the    *)
(*                reply was made, and never the responder itself (C09)     *)
(*   NoSelf       no table ever holds its owner                            *)
(* The network scenario of the harness (srv -mode net) produces, per node, *)
(* exactly the projection of such a behaviour: its RoutingTable trace      *)
(* (Trace_RoutingTable) and its KRPC boundary trace (Trace_KrpcNet).       *)
(***************************************************************************)
EXTENDS Integers, FiniteSets, Sequences, TLC

CONSTANTS Nodes,      \* node names, also used as IDs and addresses
          K,          \* bucket size
          MaxMsgs     \* bound on datagrams ever put on the wire (model checking only)

VARIABLES tables,     \* [Nodes -> set of table entries]
          wire,       \* datagrams in flight: set of [from, to, y, t, nodes]
          pend,       \* [Nodes -> set of <<dst, t>>] own queries awaiting a reply
          nextT,      \* transaction-ID counter
          sentQ,      \* history: <<from, to>> for every query really sent
          sentR,      \* history: <<from, to, t>> for every response really sent by a node
          lastReply,  \* history: the last find_node reply made: [by, nodes, goodThen]
          sent        \* number of datagrams put on the wire so far
nvars == <<tables, wire, pend, nextT, sentQ, sentR, lastReply, sent>>

\* all nodes fall into bucket 0 of each other: buckets overflow as soon as there are more than K peers
Bucket(n, m) == 0
RT(n) == INSTANCE RoutingTable WITH root <- n, nosec <- TRUE, table <- tables[n], Zero <- "zero", NoId <- ""

Sender(n, m) == [id |-> m, addr |-> m, b |-> Bucket(n, m), sec |-> TRUE, fam |-> 4]
Ev(kind, n, m, matched) == [kind |-> kind, s |-> Sender(n, m), ro |-> FALSE, matched |-> matched, drop |-> FALSE]

Init == /\ tables = [n \in Nodes |-> {}] /\ wire = {} /\ pend = [n \in Nodes |-> {}] /\ nextT = 1
        /\ sentQ = {} /\ sentR = {} /\ lastReply = [by |-> "", nodes |-> {}, goodThen |-> {}] /\ sent = 0

\* n sends a query (ping or find_node: the table effects are the same) to m
Query(n, m) ==
  /\ n # m /\ sent < MaxMsgs
  /\ wire' = wire \cup {[from |-> n, to |-> m, y |-> "q", t |-> nextT, nodes |-> {}]}
  /\ pend' = [pend EXCEPT ![n] = @ \cup {<<m, nextT>>}]
  /\ nextT' = nextT + 1 /\ sentQ' = sentQ \cup {<<n, m>>} /\ sent' = sent + 1
  /\ UNCHANGED <<tables, sentR, lastReply>>

\* the good contacts the receiver may list (closestGoodNodeInfos over its single bucket)
GoodKeys(n) == {RT(n)!Key(e) : e \in {x \in tables[n] : RT(n)!Good(x)}}
ReplyLists(n) == {L \in SUBSET GoodKeys(n) :
                    Cardinality(L) = IF Cardinality(GoodKeys(n)) < K THEN Cardinality(GoodKeys(n)) ELSE K}

\* a query is delivered: table effect at the receiver, reply goes on the wire
DeliverQuery(msg) ==
  /\ msg \in wire /\ msg.y = "q"
  /\ \E T2 \in RT(msg.to)!Apply(Ev("RecvQuery", msg.to, msg.from, FALSE)) :
       /\ tables' = [tables EXCEPT ![msg.to] = T2]
       \* the reply is computed from the table as the same critical section left it
       /\ \E L \in {l \in SUBSET {RT(msg.to)!Key(e) : e \in {x \in T2 : RT(msg.to)!Good(x)}} :
                      Cardinality(l) = IF Cardinality({x \in T2 : RT(msg.to)!Good(x)}) < K
                                       THEN Cardinality({x \in T2 : RT(msg.to)!Good(x)}) ELSE K} :
            /\ wire' = (wire \ {msg}) \cup {[from |-> msg.to, to |-> msg.from, y |-> "r", t |-> msg.t, nodes |-> L]}
            /\ lastReply' = [by |-> msg.to, nodes |-> L, goodThen |-> {RT(msg.to)!Key(e) : e \in {x \in T2 : RT(msg.to)!Good(x)}}]
  /\ sentR' = sentR \cup {<<msg.to, msg.from, msg.t>>}
  /\ sent' = sent + 1
  /\ UNCHANGED <<pend, nextT, sentQ>>

\* a response is delivered: matched iff the receiver has that transaction open towards that sender
DeliverResp(msg) ==
  /\ msg \in wire /\ msg.y = "r"
  /\ LET matched == <<msg.from, msg.t>> \in pend[msg.to] IN
     /\ \E T2 \in RT(msg.to)!Apply(Ev("RecvResp", msg.to, msg.from, matched)) : tables' = [tables EXCEPT ![msg.to] = T2]
     /\ pend' = [pend EXCEPT ![msg.to] = @ \ {<<msg.from, msg.t>>}]
  /\ wire' = wire \ {msg}
  /\ UNCHANGED <<nextT, sentQ, sentR, lastReply, sent>>

\* the wire: loss and duplication
Drop(msg) == msg \in wire /\ wire' = wire \ {msg} /\ UNCHANGED <<tables, pend, nextT, sentQ, sentR, lastReply, sent>>
\* duplication is modelled by delivering without removing
DeliverRespDup(msg) ==
  /\ msg \in wire /\ msg.y = "r"
  /\ LET matched == <<msg.from, msg.t>> \in pend[msg.to] IN
     /\ \E T2 \in RT(msg.to)!Apply(Ev("RecvResp", msg.to, msg.from, matched)) : tables' = [tables EXCEPT ![msg.to] = T2]
     /\ pend' = [pend EXCEPT ![msg.to] = @ \ {<<msg.from, msg.t>>}]
  /\ UNCHANGED <<wire, nextT, sentQ, sentR, lastReply, sent>>

\* the adversary: a response nobody asked for, claiming to come from node f, with a guessed transaction ID and
\* a node list of its choosing (hearsay)
\* (an off-path adversary cannot know the transaction ID of a query in flight: it never hits a pending pair;
\* one that can spoof the source address AND read the ID is outside what UDP-level matching can defend against)
Spoof(f, to, t) ==
  /\ f # to /\ sent < MaxMsgs /\ <<f, to, t>> \notin sentR /\ <<f, t>> \notin pend[to]
  /\ wire' = wire \cup {[from |-> f, to |-> to, y |-> "r", t |-> t, nodes |-> {<<"ghost", "ghost">>}]}
  /\ sent' = sent + 1
  /\ UNCHANGED <<tables, pend, nextT, sentQ, sentR, lastReply>>

Next == \/ \E n, m \in Nodes : Query(n, m)
        \/ \E msg \in wire : DeliverQuery(msg) \/ DeliverResp(msg) \/ DeliverRespDup(msg) \/ Drop(msg)
        \* spoofed transaction IDs come from a range the nodes never use: the code's IDs are a process-wide
        \* sequential counter, so an adversary that can forge source addresses can also predict them; that is a
        \* known weakness of the protocol family (design observation O4), not one of the listed properties
        \/ \E f, to \in Nodes, t \in 101..102 : Spoof(f, to, t)
Spec == Init /\ [][Next]_nvars

-----------------------------------------------------------------------------
\* a contact is in n's table only if it really queried n, or really answered a query n really sent it
Provenance == \A n \in Nodes : \A e \in tables[n] :
                 \/ <<e.id, n>> \in sentQ
                 \/ (<<n, e.id>> \in sentQ /\ \E t \in 1..nextT : <<e.id, n, t>> \in sentR)
\* a spoofed or hearsay identity never enters any table
NoGhost == \A n \in Nodes : \A e \in tables[n] : e.id # "ghost"
NoSelf == \A n \in Nodes : \A e \in tables[n] : e.id # n
WellFormedAll == \A n \in Nodes : RT(n)!WellFormed(tables[n])
\* what a reply lists was good at the responder at that instant, and is never the responder itself
HearsayOK(r) == /\ r.nodes \subseteq r.goodThen
                /\ \A k \in r.nodes : k[1] # r.by
                /\ Cardinality(r.nodes) <= K
Hearsay == [][HearsayOK(lastReply')]_nvars
\* the history of the last reply is an observation, not behaviour
View == <<tables, wire, pend, nextT, sentQ, sentR, sent>>
=============================================================================
