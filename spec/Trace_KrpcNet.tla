---------------------------- MODULE Trace_KrpcNet ----------------------------
(* A small network of real Servers over an in-memory wire: every datagram is an Out of its sender  *)
(* and an In of its receiver.  One observer state (KrpcServer!Step) per node; the properties must   *)
(* hold at every node while the nodes bootstrap from, announce to, and get/put through each other.  *)
EXTENDS KrpcServer, Json

VARIABLES l, os
tvars == <<l, os>>

TraceLog == ndJsonDeserialize("trace.ndjson")
Range(s) == {s[i] : i \in DOMAIN s}
Norm(ev) ==
  CASE ev.e = "Out" -> [ev EXCEPT !.values = {[ipn |-> v[1], port |-> v[2], w |-> v[3]] : v \in Range(ev.values)}]
    [] ev.e = "SetBlock" -> [ev EXCEPT !.blocked = Range(ev.blocked)]
    [] OTHER -> ev

TraceInit == l = 1 /\ os = <<>>

TraceStart ==
  /\ l <= Len(TraceLog) /\ TraceLog[l].e = "Start"
  /\ LET ev == TraceLog[l]
         c == [passive |-> ev.passive, peerstore |-> ev.peerstore, announcecb |-> ev.announcecb, own |-> ev.own,
               blocked |-> Range(ev.blocked), burst |-> ev.burst, rate |-> ev.rate] IN
     os' = IF ev.node = "A" THEN (ev.node :> InitObs(c))           \* node A starts a new network
           ELSE (ev.node :> InitObs(c)) @@ os
  /\ l' = l + 1

TraceStep ==
  /\ l <= Len(TraceLog) /\ TraceLog[l].e # "Start"
  /\ LET ev == TraceLog[l] IN os' = [os EXCEPT ![ev.node] = Step(@, Norm(ev), l)]
  /\ l' = l + 1

TraceNext == TraceStart \/ TraceStep
TraceSpec == TraceInit /\ [][TraceNext]_tvars

AllHold(p) == \A nd \in DOMAIN os : Holds(os[nd], p)
InvC07 == AllHold("C07")
InvC08 == AllHold("C08")
InvC10 == AllHold("C10")
InvC11 == AllHold("C11")
InvC19 == AllHold("C19")
InvC20 == AllHold("C20")
InvC01 == AllHold("C01")

HW == TLCSet(1, IF TLCGet(1) < l THEN l ELSE TLCGet(1))
Accepted == IF TLCGet(1) = Len(TraceLog) + 1 THEN TRUE
            ELSE PrintT(<<"REJECTED_AT", TLCGet(1)>>) /\ FALSE
ASSUME TLCSet(1, 0)
=============================================================================
