"""C16: announce (spec/Announce.tla, MC_Announce.tla, Trace_Announce.tla; harness/cmd/ann).

Stage 1: TLC exhaustive on MC_Announce (four simulated networks of 3-4 nodes, K = Alpha = 2, network and
option set chosen by the initial state, all reply orders, Close / StopTraversing at every point, consumer reading or giving up:
safety invariants, StallLive / CloseLive under weak fairness, vacuity guards: the escape announce.go has
today must violate CloseLive).
Stage 2-4: harness/cmd/ann plays the network against the real Server.Announce at the PacketConn
boundary; TLC (Trace_Announce) searches for an interleaving of Announce.tla's silent steps that explains
every recorded line.  A rejected segment is re-validated with one clause of C16 switched off at a time;
the clause whose removal makes it acceptable names the violation.  Hangs are judged by state (nothing
left in flight but getPeers' sends on Peers), bound 5 s, reproduced 3 times."""
import json
import os
import re
import time
from concurrent.futures import ThreadPoolExecutor

import vlib
from vlib import log

PROPS = ("C16",)

# invariants of the exhaustive model / named guards of the trace validator -> property ids
INV_PROPS = {
    # MC_Announce invariants and temporal properties
    "AnnounceOK": ["C16"], "ClosestFinal": ["C16"], "NoAnnounceDisabled": ["C16"], "DeliverAtMostOnce": ["C16"],
    "DeliverOnlyResponses": ["C16"], "NoLoss": ["C16"], "AbandOnlyStopping": ["C16"], "ReadersGetAll": ["C16"],
    "PeersClosedLast": ["C16"], "FinishedAfterAnn": ["C16"], "StallLive": ["C16"], "CloseLive": ["C16"],
    # clauses of Trace_Announce (constant Off)
    "stopped": ["C16"], "dst": ["C16"], "tok": ["C16"], "args": ["C16"], "once": ["C16"], "right": ["C16"],
    "owed": ["C16"], "order": ["C16"],
}
SAFETY = ("AnnounceOK ClosestFinal NoAnnounceDisabled DeliverAtMostOnce DeliverOnlyResponses NoLoss AbandOnlyStopping "
          "ReadersGetAll PeersClosedLast FinishedAfterAnn")
CLAUSES = ["args", "tok", "dst", "stopped", "once", "right", "owed", "order", "deliver"]
CLAUSE_TEXT = {
    "args": "announce_peer does not carry the announced infohash / the configured port / implied_port",
    "tok": "announce_peer carries a token other than the one this very node returned in this traversal",
    "dst": "announce_peer sent to an address that is not in the final closest set (nearest <= 8 responders with a string token)",
    "stopped": "announce_peer sent before the traversal had stopped (or outside announceClosest)",
    "once": "a PeersValues was delivered that no pending response accounts for (delivered twice, or never received)",
    "right": "a delivered PeersValues does not carry the responder's address and ID",
    "owed": "a get_peers response received while the consumer reads and nobody stopped the announce was not delivered",
    "deliver": "a get_peers response that was waiting for the consumer was dropped instead of delivered although nobody had stopped the announce",
    "order": "Finished() / close(Peers) out of order (Peers closed before peerAnnounced, or End without both)",
}
HANG_KEY = "hang:Announce.Close:consumer-not-reading"


def mc_cfg(net, opt, cons, api, fixed, holds, spec="Spec", props="", invs=SAFETY, k=2, alpha=2):
    return """CONSTANTS
 NetId = "%s"
 OptId = "%s"
 K = %d
 Alpha = %d
 ConsStops = %s
 ApiStops = %s
 AnnHolds = %s
 FixedEscape = %s
 TraceMode = FALSE
SPECIFICATION %s
%s
%s
CHECK_DEADLOCK FALSE
""" % (net, opt, k, alpha, cons, api, holds, fixed, spec, ("INVARIANTS " + invs) if invs else "",
       ("PROPERTIES " + props) if props else "")


def trace_cfg(off):
    return """CONSTANTS
 FixedEscape = TRUE
 TraceMode = TRUE
 Off = {%s}
SPECIFICATION TraceSpec
INVARIANT ClosestFinal
CONSTRAINT HW
POSTCONDITION Accepted
CHECK_DEADLOCK FALSE
""" % ", ".join('"%s"' % c for c in off)


def stage1(tier, v, cov):
    """The design admits no bad state, finishes under weak fairness, and the guards are not vacuous."""
    runs = []  # (name, cfg, expect): expect = None (must be clean) | name of what must be violated
    # NetId = "all" / OptId = "all": the network (n1..n4 of the library in MC_Announce) and the option set are chosen by
    # the initial state, so one TLC run covers their product; Close / StopTraversing at any point; the consumer may stop
    # reading; announce_peer to a network's annhold nodes ends only by Close
    if tier == "thorough":
        runs.append(("safety+CloseLive all networks x options, consumer may stop, escape=ctx",
                     mc_cfg("all", "all", "TRUE", "TRUE", "TRUE", "TRUE", "FairSpec", "CloseLive"), None))
        for k, a in ((1, 2), (3, 3), (2, 1), (1, 3), (3, 2)):
            runs.append(("safety+CloseLive all networks x options K=%d Alpha=%d" % (k, a),
                         mc_cfg("all", "all", "TRUE", "TRUE", "TRUE", "TRUE", "FairSpec", "CloseLive", k=k, alpha=a), None))
    else:
        runs.append(("safety all networks x options, consumer may stop, escape=ctx", mc_cfg("all", "all", "TRUE", "TRUE", "TRUE", "TRUE"), None))
        runs.append(("CloseLive all networks (port), consumer may stop, escape=ctx",
                     mc_cfg("all", "port", "TRUE", "TRUE", "TRUE", "TRUE", "FairSpec", "CloseLive", ""), None))
    runs.append(("safety all networks x options, consumer may stop, escape=code", mc_cfg("all", "all", "TRUE", "TRUE", "FALSE", "TRUE"), None))
    # consumer reads: (Stalled or Closed) ~> Finished and Peers closed, with either escape
    for fixed in ("TRUE", "FALSE"):
        runs.append(("liveness StallLive+CloseLive all networks, reader, escape=%s" % ("ctx" if fixed == "TRUE" else "code"),
                     mc_cfg("all", "all" if tier == "thorough" else "port", "FALSE", "TRUE", fixed, "FALSE", "FairSpec", "StallLive CloseLive", ""), None))
    # vacuity guards
    runs.append(("guard: the code's escape must violate CloseLive", mc_cfg("n4", "port", "TRUE", "TRUE", "FALSE", "TRUE", "FairSpec", "CloseLive", ""), "CloseLive"))
    runs.append(("guard: unanswered announce_peer, no Close: violates StallLive", mc_cfg("n4", "port", "FALSE", "FALSE", "TRUE", "TRUE", "FairSpec", "StallLive", ""), "StallLive"))
    runs.append(("guard: announce + abandoned send + trimmed K set reachable", mc_cfg("n1", "port", "TRUE", "TRUE", "TRUE", "TRUE", invs="Vacuous"), "Vacuous"))

    def one(run):
        name, cfg, expect = run
        return run, vlib.tlc("MC_Announce", cfg, workers=4, timeout=1200)

    t0 = time.time()
    with ThreadPoolExecutor(max_workers=max(2, vlib.NCPU // 2)) as ex:
        results = list(ex.map(one, runs))
    log("  stage 1: %d TLC runs in %.0fs" % (len(runs), time.time() - t0))
    states = trans = 0
    for (name, cfg, expect), r in results:
        got = r.invariant or r.property
        log("  TLC %-66s %7d distinct %8d generated %5.1fs %s" % (name, r.distinct, r.generated, r.wall,
                                                                 "(violated, as required)" if expect and got == expect else ""))
        if expect:
            if got != expect or r.timed_out or r.error:
                v.inconclusive.append("vacuity guard failed: '%s' did not violate %s (got %s, err=%s)" % (name, expect, got, r.error))
            continue
        if not r.clean:
            v.inconclusive.append("model run '%s' not clean: inv=%s prop=%s err=%s timeout=%s (a model-only counter-example is a "
                                  "spec/design question, not a verdict about the code)" % (name, r.invariant, r.property, r.error, r.timed_out))
            continue
        states += r.distinct
        trans += r.generated
        cov["mc_runs"].append(dict(run=name, distinct=r.distinct, generated=r.generated, depth=r.depth, wall_s=round(r.wall, 1)))
    cov["states"] = states
    cov["transitions"] = trans


class Crashed(Exception):
    """The driver process died (a panic of the code under test kills it); what it had written is still judged."""


def drive(binary, args, timeout=900):
    rc, so, se = vlib.run_driver(binary, args, timeout=timeout)
    if rc != 0:
        if rc is not None and vlib.code_panic(se):
            raise Crashed((se or "")[(se or "").index("panic:"):][:3000])
        raise vlib.Inconclusive("announce driver failed (rc=%s): %s" % (rc, (se or "")[-3000:]))
    return json.loads(so.strip().splitlines()[-1])


def seg_lines(lines, sg):
    return [x for x in lines if vlib.seg_of(x) == sg]


def validate(path, wd, tag):
    """Validates a trace file in chunks of whole scenarios: TLC cannot follow a behaviour of 65 536 or more states, and
    a file of a thousand scenarios with their silent steps is longer than that."""
    lines = vlib.read_trace(path)
    chunks, cur, segs = [], [], set()
    for x in lines:
        sg = vlib.seg_of(x)
        if sg not in segs and len(cur) >= 6000:
            chunks.append(cur)
            cur = []
        segs.add(sg)
        cur.append(x)
    if cur:
        chunks.append(cur)
    if len(chunks) <= 1:
        return validate_chunk(lines, wd, tag)
    tot = dict(lines=len(lines), segments=len(segs), accepted_segments=0, states=0, violations=[], inconclusive=[])
    for i, ch in enumerate(chunks):
        r = validate_chunk(ch, wd, "%s.%d" % (tag, i))
        tot["accepted_segments"] += r["accepted_segments"]
        tot["states"] += r["states"]
        tot["violations"] += r["violations"]
        tot["inconclusive"] += r["inconclusive"]
        if "unjudged" in r:
            tot["unjudged"] = tot.get("unjudged", 0) + r["unjudged"]
    return tot


def validate_chunk(lines, wd, tag):
    """Returns dict(lines, segments, accepted_segments, states, violations=[(clause, seg, line)], inconclusive=[...])."""
    res = dict(lines=len(lines), segments=len(set(vlib.seg_of(x) for x in lines)), accepted_segments=0, states=0,
               violations=[], inconclusive=[])
    cur = lines
    for rnd in range(3):
        if not cur:
            break
        if rnd == 2 and res["violations"]:
            # two violating scenarios of this file are diagnosed and reported; the rest of it is left unjudged
            res["unjudged"] = len(set(vlib.seg_of(x) for x in cur))
            return res
        tp = os.path.join(wd, "cur-%s.ndjson" % tag)
        vlib.write_lines(tp, cur)
        r = vlib.tlc("Trace_Announce", trace_cfg([]), workers=1, timeout=900, files={"trace.ndjson": tp})
        res["states"] += r.distinct
        if r.timed_out or r.error or r.invariant:
            res["inconclusive"].append("TLC on trace %s: timeout=%s error=%s invariant=%s" % (tag, r.timed_out, r.error, r.invariant))
            return res
        if r.clean:
            res["accepted_segments"] = len(set(vlib.seg_of(x) for x in cur))
            return res
        if r.rejected_at is None:
            res["inconclusive"].append("unclassified TLC outcome on trace %s" % tag)
            return res
        idx = r.rejected_at - 1
        line = cur[idx] if 0 <= idx < len(cur) else ""
        sg = vlib.seg_of(line)
        segl = seg_lines(cur, sg)
        sp = os.path.join(wd, "seg-%s.ndjson" % tag)
        vlib.write_lines(sp, segl)
        clause = None
        # try first the clauses that guard the rejected kind of event
        kind = (json.loads(line).get("e") if line else "") or ""
        first = {"AnnounceSent": ["tok", "dst", "args", "stopped"], "PeersDelivered": ["once", "right"],
                 "Finished": ["order", "owed"], "PeersClosed": ["order", "owed"], "End": ["order", "owed"]}.get(kind, ["owed"])
        first = first + ["deliver"]
        order = first + [c for c in CLAUSES if c not in first]
        for off in [[c] for c in order] + [["args", "tok", "dst"], ["stopped", "dst", "tok"], CLAUSES]:
            r2 = vlib.tlc("Trace_Announce", trace_cfg(off), workers=1, timeout=300, files={"trace.ndjson": sp})
            if r2.clean:
                clause = "+".join(off) if len(off) < len(CLAUSES) else "several"
                break
        if clause is None:
            res["inconclusive"].append("segment %d of trace %s cannot be explained even with every clause of the property switched off "
                                       "(harness or specification problem, or a change the specification cannot follow): %s" % (sg, tag, line[:300]))
        else:
            res["violations"].append((clause, sg, line, segl))
        cur = [x for x in cur if vlib.seg_of(x) != sg]
    else:
        res["inconclusive"].append("gave up after 3 validation rounds on trace %s" % tag)
        return res
    res["accepted_segments"] = len(set(vlib.seg_of(x) for x in cur))
    return res


def scenario_of(segl):
    try:
        return json.loads(json.loads(segl[0])["scn"])
    except Exception:
        return None


def check_hang(binary, wd, h, v, prop, note, extra):
    """State-based hang rule: the scenario is replayed 3 times with a 5 s bound."""
    scn = json.dumps(h["scn"])

    def again(k):
        out = os.path.join(wd, "rehang-%s-%d.ndjson" % (re.sub(r"\W", "", h["class"]), k))
        drive(binary, ["-scn", scn, "-hangwait", "5s", "-out", out])
        hp = out + ".hang"
        if os.path.exists(hp):
            hs = [json.loads(x) for x in open(hp) if x.strip()]
            if hs and hs[0]["class"] == h["class"]:
                return hs[0], None
        return None, out

    with ThreadPoolExecutor(max_workers=3) as ex:
        res = list(ex.map(again, range(3)))
    got = [x for x, _ in res if x]
    rep = len(got)
    last = got[-1] if got else h
    if rep < 3:
        # slowness, not a hang: the scenario ran to its end within the long bound; judge that run like any other
        note.append("a suspected hang (%s, short bound) did not reproduce 3x with a 5 s bound (%d/3): not a hang" % (h["class"], rep))
        for _, out in res:
            if out:
                extra.append(out)
                break
        return
    if h["class"] == "stoptraversing-consumer-not-reading":
        note.append("StopTraversing() with a consumer that no longer reads never finishes either (same getPeers send; the statement of C16 "
                    "promises the close only for Close(); C14 judges the stranded goroutines): %s" % scn)
        return
    if h["class"] not in ("Announce.Close:consumer-not-reading", "finish", "peers-not-closed"):
        # the driver lost track of what the node is waiting for: that is not a statement about the property
        v.inconclusive.append("the driver could not bring the node to a quiescent point (%s, reproduced 3x): %s; snapshot %s; scenario %s"
                              % (h["class"], last["what"], last["snap"], scn))
        return
    key = HANG_KEY if h["class"] == "Announce.Close:consumer-not-reading" else "hang:" + h["class"]
    rp = vlib.save_replay(prop, key.replace(":", "-").replace(".", "-"), {"hang.json": last, "scenario.json": h["scn"]},
                          dict(property=prop, key=key, kind="hang", scn=h["scn"], what=last["what"], snapshot=last["snap"], frames=last["frames"],
                               how="bin/check %s --replay <this dir>" % prop))
    v.violation(key, "%s: %s; traversal snapshot %s; goroutines %s (bound 5 s, reproduced 3x; scenario %s)"
                % (key, last["what"], last["snap"], last["frames"], scn), rp)


def run(prop, tier, seed, replay=None):
    t0 = time.time()
    v = vlib.Verdict(prop)
    cov = dict(mc_runs=[], samples=[], traces_validated_against_impl=0)
    notes = []
    if not replay:
        stage1(tier, v, cov)
    binary = vlib.go_build("ann")
    wd = vlib.scratch("verif-ann-")
    jobs = []
    if replay:
        meta = json.load(open(os.path.join(replay, "meta.json")))
        if meta.get("kind") == "hang":
            extra = []
            check_hang(binary, wd, dict(scn=meta["scn"], **{"class": meta["key"].split(":", 1)[1]}), v, prop, notes, extra)
            if v.violations or v.inconclusive:
                for n in notes:
                    log("  note: " + n)
                return v.finish()
            # it does not hang (any more): the scenario is judged like any other
        jobs = [("replay", ["-scn", json.dumps(meta["scn"]), "-hangwait", "5s"])]
    elif tier == "quick":
        jobs = [(str(seed * 100 + i), ["-seed", seed * 100 + i, "-exh", 1, "-maxexh", 150, "-n", 40]) for i in range(6)]
    else:
        jobs = [(str(seed * 100 + i), ["-seed", seed * 100 + i, "-exh", 5, "-maxexh", 400, "-n", 2000]) for i in range(8)]

    def one(job):
        tag, args = job
        out = os.path.join(wd, "trace-%s.ndjson" % tag)
        ta = time.time()
        try:
            st = drive(binary, args + ["-out", out], timeout=1500)
        except Crashed as c:
            # the segments completed before the crash were flushed; the one in progress is lost
            n = len(vlib.read_trace(out)) if os.path.exists(out) else 0
            st = dict(segments=len(set(vlib.seg_of(x) for x in vlib.read_trace(out))) if n else 0, events=n, crashed=str(c))
        tb = time.time()
        tv = validate(out, wd, tag) if os.path.exists(out) else dict(lines=0, segments=0, accepted_segments=0, states=0, violations=[], inconclusive=[])
        if st.get("crashed") and not tv["violations"]:
            tv["inconclusive"].append("the driver process of job %s died (nothing in the %d scenarios it had completed violates the property): %s"
                                      % (tag, st["segments"], st["crashed"][:1500]))
        log("    job %s: %d scenarios driven in %.0fs, %d lines validated in %.0fs (%d states)" % (tag, st["segments"], tb - ta, tv["lines"], time.time() - tb, tv["states"]))
        return tag, out, st, tv

    t1 = time.time()
    with ThreadPoolExecutor(max_workers=min(len(jobs), max(1, vlib.NCPU // 2))) as ex:
        results = list(ex.map(one, jobs))
    log("  %d driver job(s) + trace validation in %.0fs" % (len(jobs), time.time() - t1))
    tot = dict(scenarios=0, events=0, set_aside=0, hangs=0, tstates=0)
    suspects = {}
    extra = []
    seen_keys = set()

    def absorb(tag, out, st, tv):
        tot["scenarios"] += st["segments"]
        tot["events"] += st["events"]
        tot["set_aside"] += st.get("set_aside", 0)
        if st.get("errors"):
            v.inconclusive.append("driver %s reported %d scenario errors" % (tag, st["errors"]))
        tot["tstates"] += tv["states"]
        cov["traces_validated_against_impl"] += tv["accepted_segments"]
        v.inconclusive.extend(tv["inconclusive"])
        if st.get("crashed"):
            notes.append("driver job %s died after %d scenarios: %s" % (tag, st["segments"], st["crashed"].strip().splitlines()[0][:200] if st["crashed"].strip() else ""))
        lines = vlib.read_trace(out) if os.path.exists(out) else []
        if not cov["samples"] and lines:
            cov["samples"] = [json.loads(x) for x in lines[:14]]
            for s in cov["samples"]:
                s.pop("scn", None)
        for clause, sg, line, segl in tv["violations"]:
            scn = scenario_of(segl)
            first = clause.split("+")[0]
            text = CLAUSE_TEXT.get(first, "several clauses of the property at once")
            ev = json.loads(line) if line else {}
            key = "%s:%s" % ("announce" if first in ("args", "tok", "dst", "stopped") else "peers" if first in ("once", "right", "owed", "deliver") else "finish", clause)
            if key in seen_keys:
                continue  # one replay per kind of violation
            seen_keys.add(key)
            rp = vlib.save_replay(prop, "%s-%s-%s" % (key.replace(":", "-").replace("+", "-"), tag, sg),
                                  {"trace.ndjson": "\n".join(segl) + "\n", "scenario.json": scn or {}},
                                  dict(property=prop, key=key, kind="trace", clause=clause, scn=scn, line=line,
                                       how="bin/check %s --replay <this dir>" % prop))
            v.violation(key, "%s -- no interleaving of Announce.tla explains event %s of scenario %s/%s unless clause '%s' is dropped"
                        % (text, json.dumps({k: x for k, x in ev.items() if k != "scn"})[:300], tag, sg, clause), rp)
        hp = out + ".hang"
        if os.path.exists(hp):
            for hl in open(hp):
                if hl.strip():
                    h = json.loads(hl)
                    tot["hangs"] += 1
                    suspects.setdefault(h["class"], h)

    for r in results:
        absorb(*r)
    t2 = time.time()
    todo = [h for _, h in sorted(suspects.items())]
    with ThreadPoolExecutor(max_workers=4) as ex:
        list(ex.map(lambda h: check_hang(binary, wd, h, v, prop, notes, extra), todo))
    for i, out in enumerate(extra):
        tv = validate(out, wd, "rerun%d" % i)
        absorb("rerun%d" % i, out, dict(segments=0, events=0), tv)
    if suspects:
        log("  %d hang suspect(s) of %d class(es) re-run 3x with a 5 s bound in %.0fs" % (tot["hangs"], len(todo), time.time() - t2))
    for n in notes:
        log("  note: " + n)
    cov.update(evaluations=tot["scenarios"], events_validated=tot["events"], trace_states=tot["tstates"], hang_suspects=tot["hangs"],
               set_aside_stale_stall=tot["set_aside"], distinct_nontrivial=cov["traces_validated_against_impl"], exhaustive=False,
               rule="simulated networks of 3-12 nodes (string token, values, no token, empty token, integer token, error, silence; "
                    "> 8 token-bearing nodes so that K = 8 trims; IPv4/IPv6; equal IDs) against a real Server over a fake PacketConn; "
                    "9 API/option combinations; all reply orders for 3-4 node networks with Close / StopTraversing / both at every "
                    "quiescent point, consumer pausing at every point, one get_peers datagram held inside WriteTo; seeded orders "
                    "and stop/pause points for the larger ones; every boundary event validated by TLC against Announce.tla",
               clauses=CLAUSES, notes=notes)
    rc = v.finish()
    if not replay:
        vlib.write_evidence(prop, tier, seed, cov, time.time() - t0, len(v.violations),
                            assumptions=["the final closest set is derived in the specification from the injected replies (nearest <= 8 responders "
                                         "with a string token by XOR distance of the ID they answered with); Announce has no accessor for it",
                                         "a response injected after Close/StopTraversing may or may not still reach its query",
                                         "abstract 8-bit IDs are embedded order-preservingly into 160 bits (C18 checks the metric itself)",
                                         "runs in which the finisher's Stop stems from a stale 'stalled' offer (DESIGN O1, a C03 matter) are set aside",
                                         "per-destination QueryResendDelay (1 h for nodes the script answers, 3 ms for silent ones) is "
                                         "keyed by the sending goroutine"])
    return rc
