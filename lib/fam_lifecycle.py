"""C14: every query and traversal ends and cleans up after itself (spec/QueryLifecycle.tla,
spec/Owners.tla, MC_QueryLifecycle*.tla, Trace_QueryLifecycle*.tla; harness/cmd/life)."""
import json
import os
import random
import re
import time
from concurrent.futures import ThreadPoolExecutor

import fam_maint
import vlib
from vlib import log

PROPS = ("C14",)

# The models and traces of this family are small and the TLC runs short: what costs is JVM start-up
# and JIT/GC threads when a dozen of them run side by side.  (vlib.tlc appends to JAVA_TOOL_OPTIONS.)
_JVM = "-XX:ParallelGCThreads=2 -XX:TieredStopAtLevel=1 -Xmx3g"
if _JVM not in os.environ.get("JAVA_TOOL_OPTIONS", ""):
    os.environ["JAVA_TOOL_OPTIONS"] = (os.environ.get("JAVA_TOOL_OPTIONS", "") + " " + _JVM).strip()

# invariant of a trace specification -> the properties it states
INV_PROPS = {
    # Trace_QueryLifecycle: one query, judged on the harness's log alone (observer `o`, Quiesce line)
    "ObsSendsBound": ["C14"],      # at most NumTries datagrams handed to the socket
    "ObsJoined": ["C14"],          # the call did not return while the sender goroutine was held in a gate
    "ObsNoLateSend": ["C14"],      # nothing handed to the socket after the return
    "ObsClosedNoSend": ["C14"],    # a query started after Close fails with 0 writes, nothing reaches the socket
    "ObsResult": ["C14"],          # reply => one was accepted; ctx error => cancelled; time-out => all sends made and
                                   # the last interval elapsed; any other error => a send really failed
    "ObsWrites": ["C14"],          # QueryResult.Writes = datagrams written
    "ObsNoHang": ["C14"],          # the call returned
    "ObsNoPending": ["C14"],       # Stats().OutstandingTransactions = 0 afterwards
    "ObsNoGoroutines": ["C14"],    # no goroutine of the module left (after the bound)
    "ObsDatagrams": ["C14"],       # datagrams with the query's `t` captured on the socket <= NumTries
    # Trace_QueryLifecycle_Owners
    "ObsOwnerStopped": ["C14"],    # an owner that was obliged to end did end (no hang)
    "ObsOwnerClean": ["C14"],      # ... and left no transaction / goroutine behind
    "ObsOwnerResult": ["C14"],     # ctx error only if cancelled, start error only if the resolver failed / was empty
}

Q_INV = ("TypeOK ReturnClean SendsBound ResultJustified ClosedNoSend NoLateSend "
         "ObsSendsBound ObsJoined ObsNoLateSend ObsClosedNoSend ObsResult ObsWrites")


def q_cfg(variant="code", gen=False, nset="{1,2,3}", budgets=True, invs=Q_INV, props="", extra=""):
    spec = "SPECIFICATION FairSpec" if props else "INIT MCInit\nNEXT Next"
    return """CONSTANTS
 Variant = "%s"
 Gen = %s
 NSet = %s
 Budgets = %s
%s
%s
%s
%s
CHECK_DEADLOCK FALSE
""" % (variant, "TRUE" if gen else "FALSE", nset, "TRUE" if budgets else "FALSE", spec,
       ("INVARIANTS " + invs) if invs and not props else "", ("PROPERTIES " + props) if props else "", extra)


def gen_scripts(tier, v, cov):
    """TLC as generator: every finished behaviour of the gate-normal model is one script."""
    cfg = q_cfg(gen=True, invs="TypeOK ReturnClean ObsResult", extra="CONSTRAINT GenOut")
    r = vlib.tlc("MC_QueryLifecycle", cfg, workers=4, timeout=900)
    if r.timed_out or r.invariant or r.property or "SCRIPT" not in r.out:
        raise vlib.Inconclusive("script generator model failed: inv=%s err=%s timeout=%s" % (r.invariant, r.error, r.timed_out))
    seen = set()
    for m in re.finditer(r'<<"SCRIPT", "((?:[^"\\]|\\.)*)">>', r.out):
        seen.add(m.group(1).encode().decode("unicode_escape"))
    scripts = [json.loads(s) for s in sorted(seen)]
    for i, s in enumerate(scripts):
        s["id"] = i
    log("  TLC generator: %d distinct finished behaviours of the gate-normal model (%d states, %.1fs)" % (len(scripts), r.distinct, r.wall))
    cov["generator"] = dict(scripts=len(scripts), distinct=r.distinct, generated=r.generated, wall_s=round(r.wall, 1))
    return scripts


def validate(module, strict_cfg, relaxed_cfg, trace_path, max_dev_rounds=5, timeout=900):
    """Validates a multi-segment trace.  Pass A: strict (every line a step of the specification, all
    Obs* invariants as TLC invariants).  If that is not clean, pass B: one follow-the-log run over the
    whole file in which the specification's own invariant definitions are evaluated after every
    line and every falsified one is reported (OBSVIOLATION name line seg) - all offending segments at
    once.  What strict mode still rejects afterwards, although no invariant is falsified, is a
    deviation (the code does not follow the design's steps, but no listed property is violated).
    Same result shape as vlib.validate_trace."""
    lines = vlib.read_trace(trace_path)
    res = dict(lines=len(lines), segments=len(set(vlib.seg_of(l) for l in lines)), findings=[], deviations=[],
               tlc=[], inconclusive=[], accepted_segments=0)
    wd = vlib.scratch("verif-tv-")
    tp = os.path.join(wd, "cur.ndjson")

    def run(cfg, cur):
        vlib.write_lines(tp, cur)
        r = vlib.tlc(module, cfg, workers=1, timeout=timeout, files={"trace.ndjson": tp})
        res["tlc"].append(r)
        return r

    cur = lines
    r = run(strict_cfg, cur)
    if r.clean:
        res["accepted_segments"] = res["segments"]
        return res
    if r.timed_out or r.error:
        res["inconclusive"].append("TLC %s on trace (strict): %s" % ("timeout" if r.timed_out else "error", r.error))
        return res
    r2 = run(relaxed_cfg, cur)
    if r2.timed_out or r2.error:
        res["inconclusive"].append("TLC %s on trace (follow-the-log): %s" % ("timeout" if r2.timed_out else "error", r2.error))
        return res
    bad = {}
    for m in re.finditer(r'<<"OBSVIOLATION", "(\w+)", (\d+), (\d+)>>', r2.out):
        name, l, seg = m.group(1), int(m.group(2)), int(m.group(3))
        if seg not in bad:
            bad[seg] = (name, cur[l - 1] if 0 < l <= len(cur) else "")
    if r2.rejected_at is not None:
        line = cur[r2.rejected_at - 1] if 0 < r2.rejected_at <= len(cur) else ""
        res["findings"].append(dict(kind="unexplained", name="unexplained", props=[], seg=vlib.seg_of(line), line=line))
        bad.setdefault(vlib.seg_of(line), None)
    for seg, nl in bad.items():
        if nl:
            res["findings"].append(dict(kind="invariant", name=nl[0], props=INV_PROPS.get(nl[0], []), seg=seg, line=nl[1],
                                        state="", mode=relaxed_cfg))
    cur = [x for x in cur if vlib.seg_of(x) not in bad]
    rounds = 0
    limit = 1 if res["findings"] else max_dev_rounds
    while cur and rounds < limit:
        rounds += 1
        r = run(strict_cfg, cur)
        if r.clean:
            res["accepted_segments"] = len(set(vlib.seg_of(l) for l in cur))
            return res
        if r.timed_out or r.error:
            res["inconclusive"].append("TLC %s on trace (strict): %s" % ("timeout" if r.timed_out else "error", r.error))
            return res
        if r.rejected_at is not None:
            line = cur[r.rejected_at - 1] if 0 < r.rejected_at <= len(cur) else ""
            sg = vlib.seg_of(line)
            res["deviations"].append(dict(seg=sg, line=line))
        elif r.invariant:
            l = vlib.state_l(r)
            line = cur[l - 2] if l and 0 <= l - 2 < len(cur) else ""
            sg = vlib.seg_of(line)
            res["findings"].append(dict(kind="invariant", name=r.invariant, props=INV_PROPS.get(r.invariant, []), seg=sg,
                                        line=line, state=r.last_state, mode=strict_cfg))
        else:
            res["inconclusive"].append("unclassified TLC outcome on trace: %s" % r.property)
            return res
        cur = [x for x in cur if vlib.seg_of(x) != sg]
    if cur and not res["findings"]:
        res["inconclusive"].append("gave up after %d strict rounds; %d lines not validated" % (rounds, len(cur)))
    return res


def parse_status(so, what):
    try:
        return json.loads(so.strip().splitlines()[-1])
    except Exception:
        raise vlib.Inconclusive("%s driver printed no status line: %s" % (what, (so or "")[-500:]))


def seg_lines(lines, seg):
    return [x for x in lines if vlib.seg_of(x) == seg]


def judge(prop, v, tv, lines, kind, keyfn, cov):
    """Turns the findings of a validated trace into verdicts."""
    for i in tv["inconclusive"]:
        v.inconclusive.append(i)
    for d in tv["deviations"]:
        cov["deviations_without_property_violation"] += 1
        log("  deviation (%s; no listed property violated): %s" % (kind, d["line"][:200]))
    for f in tv["findings"]:
        segl = seg_lines(lines, f["seg"])
        start = json.loads(segl[0]) if segl else {}
        if f["kind"] == "unexplained":
            v.inconclusive.append("%s scenario %s cannot be followed even in follow-the-log mode (harness or specification "
                                  "problem): %s" % (kind, start.get("script", start.get("name")), f["line"][:300]))
            continue
        if prop not in f["props"]:
            continue
        key, what = keyfn(f, start, segl)
        rp = vlib.save_replay(prop, re.sub(r"[^A-Za-z0-9_.-]+", "_", key),
                              {"trace.ndjson": "\n".join(segl) + "\n", "state.txt": f.get("state") or ""},
                              dict(property=prop, kind=kind, invariant=f["name"], key=key, start=start, line=f["line"],
                                   how="bin/check %s --replay <this dir>" % prop))
        v.violation(key, what, rp)


def query_key(f, start, segl):
    inv = f["name"]
    q = None
    for x in segl:
        if '"Quiesce"' in x:
            q = json.loads(x)
    api = start.get("api", "Query")
    if inv == "ObsNoGoroutines" and q:
        key = "leak:query:%s" % (",".join(sorted(set(q.get("left", [])))) or "goroutine")
    elif inv == "ObsNoHang":
        key = "hang:query"
    else:
        key = "query:%s" % inv
    what = ("%s violated by Server.%s (NumTries=%s, limiter budget=%s) under schedule [%s] (script %s): %s"
            % (inv, api, start.get("n"), start.get("budget"), start.get("hist"), start.get("script"), f["line"][:240]))
    return key, what


def owner_key(f, start, segl):
    inv = f["name"]
    q = {}
    for x in segl:
        if '"OQuiesce"' in x:
            q = json.loads(x)
    if inv == "ObsOwnerResult":
        key = "result:%s:%s" % (start.get("keyapi"), start.get("cause"))
    else:
        key = "%s:%s:%s" % ("hang" if q.get("hung") else "leak", start.get("keyapi"), start.get("cause"))
    what = ("%s violated in owner scenario '%s' (api %s, starting nodes: %s, stop: %s at point %s, Peers reader: %s): "
            "%s; left behind: %s transaction(s), goroutines %s"
            % (inv, start.get("name"), start.get("api"), start.get("sn"), start.get("stop"), start.get("point"), start.get("cons"),
               q.get("what") or ("hung" if q.get("hung") else "returned"), q.get("txns"), q.get("left")))
    return key, what


def drive_parts(binary, mode, seed, wd, parts, extra, only=None):
    """Runs the driver in `parts` processes and validates each trace file with TLC."""
    module, strict, relaxed = (("Trace_QueryLifecycle", "Trace_QueryLifecycle.cfg", "Trace_QueryLifecycle_relaxed.cfg") if mode == "query"
                               else ("Trace_QueryLifecycle_Owners", "Trace_QueryLifecycle_Owners.cfg", "Trace_QueryLifecycle_Owners_relaxed.cfg"))
    if only is not None:
        parts = 1

    def one(part):
        out = os.path.join(wd, "%s-%d-%d.ndjson" % (mode, part, random.randrange(1 << 30)))
        args = ["-mode", mode, "-seed", seed, "-out", out, "-part", part, "-parts", parts] + extra
        if only is not None:
            args += ["-only", only]
        rc, so, se = vlib.run_driver(binary, args, timeout=1500)
        if rc != 0:
            raise vlib.Inconclusive("life driver (%s) failed rc=%s: %s" % (mode, rc, (se or "")[-3000:]))
        st = parse_status(so, "life/" + mode)
        tv = validate(module, strict, relaxed, out)
        return out, st, tv

    with ThreadPoolExecutor(max_workers=parts) as ex:
        return list(ex.map(one, range(parts)))


def run_query_part(prop, tier, seed, v, cov, binary, wd, scripts, only=None):
    sp = os.path.join(wd, "scripts.json")
    with open(sp, "w") as f:
        json.dump(scripts, f)
    results = drive_parts(binary, "query", seed, wd, min(8, max(1, vlib.NCPU // 2)), ["-scripts", sp], only)
    hangs = []
    for out, st, tv in results:
        lines = vlib.read_trace(out)
        cov["evaluations"] += st["scenarios"]
        cov["events_validated"] += st["events"]
        cov["query_scripts_run"] += st["scenarios"]
        cov["query_scripts_diverged"] += st["diverged"]
        cov["query_stimuli_skipped"] += st["skipped"]
        cov["traces_validated_against_impl"] += tv["accepted_segments"]
        if st.get("stopped_early"):
            log("  note: a query driver stopped early (too many scenarios hung or left something behind)")
        if len(cov["samples"]) < 10 and lines:
            cov["samples"] += [json.loads(x) for x in lines[:10 - len(cov["samples"])]]
        for x in lines:
            m = re.search(r'"e":"(\w+)"', x)
            e = m.group(1) if m else "?"
            if e == "Ret":
                e += ":" + json.loads(x)["class"]
            elif e == "Send":
                e += ":" + json.loads(x)["res"]
            elif e == "DelayRet":
                e += ":" + json.loads(x)["dec"]
            elif e == "DeliverReply":
                e += ":accepted" if '"acc":true' in x else ":dropped"
            elif e == "Start":
                d = json.loads(x)
                cov["apis"][d["api"]] = cov["apis"].get(d["api"], 0) + 1
                e = "Start:limiter" if d["budget"] != -1 else "Start"
            cov["event_classes"][e] = cov["event_classes"].get(e, 0) + 1
        hangs += [f for f in tv["findings"] if f["name"] == "ObsNoHang"]
        tv["findings"] = [f for f in tv["findings"] if f["name"] != "ObsNoHang"]
        judge(prop, v, tv, lines, "query", query_key, cov)
    if only is None:
        # vacuity guard: every class of stimulus and of outcome the property quantifies over was really produced
        need = ["Ret:reply", "Ret:ctxErr", "Ret:timeout", "Ret:sendErr", "Send:ok", "Send:err", "DelayRet:short", "DelayRet:long",
                "DeliverReply:accepted", "DeliverReply:dropped", "Close", "CancelCtx", "Start:limiter", "Quiesce"]
        missing = [c for c in need if not cov["event_classes"].get(c)]
        if missing:
            v.inconclusive.append("vacuous run: no real execution with %s" % ", ".join(missing))
    # hang rule (DESIGN 5.7): a hang is reported only if the same schedule hangs on two more runs
    for f in hangs[:3]:
        rep = 0
        for k in range(2):
            for out, st, tv in drive_parts(binary, "query", seed, wd, 1, ["-scripts", sp], only=f["seg"]):
                rep += any(x["name"] == "ObsNoHang" for x in tv["findings"])
                lines = vlib.read_trace(out)
        if rep == 2:
            judge(prop, v, dict(inconclusive=[], deviations=[], findings=[f]), lines, "query", query_key, cov)
        else:
            v.inconclusive.append("a hung query (script %s) did not hang again on replay" % f["seg"])


def run_owner_part(prop, tier, seed, v, cov, binary, wd, only=None):
    results = drive_parts(binary, "owners", seed, wd, min(8, max(1, vlib.NCPU // 2)), [], only)
    hangs = []
    allst = []
    for out, st, tv in results:
        lines = vlib.read_trace(out)
        allst += st["status"]
        cov["evaluations"] += st["scenarios"]
        cov["owner_scenarios_run"] += st["scenarios"]
        cov["events_validated"] += st["events"]
        cov["owner_scenarios_skipped"] += sum(1 for s in st["status"] if s["skip"])
        for s in st["status"]:
            if s["skip"]:
                log("  note: owner scenario %s abandoned without verdict: %s" % (s["name"], s["skip"]))
        cov["traces_validated_against_impl"] += tv["accepted_segments"]
        if len(cov["samples"]) < 16 and lines:
            cov["samples"] += [json.loads(x) for x in lines[:6]]
        segs = {}
        for x in lines:
            segs.setdefault(vlib.seg_of(x), []).append(x)
        keep = []
        for f in tv["findings"]:
            q = [json.loads(x) for x in segs.get(f["seg"], []) if '"OQuiesce"' in x]
            if f["kind"] == "invariant" and q and q[-1].get("hung"):
                hangs.append((f, segs[f["seg"]]))
            else:
                keep.append(f)
        tv["findings"] = keep
        judge(prop, v, tv, lines, "owner", owner_key, cov)
    if hangs:
        # hang rule: the same scenario must hang on two more runs (both reruns in parallel)
        names = sorted(set(json.loads(sl[0])["name"] for f, sl in hangs))

        def again(k):
            res = drive_parts(binary, "owners", seed, wd, 1, [], only=",".join(names))
            return set(s["name"] for out, st, tv in res for s in st["status"] if s["hung"])

        with ThreadPoolExecutor(max_workers=2) as ex:
            reps = list(ex.map(again, range(2)))
        done = set()
        for f, sl in hangs:
            name = json.loads(sl[0])["name"]
            if all(name in r for r in reps):
                if (name, f["name"]) not in done:
                    done.add((name, f["name"]))
                    judge(prop, v, dict(inconclusive=[], deviations=[], findings=[f]), sl, "owner", owner_key, cov)
            else:
                v.inconclusive.append("owner scenario %s hung once but not on replay" % name)
    if cov["owner_scenarios_skipped"] > 3:
        v.inconclusive.append("%d owner scenarios did not reach their point" % cov["owner_scenarios_skipped"])


def o_cfg(owner, nq, stop=True, watch=True, props="Returns RefreshReturns EndsClean", invs="TypeOK StopBeforeReturn ResultJustified"):
    return """CONSTANTS
 Owner = "%s"
 NQ = %d
 StopOnStartErr = %s
 WatchCtx = %s
SPECIFICATION FairSpec
%s
%s
CHECK_DEADLOCK FALSE
""" % (owner, nq, "TRUE" if stop else "FALSE", "TRUE" if watch else "FALSE",
       ("INVARIANTS " + invs) if invs else "", ("PROPERTIES " + props) if props else "")


def stage1(tier, v, cov):
    """Exhaustive TLC.  Query/sender: no bad state for NumTries 1..3 and every limiter budget, every
    query returns and everything quiesces (weak fairness of steps and timers); each broken variant is
    caught by the invariant meant to catch it.  Owners: with the two repairs in, every owner stops its
    traversal on every path and everything spawned ends; as the code is today (flags off) the model
    shows the two defects - the design-level reproduction of DESIGN section 8 items 8 and 10."""
    Q, O = "MC_QueryLifecycle", "MC_QueryLifecycle_Owners"
    runs = [(Q, "query safety NumTries 1..3, all limiter budgets", q_cfg(), None),
            (Q, "query liveness Returns, Quiesces (weak fairness)", q_cfg(props="Returns Quiesces"), None),
            (Q, "variant nojoin must violate ReturnClean/ObsJoined", q_cfg("nojoin", invs="ReturnClean ObsJoined"), ("ReturnClean", "ObsJoined")),
            (Q, "variant nodereg must violate ReturnClean", q_cfg("nodereg", invs="ReturnClean"), ("ReturnClean",)),
            (Q, "variant extrasend must violate ObsSendsBound", q_cfg("extrasend", invs="ObsSendsBound"), ("ObsSendsBound",)),
            (Q, "variant noclosedck must violate ObsClosedNoSend", q_cfg("noclosedck", invs="ObsClosedNoSend"), ("ObsClosedNoSend",)),
            (Q, "variant unbuffered must violate Quiesces", q_cfg("unbuffered", props="Quiesces"), ("Quiesces",))]
    nq = 2 if tier == "quick" else 3
    for owner in ("Bootstrap", "Announce", "Get", "Put", "Refresh"):
        runs.append((O, "owner %s (repaired design) safety + liveness NQ=%d" % (owner, nq), o_cfg(owner, nq), None))
    for owner in ("Bootstrap", "Get", "Put"):
        runs.append((O, "owner %s as coded (no Stop on starting-nodes error) must violate StopBeforeReturn" % owner,
                     o_cfg(owner, 1, stop=False), ("StopBeforeReturn",)))
    runs.append((O, "owner Announce as coded (getPeers ignores its context) must violate EndsClean", o_cfg("Announce", 1, watch=False),
                 ("EndsClean",)))
    if tier == "thorough":
        runs.insert(1, (Q, "query safety NumTries 1..5", q_cfg(nset="{1,2,3,4,5}", budgets=False), None))

    def one(run):
        mod, name, cfg, expect = run
        return run, vlib.tlc(mod, cfg, workers=2, timeout=900)

    with ThreadPoolExecutor(max_workers=max(2, vlib.NCPU // 2)) as ex:
        results = list(ex.map(one, runs))
    for (mod, name, cfg, expect), r in results:
        got = r.invariant or r.property
        log("  TLC %-86s %6d distinct %7d generated %5.1fs %s" % (name, r.distinct, r.generated, r.wall,
                                                                 "(violated, as required: %s)" % got if expect and got in expect else ""))
        if expect:
            if got not in expect:
                v.inconclusive.append("vacuity guard failed: '%s' gave inv=%s prop=%s err=%s" % (name, r.invariant, r.property, r.error))
            else:
                cov["vacuity_guards"].append(dict(run=name, violated=got))
            continue
        if not r.clean:
            v.inconclusive.append("model run '%s' not clean: inv=%s prop=%s err=%s timeout=%s (a model-only counter-example is a "
                                  "spec/design question, not a verdict about the code)" % (name, r.invariant, r.property, r.error, r.timed_out))
            continue
        cov["states"] += r.distinct
        cov["transitions"] += r.generated
        cov["mc_runs"].append(dict(run=name, distinct=r.distinct, generated=r.generated, depth=r.depth, wall_s=round(r.wall, 1)))


def maint_claim(prop):
    return lambda kind, what: prop if kind in ("Hang", "Leak", "Wedged") else None


def new_cov():
    return dict(mc_runs=[], vacuity_guards=[], samples=[], traces_validated_against_impl=0, states=0, transitions=0, evaluations=0,
                events_validated=0, deviations_without_property_violation=0, query_scripts_run=0, query_scripts_diverged=0,
                query_stimuli_skipped=0, owner_scenarios_run=0, owner_scenarios_skipped=0, event_classes={}, apis={})


def run(prop, tier, seed, replay=None):
    t0 = time.time()
    v = vlib.Verdict(prop)
    cov = new_cov()
    binary = vlib.go_build("life")
    wd = vlib.scratch("verif-life-")
    if replay:
        meta = json.load(open(os.path.join(replay, "meta.json")))
        start = meta.get("start", {})
        rseed = start.get("seed", seed)
        if meta.get("maint"):
            fam_maint.run_jobs(tier, seed, v, cov, maint_claim(prop), jobs=[(meta["seed"], meta["n"], meta["k"])])
        elif meta.get("kind") == "owner":
            run_owner_part(prop, tier, rseed, v, cov, binary, wd, only=start.get("name"))
        else:
            scripts = [dict(cfg=dict(n=start["n"], budget=start["budget"], bwait=start["bwait"]), hist=start["hist"].split(),
                            id=start["script"])]
            run_query_part(prop, tier, rseed, v, cov, binary, wd, scripts, only=start["script"])
    else:
        with ThreadPoolExecutor(max_workers=2) as ex:
            s1 = ex.submit(stage1, tier, v, cov)
            gen = ex.submit(gen_scripts, tier, v, cov)
            s1.result()
            scripts = gen.result()
        sel = scripts
        if tier == "quick":
            # every script with NumTries <= 2, a seeded half of the NumTries = 3 ones (all of them in the thorough tier)
            rng = random.Random(seed)
            sel = [s for s in scripts if s["cfg"]["n"] <= 2 or rng.random() < 0.5]
        run_query_part(prop, tier, seed, v, cov, binary, wd, sel)
        run_owner_part(prop, tier, seed, v, cov, binary, wd)
        if tier == "thorough":
            for k in range(1, 4):   # the concretisation (API, addresses, reply kind, node kinds) depends on the seed
                run_query_part(prop, tier, seed * 100 + k, v, cov, binary, wd, scripts)
                run_owner_part(prop, tier, seed * 100 + k, v, cov, binary, wd)
            # the table maintainer against its own specification (Maintainer.tla, DESIGN 11.7): a routine that does not
            # return after Close, or goroutines of a pass that outlive it, fall under this property
            fam_maint.model(tier, v, cov)
            cov["traces_validated_against_impl"] += fam_maint.run_jobs(tier, seed, v, cov, maint_claim(prop))
    rc = v.finish()
    cov.update(distinct_nontrivial=cov["traces_validated_against_impl"], exhaustive=False,
               rule="query part: every finished behaviour of the gate-normal generator model (TLC; placements of reply, cancellation, "
                    "Close, write failure on send i, limiter refusal/blocking, timer expiry around the sends; NumTries 1..3) is run "
                    "against a fresh real Server through Query/Ping/PingQueryInput/FindNode/GetPeers/Get/Put/questionable ping with the "
                    "sender goroutine parked in Conn.WriteTo / QueryResendDelay; every logged event is validated by TLC as a step of "
                    "QueryLifecycle.tla and the Obs* invariants judge return class, writes, datagrams per t, pending transactions and "
                    "goroutines left after the bound. owner part: Bootstrap/Announce/getput.Get/getput.Put/TableMaintainer against a "
                    "simulated network {finish, no/failed starting nodes, ctx cancel / Server.Close / Announce.Close / StopTraversing at "
                    "each quiescent point, Peers reader gone}, judged by Owners!MustEndFor on the API-level log",
               invariants=[k for k, p in INV_PROPS.items() if prop in p])
    vlib.write_evidence(prop, tier, seed, cov, time.time() - t0, len(v.violations),
                        assumptions=["a leak/hang is what is still there 2 s (>= 2x the longest configured time-out, 3 x 1 ms) / 5 s after the "
                                     "last stimulus; hangs must reproduce on two more runs",
                                     "the asynchronous socket close of Server.Close is scheduled as late as possible (adversarial but legal)",
                                     "the sender is controlled only through the two caller-supplied gates; races between two ready cases of "
                                     "one select are explored by TLC only, the driver takes whichever the runtime picks and TLC validates it",
                                     "owner scenarios: the inside of the traversal is not logged (C02-C04 cover it); only API-level events "
                                     "and what is left behind are judged"])
    return rc
