"""C14: every query and traversal ends and cleans up after itself (spec/QueryLifecycle.tla,
spec/Owners.tla, MC_QueryLifecycle*.tla, Trace_QueryLifecycle*.tla; harness/cmd/life)."""
import json
import os
import random
import re
import time
from concurrent.futures import ThreadPoolExecutor

import vlib
from vlib import log

PROPS = ("C14",)

# invariant of a trace specification -> the properties it states
INV_PROPS = {
    # Trace_QueryLifecycle: one query, judged on the harness's log alone (observer `o`, Quiesce line)
    "ObsSendsBound": ["C14"],      # at most NumTries datagrams handed to the socket
    "ObsJoined": ["C14"],          # the call did not return while the sender goroutine was held in a gate
    "ObsNoLateSend": ["C14"],      # nothing handed to the socket after the return
    "ObsClosedNoSend": ["C14"],    # a query started after Close fails with 0 writes, nothing reaches the socket
    "ObsResult": ["C14"],          # reply => one was accepted; ctx error => cancelled; time-out => all sends made and
                                   # the last interval elapsed; any other error => a send really failed
    "ObsWrites": ["C14"],          # QueryResult.Writes = datagrams written
    "ObsNoHang": ["C14"],          # the call returned
    "ObsNoPending": ["C14"],       # Stats().OutstandingTransactions = 0 afterwards
    "ObsNoGoroutines": ["C14"],    # no goroutine of the module left (after the bound)
    "ObsDatagrams": ["C14"],       # datagrams with the query's `t` captured on the socket <= NumTries
    # Trace_QueryLifecycle_Owners
    "ObsOwnerStopped": ["C14"],    # an owner that was obliged to end did end (no hang)
    "ObsOwnerClean": ["C14"],      # ... and left no transaction / goroutine behind
    "ObsOwnerResult": ["C14"],     # ctx error only if cancelled, start error only if the resolver failed / was empty
}

Q_INV = ("TypeOK ReturnClean SendsBound ResultJustified ClosedNoSend NoLateSend "
         "ObsSendsBound ObsJoined ObsNoLateSend ObsClosedNoSend ObsResult ObsWrites")


def q_cfg(variant="code", gen=False, nset="{1,2,3}", budgets=True, invs=Q_INV, props="", extra=""):
    spec = "SPECIFICATION FairSpec" if props else "INIT MCInit\nNEXT Next"
    return """CONSTANTS
 Variant = "%s"
 Gen = %s
 NSet = %s
 Budgets = %s
%s
%s
%s
%s
CHECK_DEADLOCK FALSE
""" % (variant, "TRUE" if gen else "FALSE", nset, "TRUE" if budgets else "FALSE", spec,
       ("INVARIANTS " + invs) if invs and not props else "", ("PROPERTIES " + props) if props else "", extra)


def stage1_query(tier, v, cov):
    """Exhaustive TLC: the design of Query/sender admits no bad state and always returns; each broken
    variant must be caught by the invariant that is meant to catch it (vacuity guards)."""
    runs = [("query safety n=1..3, all limiter budgets", q_cfg(), None),
            ("query liveness Returns, Quiesces (weak fairness of steps and timers)", q_cfg(props="Returns Quiesces"), None),
            ("variant nojoin must violate ReturnClean/ObsJoined", q_cfg("nojoin", invs="ReturnClean ObsJoined"), ("inv", ("ReturnClean", "ObsJoined"))),
            ("variant nodereg must violate ReturnClean", q_cfg("nodereg", invs="ReturnClean"), ("inv", ("ReturnClean",))),
            ("variant extrasend must violate ObsSendsBound", q_cfg("extrasend", invs="ObsSendsBound"), ("inv", ("ObsSendsBound",))),
            ("variant noclosedck must violate ObsClosedNoSend", q_cfg("noclosedck", invs="ObsClosedNoSend"), ("inv", ("ObsClosedNoSend",))),
            ("variant unbuffered must violate Quiesces", q_cfg("unbuffered", props="Quiesces"), ("prop", ("Quiesces",)))]
    if tier == "thorough":
        runs.insert(1, ("query safety n=1..4", q_cfg(nset="{1,2,3,4}"), None))

    def one(run):
        name, cfg, expect = run
        return run, vlib.tlc("MC_QueryLifecycle", cfg, workers=4, timeout=900)

    with ThreadPoolExecutor(max_workers=4) as ex:
        results = list(ex.map(one, runs))
    for (name, cfg, expect), r in results:
        got = r.invariant if (expect and expect[0] == "inv") else r.property
        log("  TLC %-72s %7d distinct %8d generated %5.1fs %s" % (name, r.distinct, r.generated, r.wall,
                                                                 "(violated, as required: %s)" % got if expect and got in expect[1] else ""))
        if expect:
            if got not in expect[1]:
                v.inconclusive.append("vacuity guard failed: '%s' gave inv=%s prop=%s err=%s" % (name, r.invariant, r.property, r.error))
            continue
        if not r.clean:
            v.inconclusive.append("model run '%s' not clean: inv=%s prop=%s err=%s timeout=%s (a model-only counter-example is a "
                                  "spec/design question, not a verdict about the code)" % (name, r.invariant, r.property, r.error, r.timed_out))
            continue
        cov["states"] += r.distinct
        cov["transitions"] += r.generated
        cov["mc_runs"].append(dict(run=name, distinct=r.distinct, generated=r.generated, depth=r.depth, wall_s=round(r.wall, 1)))


def gen_scripts(tier, v, cov):
    """TLC as generator: every finished behaviour of the gate-normal model is one script."""
    cfg = q_cfg(gen=True, invs="TypeOK ReturnClean ObsResult", extra="CONSTRAINT GenOut")
    r = vlib.tlc("MC_QueryLifecycle", cfg, workers=4, timeout=900)
    if r.timed_out or r.invariant or r.property or "SCRIPT" not in r.out:
        raise vlib.Inconclusive("script generator model failed: inv=%s err=%s timeout=%s" % (r.invariant, r.error, r.timed_out))
    seen = set()
    for m in re.finditer(r'<<"SCRIPT", "((?:[^"\\]|\\.)*)">>', r.out):
        seen.add(m.group(1).encode().decode("unicode_escape"))
    scripts = [json.loads(s) for s in sorted(seen)]
    for i, s in enumerate(scripts):
        s["id"] = i
    log("  TLC generator: %d distinct finished behaviours of the gate-normal model (%d states, %.1fs)" % (len(scripts), r.distinct, r.wall))
    cov["generator"] = dict(scripts=len(scripts), distinct=r.distinct, generated=r.generated, wall_s=round(r.wall, 1))
    return scripts


def validate(module, strict_cfg, relaxed_cfg, trace_path, max_dev_rounds=5, timeout=900):
    """Validates a multi-segment trace.  Pass A: strict (every line a step of the specification, all
    Obs* invariants as TLC invariants).  If that is not clean, pass B: one follow-the-log run over the
    whole file in which the specification's own invariant definitions are evaluated after every
    line and every falsified one is reported (OBSVIOLATION name line seg) - all offending segments at
    once.  What strict mode still rejects afterwards, although no invariant is falsified, is a
    deviation (the code does not follow the design's steps, but no listed property is violated).
    Same result shape as vlib.validate_trace."""
    lines = vlib.read_trace(trace_path)
    res = dict(lines=len(lines), segments=len(set(vlib.seg_of(l) for l in lines)), findings=[], deviations=[],
               tlc=[], inconclusive=[], accepted_segments=0)
    wd = vlib.scratch("verif-tv-")
    tp = os.path.join(wd, "cur.ndjson")

    def run(cfg, cur):
        vlib.write_lines(tp, cur)
        r = vlib.tlc(module, cfg, workers=1, timeout=timeout, files={"trace.ndjson": tp})
        res["tlc"].append(r)
        return r

    cur = lines
    r = run(strict_cfg, cur)
    if r.clean:
        res["accepted_segments"] = res["segments"]
        return res
    if r.timed_out or r.error:
        res["inconclusive"].append("TLC %s on trace (strict): %s" % ("timeout" if r.timed_out else "error", r.error))
        return res
    r2 = run(relaxed_cfg, cur)
    if r2.timed_out or r2.error:
        res["inconclusive"].append("TLC %s on trace (follow-the-log): %s" % ("timeout" if r2.timed_out else "error", r2.error))
        return res
    bad = {}
    for m in re.finditer(r'<<"OBSVIOLATION", "(\w+)", (\d+), (\d+)>>', r2.out):
        name, l, seg = m.group(1), int(m.group(2)), int(m.group(3))
        if seg not in bad:
            bad[seg] = (name, cur[l - 1] if 0 < l <= len(cur) else "")
    if r2.rejected_at is not None:
        line = cur[r2.rejected_at - 1] if 0 < r2.rejected_at <= len(cur) else ""
        res["findings"].append(dict(kind="unexplained", name="unexplained", props=[], seg=vlib.seg_of(line), line=line))
        bad.setdefault(vlib.seg_of(line), None)
    for seg, nl in bad.items():
        if nl:
            res["findings"].append(dict(kind="invariant", name=nl[0], props=INV_PROPS.get(nl[0], []), seg=seg, line=nl[1],
                                        state="", mode=relaxed_cfg))
    cur = [x for x in cur if vlib.seg_of(x) not in bad]
    rounds = 0
    limit = 1 if res["findings"] else max_dev_rounds
    while cur and rounds < limit:
        rounds += 1
        r = run(strict_cfg, cur)
        if r.clean:
            res["accepted_segments"] = len(set(vlib.seg_of(l) for l in cur))
            return res
        if r.timed_out or r.error:
            res["inconclusive"].append("TLC %s on trace (strict): %s" % ("timeout" if r.timed_out else "error", r.error))
            return res
        if r.rejected_at is not None:
            line = cur[r.rejected_at - 1] if 0 < r.rejected_at <= len(cur) else ""
            sg = vlib.seg_of(line)
            res["deviations"].append(dict(seg=sg, line=line))
        elif r.invariant:
            l = vlib.state_l(r)
            line = cur[l - 2] if l and 0 <= l - 2 < len(cur) else ""
            sg = vlib.seg_of(line)
            res["findings"].append(dict(kind="invariant", name=r.invariant, props=INV_PROPS.get(r.invariant, []), seg=sg,
                                        line=line, state=r.last_state, mode=strict_cfg))
        else:
            res["inconclusive"].append("unclassified TLC outcome on trace: %s" % r.property)
            return res
        cur = [x for x in cur if vlib.seg_of(x) != sg]
    if cur and not res["findings"]:
        res["inconclusive"].append("gave up after %d strict rounds; %d lines not validated" % (rounds, len(cur)))
    return res


def parse_status(so, what):
    try:
        return json.loads(so.strip().splitlines()[-1])
    except Exception:
        raise vlib.Inconclusive("%s driver printed no status line: %s" % (what, (so or "")[-500:]))


def seg_lines(lines, seg):
    return [x for x in lines if vlib.seg_of(x) == seg]


def judge(prop, v, tv, lines, kind, keyfn, cov):
    """Turns the findings of a validated trace into verdicts."""
    for i in tv["inconclusive"]:
        v.inconclusive.append(i)
    for d in tv["deviations"]:
        cov["deviations_without_property_violation"] += 1
        log("  deviation (%s; no listed property violated): %s" % (kind, d["line"][:200]))
    for f in tv["findings"]:
        segl = seg_lines(lines, f["seg"])
        start = json.loads(segl[0]) if segl else {}
        if f["kind"] == "unexplained":
            v.inconclusive.append("%s scenario %s cannot be followed even in follow-the-log mode (harness or specification "
                                  "problem): %s" % (kind, start.get("script", start.get("name")), f["line"][:300]))
            continue
        if prop not in f["props"]:
            continue
        key, what = keyfn(f, start, segl)
        rp = vlib.save_replay(prop, re.sub(r"[^A-Za-z0-9_.-]+", "_", key),
                              {"trace.ndjson": "\n".join(segl) + "\n", "state.txt": f.get("state") or ""},
                              dict(property=prop, kind=kind, invariant=f["name"], key=key, start=start, line=f["line"],
                                   how="bin/check %s --replay <this dir>" % prop))
        v.violation(key, what, rp)


def query_key(f, start, segl):
    inv = f["name"]
    q = None
    for x in segl:
        if '"Quiesce"' in x:
            q = json.loads(x)
    api = start.get("api", "Query")
    if inv == "ObsNoGoroutines" and q:
        key = "leak:%s:%s" % (api, ",".join(sorted(set(q.get("left", [])))) or "goroutine")
    elif inv == "ObsNoHang":
        key = "hang:%s" % api
    else:
        key = "%s:%s" % (inv, api)
    what = ("%s violated by %s (NumTries=%s, limiter budget=%s) under schedule [%s] (script %s): %s"
            % (inv, api, start.get("n"), start.get("budget"), start.get("hist"), start.get("script"), f["line"][:240]))
    return key, what


def run_query_part(prop, tier, seed, v, cov, binary, wd, scripts, only=None):
    sp = os.path.join(wd, "scripts.json")
    with open(sp, "w") as f:
        json.dump(scripts, f)
    parts = 1 if only is not None else min(8, max(1, vlib.NCPU // 2))
    jobs = list(range(parts))

    def one(part):
        out = os.path.join(wd, "q-%d.ndjson" % part)
        args = ["-mode", "query", "-seed", seed, "-scripts", sp, "-out", out, "-part", part, "-parts", parts]
        if only is not None:
            args += ["-only", only]
        rc, so, se = vlib.run_driver(binary, args, timeout=1500)
        if rc != 0:
            raise vlib.Inconclusive("life driver (query) failed rc=%s: %s" % (rc, (se or "")[-3000:]))
        st = parse_status(so, "life/query")
        tv = validate("Trace_QueryLifecycle", "Trace_QueryLifecycle.cfg", "Trace_QueryLifecycle_relaxed.cfg", out)
        return out, st, tv

    with ThreadPoolExecutor(max_workers=parts) as ex:
        results = list(ex.map(one, jobs))
    for out, st, tv in results:
        lines = vlib.read_trace(out)
        cov["evaluations"] += st["scenarios"]
        cov["events_validated"] += st["events"]
        cov["query_scripts_diverged"] += st["diverged"]
        cov["query_stimuli_skipped"] += st["skipped"]
        cov["traces_validated_against_impl"] += tv["accepted_segments"]
        if len(cov["samples"]) < 12 and lines:
            cov["samples"] += [json.loads(x) for x in lines[:12 - len(cov["samples"])]]
        judge(prop, v, tv, lines, "query", query_key, cov)


def run(prop, tier, seed, replay=None):
    t0 = time.time()
    v = vlib.Verdict(prop)
    cov = dict(mc_runs=[], samples=[], traces_validated_against_impl=0, states=0, transitions=0, evaluations=0,
               events_validated=0, deviations_without_property_violation=0, query_scripts_diverged=0, query_stimuli_skipped=0)
    binary = vlib.go_build("life")
    wd = vlib.scratch("verif-life-")
    if not replay:
        stage1_query(tier, v, cov)
    scripts = gen_scripts(tier, v, cov)
    rng = random.Random(seed)
    sel = scripts
    run_query_part(prop, tier, seed, v, cov, binary, wd, sel)
    rc = v.finish()
    cov.update(distinct_nontrivial=cov["traces_validated_against_impl"], exhaustive=False,
               invariants=[k for k, p in INV_PROPS.items() if prop in p])
    vlib.write_evidence(prop, tier, seed, cov, time.time() - t0, len(v.violations), assumptions=[])
    return rc
