"""C01, C07, C08, C10, C11, C19, C20: the KRPC server at its boundaries (spec/KrpcServer.tla = observer,
MC_KrpcServer.tla = design model judged by the observer, Trace_KrpcServer.tla; harness/cmd/srv)."""
import json
import os
import time
from concurrent.futures import ThreadPoolExecutor

import vlib
from vlib import log

PROPS = ("C01", "C07", "C08", "C10", "C11", "C19", "C20")

# property -> (driver modes with (scenarios, events) per tier, MC focus runs per tier)
PLAN = {
    "C07": dict(modes={"quick": [("match", 48, 40)], "thorough": [("match", 400, 60), ("wrap", 1, 66000)]},
                mc={"quick": [("match", 6, {})], "thorough": [("match", 8, {})]}),
    "C08": dict(modes={"quick": [("dispatch", 64, 40), ("tokens", 16, 40), ("match", 16, 40), ("net", 8, 40)],
                       "thorough": [("dispatch", 800, 60), ("tokens", 200, 60), ("match", 100, 60), ("net", 64, 60)]},
                mc={"quick": [("dispatch", 4, {})], "thorough": [("dispatch", 5, {}), ("dispatch", 4, {"Passive": "TRUE"})]}),
    "C10": dict(modes={"quick": [("tokens", 48, 40), ("dispatch", 16, 40), ("net", 8, 40)],
                       "thorough": [("tokens", 600, 60), ("dispatch", 200, 60), ("net", 64, 60)]},
                mc={"quick": [("tokens", 4, {})], "thorough": [("tokens", 5, {})]}),
    "C11": dict(modes={"quick": [("peers", 48, 50), ("net", 8, 40)], "thorough": [("peers", 600, 80), ("net", 64, 60)]},
                mc={"quick": [("peers", 4, {})], "thorough": [("peers", 5, {})]}),
    "C19": dict(modes={"quick": [("block", 48, 40)], "thorough": [("block", 600, 60)]},
                mc={"quick": [("block", 4, {}), ("block", 4, {"Passive": "TRUE"})],
                    "thorough": [("block", 5, {}), ("block", 5, {"Passive": "TRUE"})]}),
    "C20": dict(modes={"quick": [("budget", 32, 40)], "thorough": [("budget", 400, 60)]},
                mc={"quick": [("budget", 4, {"Burst": "1"}), ("budget", 4, {"Burst": "0"})],
                    "thorough": [("budget", 5, {"Burst": "2"}), ("budget", 5, {"Burst": "1"}), ("budget", 5, {"Burst": "0"})]}),
    "C01": dict(modes={"quick": [("hostile", 48, 500), ("hostileslow", 8, 200), ("dispatch", 16, 40), ("tokens", 16, 40)],
                       "thorough": [("hostile", 400, 2000), ("hostileslow", 16, 400), ("dispatch", 200, 60), ("tokens", 200, 60)]},
                mc={"quick": [("dispatch", 4, {})], "thorough": [("dispatch", 5, {})]}),
}


def mc_cfg(focus, maxn, over):
    c = dict(Passive="FALSE", PeerStore="TRUE", AnnounceCb="TRUE", Hook="TRUE", Burst=None, MaxN=str(maxn), Focus='"%s"' % focus)
    c.update(over)
    lines = ["CONSTANTS"]
    for k, v in c.items():
        lines.append(" %s %s" % (k, ("= " + v) if v is not None else "<- BurstNone"))
    lines += ["SPECIFICATION Spec", "INVARIANTS NoBad", "CHECK_DEADLOCK FALSE"]
    return "\n".join(lines) + "\n"


def trace_cfg(prop):
    return "SPECIFICATION TraceSpec\nINVARIANTS Inv%s\nCONSTRAINT HW\nPOSTCONDITION Accepted\nCHECK_DEADLOCK FALSE\n" % prop


def stage1(prop, tier, v, cov):
    st = tr = 0
    for focus, maxn, over in PLAN[prop]["mc"][tier]:
        r = vlib.tlc("MC_KrpcServer", mc_cfg(focus, maxn, over), timeout=3000)
        log("  TLC MC_KrpcServer focus=%s MaxN=%d %s  %d distinct  %d generated  %.1fs" % (focus, maxn, over or "", r.distinct, r.generated, r.wall))
        if not r.clean:
            v.inconclusive.append("model run focus=%s not clean: inv=%s prop=%s err=%s timeout=%s (a model-only counter-example is a spec/design "
                                  "question, never a verdict about the code)" % (focus, r.invariant, r.property, r.error, r.timed_out))
            continue
        st += r.distinct
        tr += r.generated
        cov["mc_runs"].append(dict(run="MC_KrpcServer focus=%s MaxN=%d %s" % (focus, maxn, over), distinct=r.distinct,
                                   generated=r.generated, depth=r.depth, wall_s=round(r.wall, 1)))
    if prop == "C10":
        # the token window at one-second grain against the rotation grid, and the two vacuity guards
        def tw(d):
            return "CONSTANTS\n Interval = 300\n MaxDelta = %d\nSPECIFICATION Spec\nINVARIANTS HonouredTenMinutes DeadAfterFifteen\nCHECK_DEADLOCK FALSE\n" % d
        r = vlib.tlc("TokenWindow", tw(2), timeout=900)
        log("  TLC TokenWindow (all issue/use instants, 1 s grain)  %d distinct  %.1fs" % (r.distinct, r.wall))
        if not r.clean:
            v.inconclusive.append("TokenWindow not clean: %s %s" % (r.invariant, r.error))
        else:
            st += r.distinct
            tr += r.generated
            cov["mc_runs"].append(dict(run="TokenWindow Interval=300 MaxDelta=2", distinct=r.distinct, generated=r.generated, depth=r.depth, wall_s=round(r.wall, 1)))
        for d, inv in ((1, "HonouredTenMinutes"), (3, "DeadAfterFifteen")):
            g = vlib.tlc("TokenWindow", tw(d), timeout=900)
            if g.invariant != inv:
                v.inconclusive.append("vacuity guard failed: TokenWindow with MaxDelta=%d did not violate %s" % (d, inv))
        # the same two laws for every pair of instants, by proof (tlapm, SMT back end)
        ok, n, wall, out = vlib.tlapm("TokenWindowProof", timeout=600)
        log("  tlapm TokenWindowProof: %s (%d obligations, %.1fs)" % ("all proved" if ok else "NOT proved", n, wall))
        if ok:
            cov["proofs"] = [dict(module="TokenWindowProof", obligations=n, backend="tlapm/SMT", wall_s=round(wall, 1),
                                  theorems=["HonouredTenMinutes: for all T <= U, U - T <= 600 => accepted",
                                            "DeadAfterFifteen: for all T <= U, accepted => U - T < 900"])]
        else:
            # the proof is an extra on top of TLC's enumeration of every issue/use instant above: if the proof system
            # cannot be run here, that is reported, not held against the check
            log("  note: tlapm did not prove TokenWindowProof here: %s" % out[-300:].replace("\n", " | "))
    cov["states"] = st
    cov["transitions"] = tr


def corrupt(prop):
    def f(lines):
        ds = [json.loads(l) for l in lines]
        def out(i, d, what):
            return what, lines[:i] + [json.dumps(d)] + lines[i + 1:]
        for i, d in enumerate(ds):
            e = d["e"]
            if prop == "C08" and e == "Out" and d["kind"] == "r" and len(d["t"]) >= 2:
                d["t"] = d["t"][:-2] + ("00" if d["t"][-2:] != "00" else "01")
                return out(i, d, "changed the last byte of a logged reply's transaction ID")
            if prop == "C07" and e == "Ret" and d["class"] == "reply" and len(d["t"]) >= 2:
                d["t"] = d["t"][:-2] + ("00" if d["t"][-2:] != "00" else "01")
                return out(i, d, "changed the transaction ID of a logged query return")
            if prop == "C10" and e == "In" and d["q"] == "announce_peer" and d["hasA"] and d["tok"] and not d["drop"]:
                nxt = next((j for j in range(i + 1, len(ds)) if ds[j]["e"] == "In"), len(ds))    # its own effects only
                if any(x["e"] == "Cb" and x["kind"] in ("AddPeer", "OnAnnounce") for x in ds[i + 1:min(nxt, i + 4)]):
                    d["tok"] = "00" + d["tok"][2:] if d["tok"][:2] != "00" else "01" + d["tok"][2:]
                    return out(i, d, "altered the token of a logged announce_peer whose effects were logged")
            if prop == "C11" and e == "Cb" and d["kind"] == "AddPeer":
                d["port"] = d["port"] % 65535 + 1
                return out(i, d, "changed the port of a logged AddPeer callback")
            if prop == "C19" and e == "Out" and not d["failed"]:
                blk = json.dumps({"seg": d["seg"], "node": d.get("node", ""), "e": "SetBlock", "blocked": [d["dst"]["ipn"]]})
                return "inserted a blocklist entry covering the destination of a logged write", lines[:i] + [blk] + lines[i:]
            if prop == "C20" and e == "Start" and d["burst"] > 0 and d["rate"] == 0:
                d["burst"] = 0
                return out(i, d, "declared a burst of 0 for a scenario in which rated datagrams were written")
            if prop == "C01" and e == "Probe":
                d["answered"] = False
                return out(i, d, "marked a logged probe ping as unanswered")
        return None
    return f


def run(prop, tier, seed, replay=None):
    t0 = time.time()
    v = vlib.Verdict(prop)
    cov = dict(mc_runs=[], samples=[], traces_validated_against_impl=0)
    if not replay:
        stage1(prop, tier, v, cov)
    binary = vlib.go_build("srv")
    wd = vlib.scratch("verif-srv-")
    jobs = []
    if replay:
        meta = json.load(open(os.path.join(replay, "meta.json")))
        if not meta.get("maint"):
            jobs = [(meta["mode"], meta["seed"], meta["scenario"] + 1, meta["events"], meta["scenario"])]
    else:
        for mode, n, events in PLAN[prop]["modes"][tier]:
            split = 8 if tier == "quick" else 16
            if mode == "wrap":
                split = 1
            for i in range(split):
                jobs.append((mode, seed * 1000 + i, max(1, n // split), events, None))

    def one(job):
        mode, s, n, events, only = job
        out = os.path.join(wd, "trace-%s-%d.ndjson" % (mode, s))
        args = ["-mode", mode, "-seed", s, "-n", n, "-events", events, "-out", out]
        if only is not None:
            args += ["-only", only]
        rc, so, se = vlib.run_driver(binary, args, timeout=2400)
        crash = None
        if rc != 0:
            if rc is None:
                raise vlib.Inconclusive("driver srv -mode %s timed out" % mode)
            if vlib.code_panic(se):
                crash = (se or "")[-8000:]
            elif "DRIVER-ERROR" in (se or ""):
                crash = (se or "")[-3000:]
            else:
                raise vlib.Inconclusive("driver srv -mode %s failed (rc=%s): %s" % (mode, rc, (se or "")[-3000:]))
        tv = None
        if os.path.exists(out) and os.path.getsize(out) > 0:
            module = "Trace_KrpcNet" if mode == "net" else "Trace_KrpcServer"
            tv = vlib.validate_trace(module, (trace_cfg(prop), None), out, {"Inv" + prop: [prop]}, timeout=1500)
        return job, out, crash, tv

    with ThreadPoolExecutor(max_workers=max(1, min(len(jobs), max(1, vlib.NCPU // 2)))) as ex:
        results = list(ex.map(one, jobs))
    events_total = 0
    okres = [r for r in results if r[3] is not None and r[0][0] != "net" and not r[2]]
    if not replay and okres:
        st_ = dict(tried=False, detected=True, what="")
        for r in okres[:4]:
            st_ = vlib.binding_selftest("Trace_KrpcServer", (trace_cfg(prop), None), r[1], corrupt(prop), {"Inv" + prop: [prop]})
            if st_["tried"]:
                break
        cov["binding_selftest"] = st_
        log("  binding self-test: %s -> %s" % (st_["what"], "rejected, as required" if st_["detected"] else "NOT NOTICED"))
        if not st_["detected"]:
            v.inconclusive.append("binding self-test failed: the validator accepted a corrupted trace (%s)" % st_["what"])
    for (mode, s, n, nev, only), out, crash, tv in results:
        lines = vlib.read_trace(out) if os.path.exists(out) else []
        events_total += len(lines)
        if crash:
            last_in = next((x for x in reversed(lines) if '"e":"In"' in x or '"e":"Call"' in x), "")
            seg = vlib.seg_of(lines[-1]) if lines else 0
            first = crash.strip().splitlines()
            head = next((x for x in first if x.startswith("panic:") or x.startswith("fatal error:") or "DRIVER-ERROR" in x), first[0] if first else "")
            is_panic = "panic:" in crash or "fatal error:" in crash
            wedged = "DRIVER-ERROR" in crash and ("did not come back" in crash or "did not finish" in crash)
            if prop == "C01" and (is_panic or wedged):
                rp = vlib.save_replay(prop, "crash-%s-%s-%s" % (mode, s, seg), {"stderr.txt": crash, "trace-tail.ndjson": "\n".join(lines[-50:]) + "\n"},
                                      dict(property=prop, mode=mode, seed=s, scenario=seg, events=nev, last_event=last_in[:2000]))
                v.violation("crash:" + head[:80], "the node %s while handling inbound traffic (mode %s seed %s scenario %s): %s; last event %s"
                            % ("panicked" if is_panic else "stopped serving", mode, s, seg, head[:200], last_in[:300]), rp)
            elif is_panic or wedged:
                log("  note: the node %s in mode %s seed %s (judged by C01): %s" % ("panicked" if is_panic else "stopped serving", mode, s, head[:200]))
                v.inconclusive.append("driver process died in mode %s seed %s: %s (C01 judges crashes; this property could not be evaluated past that point)" % (mode, s, head[:200]))
            else:
                v.inconclusive.append("driver error in mode %s seed %s: %s" % (mode, s, head[:300]))
        if tv is None:
            continue
        cov["traces_validated_against_impl"] += tv["accepted_segments"]
        for i in tv["inconclusive"]:
            v.inconclusive.append(i)
        if not cov["samples"] and lines:
            cov["samples"] = [json.loads(x) for x in lines[:10]]
        for f in tv["findings"]:
            if f["kind"] == "unexplained":
                v.inconclusive.append("trace line could not be evaluated by the observer (harness/spec mismatch): mode %s seed %s: %s" % (mode, s, f["line"][:300]))
                continue
            segl = [x for x in lines if vlib.seg_of(x) == f["seg"]]
            what = ""
            st = f.get("state") or ""
            import re
            tags = re.findall(r'what \|->\s*"([^"]+)",\s*p \|-> \{([^}]*)\}', st) + \
                [(w, ps) for ps, w in re.findall(r'p \|-> \{([^}]*)\},\s*what \|->\s*"([^"]+)"', st)]
            m = sorted(set(w for w, ps in tags if prop in ps))
            what = "; ".join(m) if m else f["name"]
            rp = vlib.save_replay(prop, "%s-%s-%s" % (mode, s, f["seg"]), {"trace.ndjson": "\n".join(segl) + "\n", "state.txt": st},
                                  dict(property=prop, mode=mode, seed=s, scenario=f["seg"], events=nev, line=f["line"][:2000], tags=m))
            v.violation(what[:120], "%s (mode %s seed %s scenario %s) at event %s" % (what, mode, s, f["seg"], f["line"][:300]), rp)
    cov.update(evaluations=events_total, distinct_nontrivial=cov["traces_validated_against_impl"], exhaustive=False,
               rule="seeded scenarios against a real Server behind a fake PacketConn with recording callbacks, a controlled token clock and send "
                    "limiter; every boundary event (datagram in/out decoded by an independent bencode reader, callback, API call/return, quiescence) "
                    "is judged by the observer KrpcServer!Step in TLC; modes: %s" % ", ".join(m for m, _, _ in PLAN[prop]["modes"][tier]),
               invariants=["Inv" + prop])
    if prop == "C01" and (not replay or json.load(open(os.path.join(replay, "meta.json"))).get("maint")):
        # the node's own background routine takes part: TableMaintainer walks the table under the read lock while
        # replies and strangers' datagrams queue for the write lock (spec/Maintainer.tla, DESIGN 11.7); a node that
        # stops taking datagrams, or a crash, is this property's business (full trace validation: C14 thorough, X-MAINT)
        import fam_maint
        mjobs = None
        if replay:
            mm = json.load(open(os.path.join(replay, "meta.json")))
            mjobs = [(mm["seed"], mm["n"], mm["k"])]
        fam_maint.run_jobs(tier, seed, v, cov, lambda kind, what: prop if kind in ("Wedged", "crash") else None, jobs=mjobs,
                           validate=False)
    rc = v.finish()
    if not replay:      # a replay re-runs one stored case; the evidence of the last full run is left alone
        vlib.write_evidence(prop, tier, seed, cov, time.time() - t0, len(v.violations),
                            assumptions=["datagrams are built and decoded by the harness's own bencode code, not by the packages under test",
                                         "quiescence = no reply/error/callback goroutine of the module left (stack scan) after a synchronous injection",
                                         "sources are *net.UDPAddr with 4- or 16-byte IPs, as a UDP socket produces"])
    return rc
