"""C15, C17, C18: the "pure function" properties.  The TLA+ module is an executable, independently written
reference (spec/KrpcCodec.tla, Bep42.tla, Kademlia.tla):
  stage 1  TLC checks the laws of the property statement on the definitions over a small universe
           (MC_*.tla: the states enumerate the inputs);
  stage 2  harness/cmd/recs calls the REAL functions of the repository on structured, seeded inputs and
           writes one ndjson record per call;
  stage 3  TLC validates every record against the definitions (Trace_*.tla).  A record the reference
           rejects is a call on which the real code disagrees with the specification."""
import copy
import hashlib
import json
import os
import re
import time
from concurrent.futures import ThreadPoolExecutor

import vlib
from vlib import log

PROPS = ("C15", "C17", "C18")

FAM = {
    "C18": dict(fam="kademlia", trace="Trace_Kademlia", n=dict(quick=1500, thorough=40000),
                stateful=("Set", "Knn")),
    "C17": dict(fam="bep42", trace="Trace_Bep42", n=dict(quick=300, thorough=26000), stateful=()),
    "C15": dict(fam="codec", trace="Trace_KrpcCodec", n=dict(quick=1200, thorough=20000), stateful=()),
}

# what states which property: every record kind (trace event) of a family and every invariant of its trace
# specification serves exactly one property; a check reports only rejections of its own family
EVENT_PROPS = {
    "C18": ["Dist", "Cmp", "BitLen", "IsZero", "GetBit", "SetBit", "Bucket", "RandBucket", "Closer", "Order",
            "SetNew", "SetAdd", "SetDelete", "SetLen", "SetNext", "KnnNew", "KnnPush"],
    "C17": ["Secure", "Verify", "DetId", "InitId", "ServerId"],
    "C15": ["MsgRT", "MsgDec", "Compact", "Direct", "NodesFile", "NodesFileRaw"],
}
INV_PROPS = {"KeepsKNearest": ["C18"]}
MAX_FINDINGS = 2          # per chunk: the violation is established, the rest of the chunk is left unvalidated

RULES = {
    "C18": "a 2- and 3-bit ID universe embedded at every bit offset 0..160-W with random/zero/all-ones filler (all pairs: "
           "Distance via the three entry points, Cmp, bucket index), single-bit differences and every shared-prefix length "
           "0..159 with random tails, extremes (zero, max, 1, 0x80.., 0x7f.., 0xaa..) with Get/SetBit at all 160 positions, "
           "one-hot and prefix-ones IDs, seeded random pairs; VerifRandomIdInBucket for every bucket of 5 roots; CloserThan "
           "on all pairs and triples of seeded candidate universes (ID-less entries with garbage ID bytes, equal-ID ties, "
           "no/4-byte/16-byte/v4-mapped addresses, 3 ports), two targets each; the sorted candidate set and the K-nearest "
           "container replayed step by step (all push sequences of length 3 over 5 elements with ties for K=1,2; seeded "
           "longer sequences, K in {0,1,2,3,8})",
    "C17": "the five BEP 42 vectors as 4-byte and v4-mapped addresses; every IPv4 address with <= 1 bit set x all 8 values "
           "of r; every IPv4 address with 2 bits set (x 8 r in the thorough tier, 1 rotating r in quick); first/last address "
           "of every exempt network and both outside neighbours in both address forms; IPv6 samples (global, ::, ::1, "
           "fe80::/10 edges, fc00::/7, NAT64, v4-compatible); seeded random (ID, address) pairs; for each: SecureNodeId twice "
           "+ NodeIdSecure, NodeIdSecure on the original ID, on the secured ID and on near misses (one of the 21 bits "
           "flipped, bit 22 flipped, another r, other bytes changed); MakeDeterministicNodeID, InitNodeId in all four "
           "Conn/NoSecurity configurations (+ preset NodeId), NewServer(...).ID() over a fake socket",
    "C15": "message shapes: none/each field alone in 3 variants (present-but-empty, minimal, seeded)/all/all-but-one for "
           "Msg, MsgArgs and Return; the message forms of BEP 5/32/33/43/44/51; seeded presence subsets (p=0.2..0.9) with "
           "seeded variants (nil vs empty, 4-byte vs v4-mapped vs 16-byte addresses, int extremes, nested BEP 44 values); a few "
           "shapes outside the round-trip clause; byte strings: ~110 hand-made datagrams around the decoders' special cases, "
           "9 mutation operators on valid encodings, random bytes and random bencode; the five compact formats at every "
           "length 0..4*size+1 through UnmarshalBinary and UnmarshalBencode plus longer ones; 13 decoders called directly "
           "with raw inputs and bencode strings of every length 0..153, hex texts, 30 junk values and mutated bencode; the "
           "nodes file with 0..9 nodes of both families and raw files of every length 0..153",
}
ASSUMPTIONS = {
    "C18": ["the bucket index of the root itself is undefined (whatever the code does there is accepted)",
            "equidistant elements (same ID, other address) may be kept, evicted and listed in any order by the K-nearest "
            "container; the tie-break of CloserThan among equal IDs only has to be a strict total order (the code's "
            "address-then-port order is checked in strict mode and reported as a deviation, not a violation)",
            "VerifRandomIdInBucket draws from crypto/rand: the bits after the bucket position are not seeded"],
    "C17": ["IPv6 unique-local addresses fc00::/7 are not in BEP 42's exemption list and not named by the statement: either "
            "answer of NodeIdSecure is accepted there",
            "ServerConfig.InitNodeId with NoSecurity=true and no Conn (not reachable through NewServer) is not constrained",
            "the 2^20 x 8 space of masked IPv4 addresses is sampled structurally, not enumerated (TLC would need hours and "
            "gigabytes of records); the CRC32-C of the reference is written in TLA+ and checked against published vectors"],
    "C15": ["byte-exact fidelity of bencode itself is not modelled: the wire bytes are compared by the driver, the reference "
            "judges shapes (field presence, values, nil/empty) and outcomes",
            "arbitrary byte strings are sampled (hand-made, mutation operators, random), not enumerated",
            "ID.UnmarshalText is neither a message nor a compact-format decoder and not an UnmarshalBinary/UnmarshalBencode: "
            "its behaviour is reported as a deviation only"],
}


# ----------------------------------------------------------------------------------------------
# stage 1: exhaustive TLC on the definitions

def kad_cfg(spec, idlen, bv, k, invs):
    return """CONSTANTS
 IdLen = %d
 ByteVals = "%s"
 K = %d
SPECIFICATION %s
INVARIANTS %s
CHECK_DEADLOCK FALSE
""" % (idlen, bv, k, spec, invs)


KAD_METRIC = ("BitLenLaw SetGetBit XorSymmetric XorIdentity XorIsBitwise OrderIsUnsigned BucketIsSharedPrefix "
              "IdInBucketLands Unidirectional Triangle DeeperIsCloser DistOrderTotal")
KAD_ORDER = "Irreflexive Asymmetric Total EqualNotLess KnownIdsFirst ByDistance MustOrTied Transitive"
KAD_KNN = "KeepsKNearest FarthestDefined"
BEP_INVS = ("PublishedVectors TypeOK ChangesOnlyFirst21 Idempotent SecuredVerifies MatchesIffFixpoint FirstBitsMatter "
            "LocalAcceptsAll MappedAgrees MaskedBitsIgnored LowHalfIgnored RMatters")
CODEC_INVS = "AllWellFormed RoundTripLaw FixpointLaw CanonLaw DecodedIsStable KeysLaw CompactLaw"


def codec_cfg(part, base, maxdev, reduced=True):
    return """CONSTANTS
 Part = "%s"
 Reduced = %s
 Base = "%s"
 MaxDev = %d
SPECIFICATION Spec
INVARIANTS %s
CHECK_DEADLOCK FALSE
""" % (part, "TRUE" if reduced else "FALSE", base, maxdev, CODEC_INVS)


def mc_runs(prop, tier):
    """[(name, module, cfg text)]"""
    q = tier == "quick"
    if prop == "C18":
        runs = [("metric laws, all triples of 5-bit IDs", "MC_Kademlia", kad_cfg("SpecMetric", 1, "w5", 2, KAD_METRIC)),
                ("metric laws, 2-byte IDs over {0,1,2,127,128,255}", "MC_Kademlia", kad_cfg("SpecMetric", 2, "mix", 2, KAD_METRIC)),
                ("closeness order, all candidate triples x targets", "MC_Kademlia", kad_cfg("SpecOrder", 1, "w2", 2, KAD_ORDER)),
                ("K-nearest K=1, 2-bit IDs x 2 addresses", "MC_Kademlia", kad_cfg("SpecKnn", 1, "w2", 1, KAD_KNN)),
                ("K-nearest K=2, 2-bit IDs x 2 addresses", "MC_Kademlia", kad_cfg("SpecKnn", 1, "w2", 2, KAD_KNN)),
                ("K-nearest K=3, 2-bit IDs x 2 addresses", "MC_Kademlia", kad_cfg("SpecKnn", 1, "w2", 3, KAD_KNN))]
        if not q:
            runs += [("metric laws, all triples of 6-bit IDs", "MC_Kademlia", kad_cfg("SpecMetric", 1, "w6", 2, KAD_METRIC)),
                     ("metric laws, 1-byte IDs touching every bit position", "MC_Kademlia", kad_cfg("SpecMetric", 1, "hi4", 2, KAD_METRIC)),
                     ("K-nearest K=0", "MC_Kademlia", kad_cfg("SpecKnn", 1, "w2", 0, KAD_KNN)),
                     ("K-nearest K=2, 3-bit IDs x 2 addresses", "MC_Kademlia", kad_cfg("SpecKnn", 1, "w3", 2, KAD_KNN)),
                     ("K-nearest K=3, 3-bit IDs x 2 addresses", "MC_Kademlia", kad_cfg("SpecKnn", 1, "w3", 3, KAD_KNN))]
        return runs
    if prop == "C17":
        uni, what = ("small", "<= 1 bit") if q else ("full", "<= 2 bits")
        return [("BEP 42 laws, IPv4 addresses with %s set + edges + IPv6 x 64 ID shapes" % what, "MC_Bep42",
                 "CONSTANTS\n Universe = \"%s\"\nSPECIFICATION Spec\nINVARIANTS %s\nCHECK_DEADLOCK FALSE\n" % (uni, BEP_INVS))]
    if prop == "C15":
        ra, rf = (2, 2) if q else (4, 3)
        runs = [("codec laws, all Msg envelope shapes", "MC_KrpcCodec", codec_cfg("msg", "zero", 99, q)),
                ("codec laws, MsgArgs shapes within %d fields of empty" % ra, "MC_KrpcCodec", codec_cfg("args", "zero", ra, q)),
                ("codec laws, MsgArgs shapes within %d fields of full" % rf, "MC_KrpcCodec", codec_cfg("args", "full", rf, q)),
                ("codec laws, Return shapes within %d fields of empty" % ra, "MC_KrpcCodec", codec_cfg("ret", "zero", ra, q)),
                ("codec laws, Return shapes within %d fields of full" % rf, "MC_KrpcCodec", codec_cfg("ret", "full", rf, q))]
        return runs
    raise ValueError(prop)


def stage1(prop, tier, v, cov):
    runs = mc_runs(prop, tier)
    per = max(2, vlib.NCPU // max(1, min(len(runs), 4)))

    def one(run):
        name, module, cfg = run
        return run, vlib.tlc(module, cfg, workers=per, timeout=1500 if tier == "quick" else 2400)

    states = trans = 0
    with ThreadPoolExecutor(max_workers=min(len(runs), 4)) as ex:
        for (name, module, cfg), r in ex.map(one, runs):
            log("  TLC %-62s %8d distinct %9d generated  %.1fs" % (name, r.distinct, r.generated, r.wall))
            if not r.clean:
                v.inconclusive.append("model run '%s' not clean: inv=%s prop=%s err=%s timeout=%s (a counter-example on the "
                                      "definitions alone is a specification question, not a verdict about the code)"
                                      % (name, r.invariant, r.property, r.error, r.timed_out))
                continue
            states += r.distinct
            trans += r.generated
            cov["mc_runs"].append(dict(run=name, distinct=r.distinct, generated=r.generated, depth=r.depth, wall_s=round(r.wall, 1)))
    cov["states"] = states
    cov["transitions"] = trans


# ----------------------------------------------------------------------------------------------
# stage 3: record validation

def _first(lines, pred):
    for i, l in enumerate(lines):
        try:
            r = json.loads(l)
        except ValueError:
            continue
        if pred(r):
            return i, r
    return None, None


def _tlc_trace(prop, cfg_suffix, lines, wd, tag, timeout=1800):
    tp = os.path.join(wd, "t-%s.ndjson" % tag)
    vlib.write_lines(tp, lines)
    return vlib.tlc(FAM[prop]["trace"], FAM[prop]["trace"] + cfg_suffix + ".cfg", workers=1, timeout=timeout,
                    files={"trace.ndjson": tp})


def _is_stateful(prop, line):
    m = json.loads(line).get("e", "")
    return any(m.startswith(p) for p in FAM[prop]["stateful"])


def validate_chunk(prop, lines, wd, tag):
    """Strict validation of a run of whole segments; a rejected segment is judged again alone by the
    relaxed configuration (what the statement says, nothing more).  Returns dict(accepted_lines,
    accepted_segments, findings, deviations, inconclusive, unvalidated)."""
    res = dict(accepted_lines=0, accepted_segments=0, findings=[], deviations=[], inconclusive=[], unvalidated=0, tlc_runs=0)
    cur = lines
    rnd = 0
    while cur:
        rnd += 1
        r = _tlc_trace(prop, "", cur, wd, "%s-%d" % (tag, rnd))
        res["tlc_runs"] += 1
        if r.timed_out or r.error:
            res["inconclusive"].append("TLC %s while validating records: %s" % ("timeout" if r.timed_out else "error", (r.error or "")[:400]))
            res["unvalidated"] += len(cur)
            break
        if r.clean:
            res["accepted_lines"] += len(cur)
            res["accepted_segments"] += len(set(vlib.seg_of(x) for x in cur))
            break
        if r.invariant:
            l = vlib.state_l(r)
            idx = (l - 2) if l else None
        elif r.rejected_at is not None:
            idx = r.rejected_at - 1
        else:
            res["inconclusive"].append("unclassified TLC outcome while validating records")
            res["unvalidated"] += len(cur)
            break
        if idx is None or not (0 <= idx < len(cur)):
            res["inconclusive"].append("TLC reported a position outside the trace (%s)" % idx)
            res["unvalidated"] += len(cur)
            break
        sg = vlib.seg_of(cur[idx])
        first = next(i for i, x in enumerate(cur) if vlib.seg_of(x) == sg)
        last = max(i for i, x in enumerate(cur) if vlib.seg_of(x) == sg)
        before, segl, after = cur[:first], cur[first:last + 1], cur[last + 1:]
        res["accepted_lines"] += len(before)
        res["accepted_segments"] += len(set(vlib.seg_of(x) for x in before))
        # second opinion on this segment alone
        r2 = _tlc_trace(prop, "_relaxed", segl, wd, "%s-%d-seg" % (tag, rnd))
        res["tlc_runs"] += 1
        if r2.timed_out or r2.error:
            res["inconclusive"].append("TLC %s on a rejected segment: %s" % ("timeout" if r2.timed_out else "error", (r2.error or "")[:400]))
        elif r2.clean:
            res["deviations"].append(dict(seg=sg, line=cur[idx]))
            res["accepted_lines"] += len(segl)
            res["accepted_segments"] += 1
        else:
            if r2.invariant:
                l2 = vlib.state_l(r2)
                j = (l2 - 2) if l2 else None
                name = r2.invariant
            else:
                j = (r2.rejected_at - 1) if r2.rejected_at is not None else None
                name = "rejected"
            if j is None or not (0 <= j < len(segl)):
                res["inconclusive"].append("relaxed validation of a rejected segment gave no usable position")
            else:
                keep = segl[:j + 1] if _is_stateful(prop, segl[j]) else [segl[j]]
                res["findings"].append(dict(name=name, seg=sg, line=segl[j], lines=keep, state=r2.last_state or ""))
        cur = after
        if len(res["findings"]) >= MAX_FINDINGS:
            res["unvalidated"] += len(cur)
            break
    return res


def split_chunks(lines, k):
    """k runs of whole segments of similar size, in file order."""
    if not lines:
        return []
    target = max(1, len(lines) // k)
    chunks, cur, last = [], [], None
    for x in lines:
        s = vlib.seg_of(x)
        if cur and s != last and len(cur) >= target and len(chunks) < k - 1:
            chunks.append(cur)
            cur = []
        cur.append(x)
        last = s
    if cur:
        chunks.append(cur)
    return chunks


# ----------------------------------------------------------------------------------------------
# vacuity guard: a falsified record of every kind must be rejected by the relaxed reference

def _flip_id(a, byte=0, bit=1):
    a = list(a)
    a[byte] ^= bit
    return a


def _canaries(prop, lines):
    """[(name, [lines])]: each list ends with one falsified record (preceded, for the containers, by the
    records that build the state it is judged in)."""
    out = []

    def add(name, pred, fals, prefix=False):
        i, r = _first(lines, pred)
        if r is None:
            out.append((name, None))
            return
        r = copy.deepcopy(r)
        try:
            fals(r)
        except Exception:
            # the record found does not have the shape this falsifier expects (which can itself be what a
            # broken codec produces): no canary of this kind in this run; the validation below judges the records
            out.append((name, None))
            return
        pre = []
        if prefix:
            sg = r["seg"]
            pre = [x for x in lines[:i] if vlib.seg_of(x) == sg]
        out.append((name, pre + [json.dumps(r)]))

    def setk(k, f):
        def g(r):
            r[k] = f(r[k])
        return g

    ev = lambda e, extra=(lambda r: True): (lambda r: r.get("e") == e and not r.get("panic") and extra(r))
    if prop == "C18":
        add("Dist", ev("Dist"), setk("res", lambda x: _flip_id(x, 19)))
        add("Cmp", ev("Cmp"), setk("res", lambda x: (x + 2) % 3 - 1))
        add("BitLen", ev("BitLen"), setk("res", lambda x: x + 1))
        add("IsZero", ev("IsZero"), setk("res", lambda x: not x))
        add("GetBit", ev("GetBit"), setk("res", lambda x: 1 - x))
        add("SetBit", ev("SetBit", lambda r: r["i"] >= 8), setk("res", lambda x: _flip_id(x, 0, 128)))
        add("Bucket", ev("Bucket", lambda r: r["root"] != r["id"]), setk("res", lambda x: x + 1))
        add("RandBucket", ev("RandBucket", lambda r: r["i"] > 8), setk("res", lambda x: _flip_id(x, 0, 128)))

        def both(r):
            r["lr"] = r["rl"] = True
        add("Closer", ev("Closer"), both)

        def refl(r):
            r["m"][0][0] = True
        add("Order", ev("Order"), refl)
        add("SetNew", ev("SetNew"), setk("len", lambda x: 1))
        add("SetAdd", ev("SetAdd"), setk("len", lambda x: x + 1), True)
        add("SetDelete", ev("SetDelete"), setk("len", lambda x: x + 1), True)
        add("SetLen", ev("SetLen"), setk("res", lambda x: x + 1), True)

        def alien(r):
            r["res"]["port"] = 4242
        add("SetNext", ev("SetNext"), alien, True)
        add("KnnNew", ev("KnnNew"), setk("len", lambda x: 1))
        add("KnnPush", ev("KnnPush"), setk("len", lambda x: x + 1), True)

        def drop_nearest(r):
            r["range"] = r["range"][1:]
            r["len"] -= 1
        add("KnnPush-nearest", ev("KnnPush", lambda r: len(r["range"]) >= 2 and r["range"][0]["id"] != r["range"][-1]["id"]
                                  and r["c"] != r["range"][0]), drop_nearest, True)
    elif prop == "C17":
        pub = lambda r: len(r["ip"]) == 4 and r["ip"][0] in (124, 21, 65, 84, 43, 1, 2, 4, 8)
        add("Secure-res", ev("Secure"), setk("res", lambda x: _flip_id(x, 1)))
        add("Secure-tail", ev("Secure"), lambda r: (r.__setitem__("res", _flip_id(r["res"], 7)), r.__setitem__("res2", r["res"])))
        add("Secure-ver", ev("Secure"), setk("ver", lambda x: False))
        add("Secure-idem", ev("Secure"), setk("res2", lambda x: _flip_id(x, 0)))
        add("Verify", ev("Verify", pub), setk("res", lambda x: not x))
        add("DetId", ev("DetId", pub), setk("res", lambda x: _flip_id(x, 0)))
        add("InitId", ev("InitId", lambda r: pub(r) and r["conn"] and not r["preset"]), setk("res", lambda x: _flip_id(x, 2, 8)))
        add("ServerId", ev("ServerId", pub), setk("res", lambda x: _flip_id(x, 0)))
    elif prop == "C15":
        wf = lambda r: r["encOk"] and r["decOk"] and r["fix"]
        add("MsgRT-fix", ev("MsgRT", wf), setk("fix", lambda x: False))

        def other_t(r):
            r["out"]["t"] = r["out"]["t"] + "ff"
        add("MsgRT-out", ev("MsgRT", wf), other_t)

        def tok(r):
            r["out"]["r"]["f"]["token"] = {"p": True, "h": ""}
        add("MsgRT-nilptr", ev("MsgRT", lambda r: wf(r) and r["in"]["r"]["p"] and not r["in"]["r"]["f"]["token"]["p"]), tok)
        add("MsgDec-fix", ev("MsgDec", lambda r: r["decOk"]), setk("fix", lambda x: False))
        add("MsgDec-panic", ev("MsgDec"), setk("panic", lambda x: True))
        add("Compact-ok", ev("Compact", lambda r: r["ok"] and len(r["in"]) > 0), setk("ok", lambda x: False))
        add("Compact-partial", ev("Compact", lambda r: not r["ok"]), setk("ok", lambda x: True))
        add("Compact-out", ev("Compact", lambda r: r["ok"] and len(r["in"]) > 0), setk("out", lambda x: _flip_id(x, 0)))
        add("Direct-panic", ev("Direct", lambda r: r["fn"] == "NodeAddr.UnmarshalBinary"), setk("panic", lambda x: True))
        add("NodesFile", ev("NodesFile", lambda r: r["rok"] and len(r["in"]) > 0), setk("out", lambda x: x[1:]))
        add("NodesFileRaw", ev("NodesFileRaw"), setk("ok", lambda x: not x))
    return out


def vacuity_guard(prop, lines, wd, v):
    cans = _canaries(prop, lines)
    missing = [n for n, c in cans if c is None]
    if missing:
        v.inconclusive.append("vacuity guard: the trace has no record to falsify for %s" % ", ".join(missing))
    cans = [(n, c) for n, c in cans if c is not None]

    def one(nc):
        n, c = nc
        r = _tlc_trace(prop, "_relaxed", c, wd, "canary-" + n, timeout=600)
        caught = (r.rejected_at == len(c)) or (r.invariant is not None)
        return n, caught, r

    with ThreadPoolExecutor(max_workers=max(2, vlib.NCPU // 2)) as ex:
        for n, caught, r in ex.map(one, cans):
            if not caught:
                v.inconclusive.append("vacuity guard: the reference did not reject a falsified %s record (rejected_at=%s error=%s)"
                                      % (n, r.rejected_at, (r.error or "")[:200]))
    return len(cans)


# ----------------------------------------------------------------------------------------------

def _short(line, n=260):
    return line if len(line) <= n else line[:n] + "...(%d bytes)" % len(line)


def _finding_key(rec):
    k = "%s" % rec.get("e")
    if rec.get("fn"):
        k += ":" + rec["fn"]
    if rec.get("ty"):
        k += ":" + rec["ty"]
    if rec.get("panic"):
        k += ":panic"
    return k


def _what(prop, rec):
    e = rec.get("e")
    if rec.get("panic"):
        return "%s%s panicked: %s" % (e, (" " + rec["fn"]) if rec.get("fn") else "", rec.get("pmsg", ""))
    return "the reference definitions reject the result of %s%s" % (e, (" " + rec["fn"]) if rec.get("fn") else "")


def run(prop, tier, seed, replay=None):
    t0 = time.time()
    fam = FAM[prop]
    v = vlib.Verdict(prop)
    cov = dict(mc_runs=[], samples=[], traces_validated_against_impl=0, states=0, transitions=0)
    # VERIF_RECS_FAST=1: machinery self-tests (mutants) skip the model runs and the vacuity guard
    fast = os.environ.get("VERIF_RECS_FAST") == "1"
    if os.path.realpath(vlib.REPO) != "/repo":
        # machinery self-test against a scratch copy of the repository (VERIF_REPO): what it finds is about the
        # mutant, so neither evidence/ nor evidence/replays/ of the framework are touched
        vlib.EVID = vlib.scratch("verif-selftest-evidence-")
        vlib.REPLAYS = os.path.join(vlib.EVID, "replays")
        log("  self-test against %s: evidence and replays go to %s (removed at exit)" % (vlib.REPO, vlib.EVID))
    if not replay and not fast:
        stage1(prop, tier, v, cov)
    binary = vlib.go_build("recs")
    wd = vlib.scratch("verif-recs-")
    out = os.path.join(wd, "trace.ndjson")
    n = fam["n"][tier]
    if replay:
        meta = json.load(open(os.path.join(replay, "meta.json")))
        args = ["-fam", fam["fam"], "-seed", meta.get("seed", seed), "-replay", os.path.join(replay, "trace.ndjson"), "-out", out]
    else:
        args = ["-fam", fam["fam"], "-seed", seed, "-n", n, "-out", out]
    rc, so, se = vlib.run_driver(binary, args, timeout=1800)
    if rc != 0:
        raise vlib.Inconclusive("recs driver failed (rc=%s): %s" % (rc, (se or "")[-3000:]))
    st = json.loads(so.strip().splitlines()[-1])
    lines = vlib.read_trace(out)
    log("  driver: %d records in %d segments, %d panics recorded  %s" % (st["records"], st["segments"], st["panics"],
                                                                         " ".join("%s=%d" % kv for kv in sorted(st["ops"].items()))))
    if not lines:
        raise vlib.Inconclusive("the driver produced no records")
    unknown = set(json.loads(x).get("e") for x in lines[:: max(1, len(lines) // 2000)]) - set(EVENT_PROPS[prop])
    if unknown:
        raise vlib.Inconclusive("records of unknown kind %s" % sorted(unknown))
    ncan = 0
    t1 = time.time()
    if not replay and not fast:
        ncan = vacuity_guard(prop, lines, wd, v)
        log("  vacuity guard: %d falsified records, every one must be rejected by the reference  %.1fs" % (ncan, time.time() - t1))
    t1 = time.time()
    k = 1 if replay else max(1, min(vlib.NCPU // 2, 8, len(lines) // 1500 + 1))
    chunks = split_chunks(lines, k)
    with ThreadPoolExecutor(max_workers=len(chunks)) as ex:
        results = list(ex.map(lambda ic: validate_chunk(prop, ic[1], wd, "c%d" % ic[0]), enumerate(chunks)))
    accepted = segs = deviations = unvalidated = runs = 0
    for res in results:
        accepted += res["accepted_lines"]
        segs += res["accepted_segments"]
        unvalidated += res["unvalidated"]
        runs += res["tlc_runs"]
        for i in res["inconclusive"]:
            v.inconclusive.append(i)
        for d in res["deviations"]:
            deviations += 1
            log("  deviation (strict reference only; no listed property violated): %s" % _short(d["line"]))
        for f in res["findings"]:
            rec = json.loads(f["line"])
            key = _finding_key(rec)
            props = INV_PROPS.get(f["name"]) or [p for p, evs in EVENT_PROPS.items() if rec.get("e") in evs]
            if prop not in props:
                log("  note: finding %s belongs to %s, not to this property" % (key, props))
                continue
            name = "%s-%s" % (key.replace(":", "-").replace(".", "_"), hashlib.sha1(json.dumps({a: b for a, b in rec.items() if a not in ("seg", "pmsg")},
                                                                                     sort_keys=True).encode()).hexdigest()[:8])
            rp = vlib.save_replay(prop, name, {"trace.ndjson": "\n".join(f["lines"]) + "\n", "state.txt": f["state"]},
                                  dict(property=prop, fam=fam["fam"], seed=seed, tier=tier, n=n, event=rec.get("e"), key=key,
                                       finding=f["name"], record=rec, how="bin/check %s --replay <this dir>" % prop))
            v.violation(key, "%s on input %s" % (_what(prop, rec), _short(json.dumps({a: b for a, b in rec.items()
                                                                                         if a not in ("seg", "pmsg")}), 400)), rp)
    cov["traces_validated_against_impl"] = segs
    cov["samples"] = [json.loads(x) for x in lines[:: max(1, len(lines) // 8)][:8] if len(x) < 4000]
    distinct = len(set(hashlib.sha1(re.sub(r'"seg":\d+', "", x).encode()).digest() for x in lines))
    cov.update(evaluations=len(lines), records_accepted=accepted, records_unvalidated=unvalidated, distinct_nontrivial=distinct,
               deviations_without_property_violation=deviations, panics_recorded=st["panics"], ops=st["ops"],
               vacuity_canaries_rejected=ncan, tlc_validation_runs=runs, exhaustive=False,
               rule=RULES[prop] + "; distinct_nontrivial counts the records that differ in operation, arguments or outcome "
                                  "(the segment number is ignored)",
               events=EVENT_PROPS[prop], invariants=[i for i, p in INV_PROPS.items() if prop in p], replay=bool(replay),
               selftest_fast_mode=fast)
    log("  validated: %d/%d records accepted in %d segments, %d deviations, %d findings, %d unvalidated  (%d TLC runs, %.1fs)"
        % (accepted, len(lines), segs, deviations, sum(len(r["findings"]) for r in results), unvalidated, runs, time.time() - t1))
    if unvalidated and not v.violations and not v.inconclusive:
        v.inconclusive.append("%d records were left unvalidated" % unvalidated)
    rc = v.finish()
    vlib.write_evidence(prop, tier, seed, cov, time.time() - t0, len(v.violations), assumptions=ASSUMPTIONS[prop])
    return rc
