"""Table maintenance (spec/Maintainer.tla, MC_Maintainer.tla, Trace_Maintainer.tla; harness/cmd/maint).

Not one of the listed properties by itself: the specification of Server.TableMaintainer and its binding to the
code.  `bin/check X-MAINT` runs it on its own; the thorough tier of C14 runs the same jobs and claims what falls
under C14's statement (the routine returns after Close, nothing of a pass outlives it) -- see DESIGN 11.7."""
import json
import os
import time
from concurrent.futures import ThreadPoolExecutor

import vlib
from vlib import log

CONTACTS = '{"c1","c2","c3","c4","c5","c6","c7","c8","c9","c10","c11","c12"}'
INVS = "TypeOK LockOK TableOK NoOrphans FanOut PingScope"


def mc_cfg(contacts, passes, hold=False, props=True):
    return ("SPECIFICATION MCSpec\nCONSTANTS\n Contacts = %s\n K = 2\n NB = 2\n BucketOf <- MCBucketOf\n MaxPingSends = 3\n"
            " Alpha = 2\n HoldWhileWaiting = %s\n MaxPasses = %d\n%s%s\nCHECK_DEADLOCK FALSE\n"
            % (contacts, "TRUE" if hold else "FALSE", passes,
               ("INVARIANTS %s\n" % INVS) if not hold else "INVARIANTS TypeOK\n",
               "PROPERTIES FailMarkOK StableUnderLock PassEnds Returns" if props else "PROPERTIES PassEnds"))


def trace_cfg(k):
    return ("CONSTANTS\n Contacts = %s\n K = %d\n NB = 160\n BucketOf <- TBucketOf\n MaxPingSends = 3\n Alpha = 3\n"
            " HoldWhileWaiting = FALSE\nSPECIFICATION TraceSpec\nINVARIANTS %s\nCONSTRAINT HW\nPOSTCONDITION Accepted\n"
            "CHECK_DEADLOCK FALSE\n" % (CONTACTS, k, INVS))


def model(tier, v, cov):
    """The design model: exhaustive, plus the variant that keeps the read lock while it waits (must get stuck)."""
    contacts, passes = ('{"a", "b", "c"}', 2) if tier == "thorough" else ('{"a", "c"}', 2)
    r = vlib.tlc("MC_Maintainer", mc_cfg(contacts, passes), timeout=3000)
    log("  TLC MC_Maintainer contacts=%s passes=%d  %d distinct  %d generated  %.1fs" % (contacts, passes, r.distinct, r.generated, r.wall))
    if not r.clean:
        v.inconclusive.append("maintainer model not clean: inv=%s prop=%s err=%s timeout=%s" % (r.invariant, r.property, r.error, r.timed_out))
        return
    cov["states"] = cov.get("states", 0) + r.distinct
    cov["transitions"] = cov.get("transitions", 0) + r.generated
    cov.setdefault("mc_runs", []).append(dict(run="MC_Maintainer: TableMaintainer's lock discipline, pings, refresh lookups, Close; contacts=%s, %d passes"
                                                  % (contacts, passes), distinct=r.distinct, generated=r.generated, depth=r.depth,
                                              wall_s=round(r.wall, 1)))
    if tier == "thorough":
        # a fourth contact makes bucket 0 overflow while the maintainer works: safety only (6.6e6 states, ~2-4 min)
        cfg4 = mc_cfg('{"a", "b", "c", "d"}', 1).replace("PROPERTIES FailMarkOK StableUnderLock PassEnds Returns", "PROPERTIES FailMarkOK StableUnderLock")
        r4 = vlib.tlc("MC_Maintainer", cfg4, timeout=3000)
        log("  TLC MC_Maintainer contacts={a,b,c,d} 1 pass, safety  %d distinct  %d generated  %.1fs" % (r4.distinct, r4.generated, r4.wall))
        if not r4.clean:
            v.inconclusive.append("maintainer model (4 contacts) not clean: inv=%s prop=%s err=%s timeout=%s" % (r4.invariant, r4.property, r4.error, r4.timed_out))
        else:
            cov["states"] += r4.distinct
            cov["transitions"] += r4.generated
            cov["mc_runs"].append(dict(run="MC_Maintainer: four contacts (bucket 0 overflows), one pass, safety properties", distinct=r4.distinct,
                                       generated=r4.generated, depth=r4.depth, wall_s=round(r4.wall, 1)))
    g = vlib.tlc("MC_Maintainer", mc_cfg('{"a", "c"}', 1, hold=True, props=False), timeout=900)
    stuck = g.property is not None or g.invariant is not None
    log("  vacuity guard: the variant that keeps the read lock while waiting for its pings %s" % ("gets stuck, as required" if stuck else "PASSES"))
    cov.setdefault("vacuity_guards", []).append(dict(guard="HoldWhileWaiting=TRUE must violate PassEnds", detected=stuck))
    if not stuck:
        v.inconclusive.append("vacuity guard failed: the lock-holding variant of the maintainer model satisfies PassEnds")


def corrupt(header):
    def f(seg):
        for i, l in enumerate(seg):
            d = json.loads(l)
            if d.get("e") == "Send" and d.get("q") == "find_node" and d.get("tb", -2) >= 0:
                d["tb"] += 1
                seg[i] = json.dumps(d)
                return "bucket of a refresh lookup's target changed in one recorded find_node", [header] + seg
        for i, l in enumerate(seg):
            d = json.loads(l)
            if d.get("e") == "Snap" and d.get("table"):
                d["table"][0]["failed"] = not d["table"][0]["failed"]
                seg[i] = json.dumps(d)
                return "failed-ping flag of one contact flipped in one recorded snapshot", [header] + seg
        return None
    return f


def jobs_for(tier, seed):
    if tier == "thorough":
        return [(seed * 100 + i, 40, 2 if i % 4 else 8) for i in range(12)]
    return [(seed * 100 + i, 14, 2 if i % 3 else 8) for i in range(4)]


def scan_only(out):
    """Without TLC: the events no behaviour of the specification contains (the driver's own verdicts)."""
    lines = vlib.read_trace(out)
    fs = [dict(kind="unexplained", seg=vlib.seg_of(l), line=l) for l in lines
          if '"e":"Wedged"' in l or '"e":"Hang"' in l or '"e":"Leak"' in l]
    return dict(findings=fs, inconclusive=[], accepted_segments=len(set(vlib.seg_of(l) for l in lines)) - 1 - len(set(f["seg"] for f in fs)))


def run_jobs(tier, seed, v, cov, claim, jobs=None, validate=True):
    """claim(kind, what) -> property id that owns a finding of that kind, or None (logged as a deviation)."""
    binary = vlib.go_build("maint")
    wd = vlib.scratch("verif-maint-")

    def one(job):
        s, n, k = job
        out = os.path.join(wd, "trace-%d.ndjson" % s)
        rc, so, se = vlib.run_driver(binary, ["-seed", s, "-n", n, "-k", k, "-trace", out], timeout=1500)
        if rc != 0:
            return job, out, dict(error="maint driver rc=%s: %s" % (rc, (se or "")[-3000:])), None
        if not validate:
            return job, out, {}, scan_only(out)
        tv = vlib.validate_trace("Trace_Maintainer", (trace_cfg(k), None), out, {}, timeout=1500, max_rounds=4)
        return job, out, {}, tv

    selftest = jobs is None and validate
    jobs = jobs or jobs_for(tier, seed)
    with ThreadPoolExecutor(max_workers=min(len(jobs), max(1, vlib.NCPU // 2))) as ex:
        results = list(ex.map(one, jobs))
    scen = events = pings = refresh = 0
    first = selftest
    for (s, n, k), out, st, tv in results:
        if st.get("error"):
            if vlib.code_panic(st["error"]):
                owner = claim("crash", st["error"])
                rp = vlib.save_replay(owner or "X-MAINT", "maint-crash-%s" % s, {"stderr.txt": st["error"]},
                                      dict(maint=True, seed=s, n=n, k=k, what="process died while TableMaintainer ran"))
                if owner:
                    v.violation("maint-crash", "the process died while TableMaintainer ran (seed %s): %s" % (s, st["error"].strip().splitlines()[0][:200]), rp)
                continue
            v.inconclusive.append(st["error"])
            continue
        lines = vlib.read_trace(out)
        if first and lines:
            first = False
            stt = vlib.binding_selftest("Trace_Maintainer", (trace_cfg(k), None), out, corrupt(lines[0]), {}, timeout=900)
            cov["binding_selftest_maintainer"] = stt
            log("  binding self-test (maintainer): %s -> %s" % (stt["what"], "rejected, as required" if stt["detected"] else "NOT NOTICED"))
            if not stt["detected"]:
                v.inconclusive.append("binding self-test failed: Trace_Maintainer accepted a corrupted trace (%s)" % stt["what"])
        for i in tv["inconclusive"]:
            v.inconclusive.append(i)
        scen += tv["accepted_segments"]
        events += len(lines)
        pings += sum(1 for x in lines if '"q":"ping"' in x)
        refresh += sum(1 for x in lines if '"q":"find_node"' in x and '"tb":-2' not in x)
        for f in tv["findings"]:
            try:
                d = json.loads(f["line"])
            except Exception:
                d = {}
            kind = d.get("e", "?")
            what = {"Hang": "TableMaintainer did not return within 30 s of Close",
                    "Leak": "goroutines of a maintenance pass were still alive 15 s after TableMaintainer returned",
                    "Wedged": "the node wedged while TableMaintainer ran: %s" % d.get("what", "")}.get(
                kind, "TableMaintainer did something Maintainer.tla does not allow, at recorded event %s" % f["line"][:300])
            owner = claim(kind, what)
            segl = [lines[0]] + [x for x in lines if vlib.seg_of(x) == f["seg"]]
            rp = vlib.save_replay(owner or "X-MAINT", "maint-%s-%s-%s" % (kind, s, f["seg"]), {"trace.ndjson": "\n".join(segl) + "\n"},
                                  dict(maint=True, seed=s, n=n, k=k, scenario=f["seg"], line=f["line"][:2000], what=what))
            if owner:
                v.violation("maint-" + kind, "%s (seed %s scenario %s)" % (what, s, f["seg"]), rp)
            else:
                log("  deviation from Maintainer.tla (no listed property): seed %s scenario %s: %s" % (s, f["seg"], f["line"][:200]))
    cov["maintainer_runs"] = dict(events=events, questionable_pings=pings, refresh_queries=refresh,
                                  rule="real TableMaintainer against 12 simulated contacts (answer pings at try 1/2/3/never, answer find_node in "
                                       "time/late/never with seeded node lists, ping the node; strangers' datagrams queue for the write lock in half "
                                       "of the scenarios), bucket size 2 and 8, Close when quiet or mid-pass; "
                                       + ("every recorded run must be a behaviour of Maintainer.tla (TLC trace validation)" if validate else
                                          "here only the driver's own verdicts are read from the traces (node wedged, routine not returning, "
                                          "goroutines left, process died); the full trace validation runs in C14's thorough tier and bin/check X-MAINT"))
    cov["maintainer_runs"]["scenarios_validated" if validate else "scenarios_scanned"] = scen
    return scen


def run(prop, tier, seed, replay=None):
    t0 = time.time()
    v = vlib.Verdict("X-MAINT")
    cov = dict(states=0, transitions=0, mc_runs=[], traces_validated_against_impl=0, exhaustive=False, samples=[])
    if replay:
        meta = json.load(open(os.path.join(replay, "meta.json")))
        run_jobs(tier, seed, v, cov, lambda kind, what: "X-MAINT", jobs=[(meta["seed"], meta["n"], meta["k"])])
        return v.finish()
    model(tier, v, cov)
    n = run_jobs(tier, seed, v, cov, lambda kind, what: "X-MAINT")
    cov["traces_validated_against_impl"] = n
    log("  maintainer: %d scenarios validated, %s" % (n, {k: cov["maintainer_runs"][k] for k in ("events", "questionable_pings", "refresh_queries")}))
    return v.finish()
