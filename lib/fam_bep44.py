"""C12, C13: the BEP 44 store and its client side (spec/Bep44Store.tla, GetPut.tla, MC_Bep44.tla,
MC_GetPut.tla, Trace_Bep44.tla, Trace_Bep44Client.tla; harness/cmd/b44).

Pipeline: (1) exhaustive TLC on the sequential put alphabet, the sequential seq/CAS/expiry model, the
concurrent model with the wrapper lock (Atomic = TRUE) and -- vacuity guard -- without it, which must
lose an update; (2) TLC prints every complete behaviour of the racy model as an attack schedule;
(3) the driver runs seeded histories through bep44.Wrapper, through a real server's socket and local
API, through getput against simulated remote nodes, and attempts every schedule on the real wrapper
over a gating store; (4) TLC validates every recorded line against the same actions and evaluates the
property's invariants on the reconstructed store after every line; (5) verdict and evidence."""
import json
import os
import random
import re
import threading
import time
from concurrent.futures import ThreadPoolExecutor

import vlib
from vlib import log

PROPS = ("C12", "C13")

INV_PROPS = {
    # C12: nothing forged or oversized is stored or served; rejected puts get the BEP 44 code and change nothing
    "StoredOK": ["C12"], "RightTarget": ["C12"], "RejectedPutCode": ["C12"], "ValidNotRefused": ["C12"],
    "ServeOnlyStored": ["C12"],
    # C12, client side
    "ClientVerified": ["C12"], "ClientHighest": ["C12"], "PutSeqHighest": ["C12"],
    # C13: versions only move forward
    "SeqRule": ["C13"], "RejectedUnchanged": ["C13"], "AcceptedStored": ["C13"], "AcceptedServed": ["C13"],
    "ExpiredNotServed": ["C13"], "GetSeqRule": ["C13"],
    "NoSeqDecrease": ["C13"], "NoEqualSeqOverwrite": ["C13"], "NoCasRace": ["C13"], "NoFreshDelete": ["C13"],
    # stated by no listed property (reported as a note only)
    "ClientFinds": [],
}
C12_INV = "StoredOK RightTarget RejectedPutCode ValidNotRefused ServeOnlyStored"
C13_INV = ("SeqRule RejectedUnchanged AcceptedStored AcceptedServed ExpiredNotServed GetSeqRule NoSeqDecrease "
           "NoEqualSeqOverwrite NoCasRace NoFreshDelete")
ALL_INV = C12_INV + " " + C13_INV

ASSUMPTIONS = [
    "items are abstracted to (key, salt, seq, cas, value) names with byte sizes; signatures are labelled with what they really "
    "sign by the harness's own signing-buffer construction and crypto/ed25519 (self-tested on the BEP 44 vectors), never by bep44.Verify",
    "when several rejection conditions hold any of the corresponding codes is accepted; a first put carrying a CAS is unconstrained; "
    "a CAS on a refresh (same seq, same value) may be honoured or ignored; immutable items are outside C13",
    "an expired item that has not been removed yet may be treated by a put as stored or as absent",
    "expiry is driven with the hook (*bep44.Item).VerifAge, never by sleeping; ages within 20 min below the one-hour expiry are not produced",
]


def sset(xs):
    return "{" + ", ".join('"%s"' % x if isinstance(x, str) else str(x) for x in xs) + "}"


def mc_cfg(procs, atomic, keys, salts, vals, seqs, cass, sigs, imm, putters, getters, maxops, initseqs, expiry, getseqs,
           sched=False, invs=ALL_INV, props="", view=True):
    return """CONSTANTS
 Procs = %s
 Atomic = %s
 Gen = TRUE
 Keys = %s
 Salts = %s
 Vals = %s
 Seqs = %s
 Cass = %s
 SigClasses = %s
 Immutables = %s
 Putters = %s
 Getters = %s
 MaxOps = %d
 InitSeqs = %s
 Expiry = %s
 GetSeqs = %s
 Sched = %s
SPECIFICATION Spec
%s
%s
%s
CHECK_DEADLOCK FALSE
""" % (sset(procs), "TRUE" if atomic else "FALSE", sset(keys), sset(salts), sset(vals), sset(seqs), sset(cass), sset(sigs),
       "TRUE" if imm else "FALSE", sset(putters), sset(getters), maxops, sset(initseqs), "TRUE" if expiry else "FALSE",
       "TRUE" if getseqs else "FALSE", "TRUE" if sched else "FALSE",
       ("INVARIANTS " + invs) if invs else "", ("PROPERTIES " + props) if props else "",
       "VIEW View" if view and not sched else "")


SIGS = ["ok", "osalt", "oseq", "oval", "okey", "garbage"]
BIG = 1000000


def cfg_alphabet(maxops):
    """C12: the whole put alphabet, sequentially: 2 keys x (2 salts + an oversized one) x seq 0..3 x (2 values + an oversized one)
    x 6 signature classes, plus immutable items, histories of maxops operations."""
    return mc_cfg(["w"], True, ["k1", "k2"], ["s0", "s64", "s65"], ["v2", "v1000", "v1001"], [0, 1, 2, 3], [0], SIGS, True,
                  ["w"], ["w"], maxops, [], False, False)


def cfg_seqrule(two_keys):
    """C13 sequential: seq and cas in 0..3 and a large value, two values, gets with and without a sequence number, expiry;
    histories of any length on one target (targets are independent; two targets square the state count and add nothing)."""
    return mc_cfg(["w"], True, ["k1", "k2"] if two_keys else ["k1"], ["s0"], ["v1", "v2"], [0, 1, 2, 3, BIG], [0, 1, 2, 3, BIG],
                  ["ok"], False, ["w"], ["w"], 0, [1], True, True)


def cfg_conc(atomic, nput, wide, invs=ALL_INV, props="SeqForwardMC", sched=False, getter=True, initseqs=(1,)):
    putters = ["p%d" % (i + 1) for i in range(nput)]
    procs = putters + (["g"] if getter else [])
    seqs, cass = ([1, 2, 3], [0, 1, 2]) if wide else ([1, 2], [0, 1])
    return mc_cfg(procs, atomic, ["k1"], ["s0"], ["v1", "v2"], seqs, cass, ["ok"], False, putters, ["g"] if getter else [],
                  1, list(initseqs), not sched, False, sched=sched, invs=invs, props=props)


def getput_cfg(pick, mut, nresp):
    cl = (["genuine2", "genuine3", "stale1", "forged", "seqbump", "wrongkey", "othersalt", "noseq", "nokey", "nosig", "nov",
           "notoken", "imm", "empty"] if mut else ["imm", "immforged", "genuine2", "wrongkey", "nov", "empty"])
    return """CONSTANTS
 Responders = %s
 Classes = %s
 Pick = "%s"
 WantMut = %s
SPECIFICATION Spec
INVARIANTS ClientVerified ClientHighest ClientFinds
CHECK_DEADLOCK FALSE
""" % (sset(["n%d" % (i + 1) for i in range(nresp)]), sset(cl), pick, "TRUE" if mut else "FALSE")


def stage1(prop, tier, v, cov):
    """Exhaustive TLC: the design admits no bad state; the racy variants must fail (vacuity guards)."""
    thorough = tier == "thorough"
    runs = []   # (name, module, cfg, expected violation or None)
    if prop == "C12":
        runs.append(("put alphabet, sequential, %d ops" % (3 if thorough else 2), "MC_Bep44", cfg_alphabet(3 if thorough else 2), None))
        runs.append(("client get, mutable target, 3 responders", "MC_GetPut", getput_cfg("max", True, 3), None))
        runs.append(("client get, immutable target, %d responders" % (4 if thorough else 3), "MC_GetPut",
                     getput_cfg("max", False, 4 if thorough else 3), None))
        runs.append(("client keeping the first verified value must fail", "MC_GetPut", getput_cfg("first", True, 3), "ClientHighest"))
        runs.append(("client skipping verification must fail", "MC_GetPut", getput_cfg("noverify", True, 3), "ClientVerified"))
    else:
        runs.append(("seq/cas/expiry rule, sequential", "MC_Bep44", cfg_seqrule(False), None))
        runs.append(("2 putters + expiring getter, wrapper lock", "MC_Bep44", cfg_conc(True, 2, thorough), None))
        if thorough:
            runs.append(("3 putters, expiry, wrapper lock", "MC_Bep44", cfg_conc(True, 3, False, getter=False), None))
        runs.append(("no lock: a put must lower the stored seq", "MC_Bep44",
                     cfg_conc(False, 2, False, invs="NoSeqDecrease", props=""), "NoSeqDecrease"))
        runs.append(("no lock: an expiry must delete a fresh put", "MC_Bep44",
                     cfg_conc(False, 1, False, invs="NoFreshDelete", props=""), "NoFreshDelete"))
        runs.append(("no lock: the action property must fail", "MC_Bep44",
                     cfg_conc(False, 2, False, invs="", props="SeqForwardMC", getter=False), "SeqForwardMC"))

    def one(run):
        name, module, cfg, expect = run
        return run, vlib.tlc(module, cfg, workers=max(2, vlib.NCPU // 4), timeout=1500)

    with ThreadPoolExecutor(max_workers=3) as ex:
        results = list(ex.map(one, runs))
    states = trans = 0
    for (name, module, cfg, expect), r in results:
        got = r.invariant or r.property
        log("  TLC %-52s %8d distinct %9d generated  %5.1fs %s" % (name, r.distinct, r.generated, r.wall,
                                                                    "(violated, as required)" if expect and got == expect else ""))
        if expect:
            if got != expect:
                v.inconclusive.append("vacuity guard failed: '%s' did not violate %s (got %s, err %s)" % (name, expect, got, r.error))
            continue
        if not r.clean:
            v.inconclusive.append("model run '%s' not clean: inv=%s prop=%s err=%s timeout=%s (a model-only counter-example is a "
                                  "spec/design question, not a verdict about the code)" % (name, r.invariant, r.property, r.error, r.timed_out))
            continue
        states += r.distinct
        trans += r.generated
        cov["mc_runs"].append(dict(run=name, distinct=r.distinct, generated=r.generated, depth=r.depth, wall_s=round(r.wall, 1)))
    cov["states"] = states
    cov["transitions"] = trans


SCHED_RE = re.compile(r'"SCHED",\s*"((?:[^"\\]|\\.)*)"')


def gen_schedules(tier, seed, v, cov):
    """Stage 2: every complete behaviour of the racy (Atomic = FALSE) concurrent model, printed by TLC."""
    thorough = tier == "thorough"
    sets = [("2 putters", cfg_conc(False, 2, thorough, invs="EmitSchedules", props="", sched=True, getter=False)),
            ("1 putter + expiring getter", cfg_conc(False, 1, thorough, invs="EmitSchedules", props="", sched=True)),
            ("2 putters + expiring getter", cfg_conc(False, 2, False, invs="EmitSchedules", props="", sched=True))]
    if thorough:
        sets.append(("3 putters", mc_cfg(["p1", "p2", "p3"], False, ["k1"], ["s0"], ["v1", "v2"], [1, 2], [0], ["ok"], False,
                                         ["p1", "p2", "p3"], [], 1, [1], False, False, sched=True, invs="EmitSchedules")))

    def one(s):
        return s[0], vlib.tlc("MC_Bep44", s[1], workers=max(2, vlib.NCPU // 4), timeout=1500)

    with ThreadPoolExecutor(max_workers=3) as ex:
        results = list(ex.map(one, sets))
    out = {}
    rng = random.Random(seed)
    for name, r in results:
        if not r.clean:
            v.inconclusive.append("schedule generation '%s' failed: %s %s" % (name, r.error, "timeout" if r.timed_out else ""))
            continue
        lines = sorted(set(json.loads('"' + m.group(1) + '"') for m in SCHED_RE.finditer(r.out)))
        attack = [l for l in lines if '"bad":[]' not in l]
        rest = [l for l in lines if '"bad":[]' in l]
        rng.shuffle(rest)
        cap = 100000 if thorough else (1400 if name == "2 putters" else 700)
        # attack schedules (the model's counter-examples) first, the other admitted interleavings after them
        if len(attack) > cap:
            rng.shuffle(attack)
        sel = (attack + rest)[:cap]
        out[name] = sel
        log("  TLC schedules %-30s %6d behaviours (%d with a model violation), %d attempted  %.1fs" % (name, len(lines), len(attack), len(sel), r.wall))
        cov["schedule_sets"].append(dict(set=name, behaviours=len(lines), attack=len(attack), attempted=len(sel), distinct=r.distinct))
    return out


# ---------------------------------------------------------------------------------------------
# judging a trace

FINDING_RE = re.compile(r'"FINDING",\s*(\d+),\s*\{([^}]*)\}')


def expected_codes(st, it):
    """The sequential rule of Bep44Store.SeqCodes, for classifying a SeqRule finding."""
    if st["nil"]:
        return {0, 301} if it["cas"] != 0 else {0}
    r302 = it["seq"] < st["seq"] or (it["seq"] == st["seq"] and it["val"] != st["val"])
    r301 = it["cas"] != 0 and it["cas"] != st["seq"]
    c = ({302} if r302 else set()) | ({301} if r301 else set())
    if not c:
        return {0}
    if it["seq"] == st["seq"] and it["val"] == st["val"]:
        c = c | {0}
    return c


def classify(name, segl, idx):
    """Stable key of a defect and a one-line description, from the invariant and the events before it."""
    evs = [json.loads(x) for x in segl[:idx + 1]]
    last = evs[-1] if evs else {}
    p = last.get("p")
    mine = [e for e in evs if e.get("p") == p]
    begin = next((e for e in reversed(mine) if e["e"] in ("PutBegin", "WirePut", "GetBegin", "WireGet")), {})
    got = next((e for e in reversed(mine) if e["e"] == "StoreGet"), None)
    if name in ("NoSeqDecrease", "NoEqualSeqOverwrite", "NoCasRace"):
        return "lost-update", "concurrent callers of the wrapper: %s at the store call %s" % (
            {"NoSeqDecrease": "the stored seq decreased", "NoEqualSeqOverwrite": "a value was replaced by a different one with the same seq",
             "NoCasRace": "a put whose CAS no longer matched the stored seq was written"}[name], json.dumps(last)[:300])
    if name == "NoFreshDelete":
        return "expiry-deletes-fresh-put", "a get that had read an expired item deleted the fresh item a concurrent put had stored meanwhile: %s" % json.dumps(last)[:200]
    if name == "SeqRule" and begin.get("item"):
        it = begin["item"]
        st = got["res"] if got else dict(nil=True)
        exp = expected_codes(st, it)
        code = last.get("code")
        what = "put seq=%s cas=%s val=%s against stored seq=%s cas=%s val=%s answered %s, the rule allows %s" % (
            it["seq"], it["cas"], it["val"], st.get("seq"), st.get("cas"), st.get("val"), code, sorted(exp))
        if (301 in exp) != (code == 301) and code in (0, 301) and 302 not in exp:
            return "cas-compared-with-stored-cas", "CAS is not compared with the stored sequence number: " + what
        return "seq-rule", "sequence rule: " + what
    return name, "%s violated at %s" % (name, json.dumps(last)[:300])


def report_pass(module, cfg, path):
    """One TLC pass in report mode: {seg: (line index within file, [invariant names])} for the first line of each segment after
    which an invariant is false; plus structurally unexplained segments."""
    lines = vlib.read_trace(path)
    cur = lines
    unexplained = []
    runs = []
    for _ in range(4):
        if not cur:
            return {}, unexplained, cur, runs
        wd = vlib.scratch("verif-b44r-")
        tp = os.path.join(wd, "cur.ndjson")
        vlib.write_lines(tp, cur)
        r = vlib.tlc(module, cfg, workers=1, timeout=900, files={"trace.ndjson": tp})
        runs.append(r)
        if r.timed_out or r.error:
            raise vlib.Inconclusive("TLC (report mode) on %s: %s" % (os.path.basename(path), "timeout" if r.timed_out else r.error))
        if r.rejected_at is not None:
            line = cur[r.rejected_at - 1] if 0 < r.rejected_at <= len(cur) else ""
            sg = vlib.seg_of(line)
            unexplained.append(dict(seg=sg, line=line))
            cur = [x for x in cur if vlib.seg_of(x) != sg]
            continue
        found = {}
        for m in FINDING_RE.finditer(r.out):
            li = int(m.group(1)) - 1
            names = re.findall(r'"(\w+)"', m.group(2))
            if 0 <= li < len(cur):
                sg = vlib.seg_of(cur[li])
                if sg not in found or li < found[sg][0]:
                    found[sg] = (li, names)
        return found, unexplained, cur, runs
    raise vlib.Inconclusive("trace %s: more than 3 segments cannot be reconstructed" % os.path.basename(path))


_confirm_lock = threading.Lock()
_confirmed = set()


def judge(prop, v, cov, label, module, report_cfg, prop_cfg, path, meta_of, extra_files=None):
    """Report pass, confirmation of each distinct defect on its own segment, strict pass on the rest."""
    # the normal case first: one strict pass (the property's invariants as TLC INVARIANTS) accepts the whole file
    lines0 = vlib.read_trace(path)
    if not lines0:
        cov["per_mode"].append(dict(mode=label, lines=0, segments=0, accepted_segments=0, violating_segments=0))
        return 0
    r0 = vlib.tlc(module, prop_cfg, workers=1, timeout=900, files={"trace.ndjson": path})
    if r0.timed_out or r0.error:
        raise vlib.Inconclusive("TLC on trace %s: %s" % (os.path.basename(path), "timeout" if r0.timed_out else r0.error))
    if r0.clean:
        nseg = len(set(vlib.seg_of(x) for x in lines0))
        cov["traces_validated_against_impl"] += nseg
        cov["events_validated"] += len(lines0)
        cov["per_mode"].append(dict(mode=label, lines=len(lines0), segments=nseg, accepted_segments=nseg, violating_segments=0))
        return 0
    # something is wrong somewhere: classify every segment in one report pass, confirm, validate the rest strictly
    found, unexplained, cur, runs = report_pass(module, report_cfg, path)
    for u in unexplained:
        v.inconclusive.append("%s: segment %s cannot be reconstructed by the trace specification (harness problem or a change it cannot "
                              "follow): %s" % (label, u["seg"], u["line"][:300]))
    bysegs = {}
    for x in cur:
        bysegs.setdefault(vlib.seg_of(x), []).append(x)
    offs = {}
    n = 0
    for x in cur:
        sg = vlib.seg_of(x)
        if sg not in offs:
            offs[sg] = n
        n += 1
    mine, other = {}, {}
    for sg, (li, names) in sorted(found.items()):
        rel = [nm for nm in names if prop in INV_PROPS.get(nm, [])]
        (mine if rel else other)[sg] = (li - offs[sg], rel or names)
    for sg, (li, names) in list(other.items())[:5]:
        log("  note: %s: %s violated in segment %s; not this property (%s)" % (label, ",".join(names), sg,
                                                                              ",".join(sorted(set(sum((INV_PROPS.get(nm, []) for nm in names), [])))) or "no listed property"))
    if len(other) > 5:
        log("  note: %s: %d more segments violate invariants of other properties" % (label, len(other) - 5))
    keys = {}
    for sg, (li, names) in mine.items():
        k, what = classify(names[0], bysegs[sg], li)
        keys.setdefault(k, []).append((sg, li, names, what))
    for k, occ in keys.items():
        sg, li, names, what = occ[0]
        segl = bysegs[sg]
        with _confirm_lock:
            first = k not in _confirmed
            _confirmed.add(k)
        if not first:
            # the same defect was already confirmed (strict pass on its own segment, replay saved) on another trace of this run
            log("  note: %s: %d more segment(s) show the defect [%s] that is confirmed and reported from another trace of this run" % (label, len(occ), k))
            continue
        wd = vlib.scratch("verif-b44c-")
        sp = os.path.join(wd, "seg.ndjson")
        vlib.write_lines(sp, segl)
        tv = vlib.validate_trace(module, (prop_cfg, None), sp, INV_PROPS, max_rounds=2)
        conf = [f for f in tv["findings"] if f["kind"] == "invariant" and prop in f["props"]]
        if not conf:
            v.inconclusive.append("%s: report pass saw %s in segment %s but the strict pass did not confirm it" % (label, names, sg))
            continue
        f = conf[0]
        meta = meta_of(sg, segl)
        meta.update(property=prop, invariant=f["name"], key=k, occurrences=len(occ), line=f["line"],
                    how="bin/check %s --replay <this dir>" % prop)
        files = {"trace.ndjson": "\n".join(segl) + "\n", "state.txt": f.get("state") or ""}
        files.update(meta.pop("_files", {}))
        rp = vlib.save_replay(prop, "%s-%s-%s-%s" % (k, meta.get("mode"), meta.get("seed"), sg), files, meta)
        v.violation(k, "%s [%s, %d segment(s), first: %s segment %s, invariant %s]" % (what, k, len(occ), label, sg, f["name"]), rp)
    rest = [x for x in cur if vlib.seg_of(x) not in mine]
    accepted = 0
    if rest:
        wd = vlib.scratch("verif-b44s-")
        rp = os.path.join(wd, "rest.ndjson")
        vlib.write_lines(rp, rest)
        tv = vlib.validate_trace(module, (prop_cfg, None), rp, INV_PROPS, max_rounds=3, timeout=900)
        for i in tv["inconclusive"]:
            v.inconclusive.append("%s: %s" % (label, i))
        for f in tv["findings"]:
            v.inconclusive.append("%s: strict pass disagrees with the report pass at %s (%s)" % (label, f["line"][:200], f["name"]))
        accepted = tv["accepted_segments"]
    cov["traces_validated_against_impl"] += accepted
    cov["events_validated"] += len(rest)
    cov["per_mode"].append(dict(mode=label, lines=len(cur), segments=len(bysegs), accepted_segments=accepted,
                                violating_segments=len(mine), other_property_segments=len(other)))
    return len(mine)


def drive(binary, args, what, timeout=1500):
    rc, so, se = vlib.run_driver(binary, args, timeout=timeout)
    if rc != 0:
        raise vlib.Inconclusive("b44 driver (%s) failed (rc=%s): %s" % (what, rc, (se or "")[-2000:]))
    st = json.loads(so.strip().splitlines()[-1])
    return st


def run(prop, tier, seed, replay=None):
    t0 = time.time()
    _confirmed.clear()
    v = vlib.Verdict(prop)
    cov = dict(mc_runs=[], schedule_sets=[], samples=[], traces_validated_against_impl=0, events_validated=0, per_mode=[],
               states=0, transitions=0)
    thorough = tier == "thorough"
    wd = vlib.scratch("verif-b44-")
    scheds = {}
    if replay:
        meta = json.load(open(os.path.join(replay, "meta.json")))
    else:
        skip_mc = bool(os.environ.get("VERIF_B44_SKIP_MC"))   # machinery self-tests (mutants) only; never a green verdict
        if skip_mc:
            v.inconclusive.append("exhaustive model checking stage skipped (VERIF_B44_SKIP_MC)")
        with ThreadPoolExecutor(max_workers=2) as ex:
            f1 = ex.submit(stage1 if not skip_mc else (lambda *a: None), prop, tier, v, cov)
            f2 = ex.submit(gen_schedules, tier, seed, v, cov) if prop == "C13" else None
            binary = vlib.go_build("b44")
            f1.result()
            scheds = f2.result() if f2 else {}
    binary = vlib.go_build("b44")

    jobs = []   # (label, mode, module, report cfg, property cfg, driver args, sched lines or None)
    pcfg = "Trace_Bep44_%s.cfg" % prop
    if replay:
        mode = meta["mode"]
        args = ["-mode", mode, "-seed", meta["seed"], "-only", meta["idx"], "-n", int(meta["idx"]) + 1]
        sl = None
        if mode in ("conc", "wireconc"):
            sl = [meta["schedule"]]
            args = ["-mode", mode, "-seed", meta["seed"], "-base", meta["idx"], "-n", 1]
        if mode == "client":
            jobs.append(("replay", mode, "Trace_Bep44Client", "Trace_Bep44Client_report.cfg", "Trace_Bep44Client.cfg", args, None))
        else:
            jobs.append(("replay", mode, "Trace_Bep44", "Trace_Bep44_report.cfg", pcfg, args, sl))
    else:
        nseq = 1500 if thorough else 250
        nwire = 400 if thorough else 50
        jobs.append(("wrapper histories", "wrapper", "Trace_Bep44", "Trace_Bep44_report.cfg", pcfg,
                     ["-mode", "wrapper", "-seed", seed * 100 + 1, "-n", nseq], None))
        jobs.append(("wire histories", "wire", "Trace_Bep44", "Trace_Bep44_report.cfg", pcfg,
                     ["-mode", "wire", "-seed", seed * 100 + 2, "-n", nwire], None))
        if prop == "C12":
            jobs.append(("client cases", "client", "Trace_Bep44Client", "Trace_Bep44Client_report.cfg", "Trace_Bep44Client.cfg",
                         ["-mode", "client", "-seed", seed * 100 + 3, "-n", 3000 if thorough else 400], None))
        else:
            for i, (name, sel) in enumerate(scheds.items()):
                if sel:
                    jobs.append(("schedules: " + name, "conc", "Trace_Bep44", "Trace_Bep44_report.cfg", pcfg,
                                 ["-mode", "conc", "-seed", seed * 100 + 10 + i, "-n", 0], sel))
            two = scheds.get("2 putters") or []
            if two:
                jobs.append(("schedules: inbound put vs Server.Put", "wireconc", "Trace_Bep44", "Trace_Bep44_report.cfg", pcfg,
                             ["-mode", "wireconc", "-seed", seed * 100 + 20, "-n", 0], two[:(600 if thorough else 120)]))

    def one(job):
        label, mode, module, rcfg, cfg, args, sl = job
        out = os.path.join(wd, "trace-%s.ndjson" % re.sub(r"\W+", "_", label))
        a = list(args) + ["-out", out]
        if sl is not None:
            sp = out + ".sched"
            vlib.write_lines(sp, sl)
            a += ["-sched", sp]
        t1 = time.time()
        st = drive(binary, a, label)
        return job, out, st, time.time() - t1

    with ThreadPoolExecutor(max_workers=4) as ex:
        driven = list(ex.map(one, jobs))

    def judge_one(d):
        (label, mode, module, rcfg, cfg, args, sl), out, st, dt = d
        dseed = args[args.index("-seed") + 1]

        def meta_of(sg, segl):
            m = dict(mode=mode, seed=dseed, idx=sg)
            if sl is not None:
                base = int(args[args.index("-base") + 1]) if "-base" in args else 0
                m["schedule"] = sl[sg - base]
                m["_files"] = {"sched.ndjson": sl[sg - base] + "\n"}
            return m
        t1 = time.time()
        nv = judge(prop, v, cov, label, module, rcfg, cfg, out, meta_of)
        return label, st, dt, time.time() - t1, nv, out

    with ThreadPoolExecutor(max_workers=4) as ex:
        judged = list(ex.map(judge_one, driven))

    evaluations = 0
    attempts = realised = unreal = 0
    for label, st, dt, jt, nv, out in judged:
        log("  %-40s %5d segments %7d events  drive %.1fs  validate %.1fs  %s%s" % (
            label, st["segments"], st["events"], dt, jt,
            ("attempts %d realised %d unrealisable %d  " % (st["attempts"], st["realised"], st["unrealisable"])) if st["attempts"] else "",
            ("violating segments %d" % nv) if nv else ""))
        evaluations += st["segments"]
        attempts += st["attempts"]
        realised += st["realised"]
        unreal += st["unrealisable"]
        for e in st.get("errors", []):
            v.inconclusive.append("%s: %s" % (label, e))
        for d in st.get("deaths", []):
            # a dying child is a crash on a hostile reply: property C01, not C12
            log("  note: %s: the process died (belongs to C01, hostile replies): %s" % (label, d))
            v.inconclusive.append("%s: the getput child process died on a reply class that is not the anticipated one: %s" % (label, d))
        if len(cov["samples"]) < 12:
            try:
                cov["samples"] += [json.loads(x) for x in vlib.read_trace(out)[:4]]
            except Exception:
                pass
    cov.update(evaluations=evaluations, distinct_nontrivial=cov["traces_validated_against_impl"], exhaustive=False,
               schedule_attempts=attempts, schedules_realised=realised, schedules_unrealisable=unreal,
               invariants=[k for k, p in INV_PROPS.items() if prop in p],
               rule=("seeded histories of puts (seq and cas from {0,1,2,3,2^40,MaxInt64} and neighbours of the stored values; real ed25519 keys and "
                     "signatures valid / for another salt, seq, value, key / bit-flipped / zero; salts of 0,1,64,65,200 bytes; values of 3,999,1000,"
                     "1001,4000 encoded bytes as string/int/list/dict), gets and ageing through bep44.Wrapper over a recording store and through a "
                     "real dht.Server (datagrams built and decoded with the harness's own bencode; Server.Put); "
                     + ("getput.Get/Put against 3-4 simulated remote nodes answering genuine / stale / forged / seq-bumped / wrong-key / other-salt / "
                        "field-less replies in every delivery order" if prop == "C12" else
                        "every complete behaviour of the lock-free concurrent model attempted on the real wrapper over a gating store "
                        "(2 putters; putter + expiring getter; 2 putters + getter; inbound put datagram vs Server.Put)")
                     + "; every line validated by TLC against Bep44Store.tla / GetPut.tla"))
    rc = v.finish()
    if replay:
        return rc       # a replay judges one stored schedule; the evidence file stays that of the last full run
    vlib.write_evidence(prop, tier, seed, cov, time.time() - t0, len(set(x["key"] for x in v.violations)), assumptions=ASSUMPTIONS)
    return rc
