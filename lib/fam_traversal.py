"""C02, C03, C04: the iterative lookup (spec/Traversal.tla, MC_Traversal.tla, Trace_Traversal.tla;
harness/cmd/trav)."""
import json
import os
import random
import re
import time
from concurrent.futures import ThreadPoolExecutor

import vlib
from vlib import log

PROPS = ("C02", "C03", "C04")

INV_PROPS = {
    "AlphaBound": ["C04"], "OncePerAddr": ["C04"], "FilterFirst": ["C04"],
    "ObsAlpha": ["C04"], "ObsOnce": ["C04"], "ObsFilter": ["C04"], "ObsCancel": ["C04"],
    "ClosestOK": ["C02"], "ObsClosest": ["C02"],
    "StallPredicate": ["C03"], "ObsStopped": ["C03"],
}
SAFETY = "AlphaBound OncePerAddr FilterFirst ClosestOK StallPredicate HonestResult"


def mc_cfg(graph, k, alpha, spec="Spec", props="", invs=SAFETY, capture="TRUE", view=True):
    return """CONSTANTS
 Graph = "%s"
 K = %d
 Alpha = %d
 Target = 0
 GenHist = FALSE
 DedupAtPop = TRUE
 CaptureUnderLock = %s
 TraceMode = FALSE
 Strict = TRUE
SPECIFICATION %s
%s
%s
%s
CHECK_DEADLOCK FALSE
""" % (graph, k, alpha, capture, spec, ("INVARIANTS " + invs) if invs else "",
       ("PROPERTIES " + props) if props else "", "VIEW View" if view and not props else "")


def stage1(prop, tier, v, cov):
    """Exhaustive TLC on the response-graph library: the design admits no bad state."""
    runs = []
    safety = [("g1", 2, 2), ("g2", 2, 2), ("g3", 2, 1), ("g4", 1, 3), ("g5", 2, 2), ("g6", 3, 2)]
    if tier == "thorough":
        safety += [("g1", 1, 3), ("g1", 3, 1), ("g2", 2, 3), ("g3", 2, 2), ("g3", 1, 2), ("g4", 2, 2), ("g4", 3, 2),
                   ("g5", 1, 3), ("g5", 3, 2), ("g6", 3, 3), ("g6", 2, 3)]
    for g, k, a in safety:
        runs.append(("safety %s K=%d Alpha=%d" % (g, k, a), mc_cfg(g, k, a), None))
    if prop in ("C03", "C04"):
        live = [("g1", 2, 2)] if tier == "quick" else [("g1", 2, 2), ("g3", 2, 2), ("g4", 1, 3), ("g5", 2, 2)]
        for g, k, a in live:
            if prop == "C03":
                runs.append(("liveness Terminates %s" % g, mc_cfg(g, k, a, "FairSpecNoStop", "Terminates", ""), None))
                runs.append(("liveness StopCompletes %s" % g, mc_cfg(g, k, a, "FairSpec", "StopCompletes", ""), None))
            else:
                runs.append(("liveness CancelOnStop %s" % g, mc_cfg(g, k, a, "FairSpec", "CancelOnStop", ""), None))
    if prop == "C03":
        # vacuity guard: the racy variant (condition channel captured after unlocking) must lose a wake-up
        runs.append(("racy variant must violate Terminates", mc_cfg("g1", 2, 2, "FairSpecNoStop", "Terminates", "", capture="FALSE"), "Terminates"))
    states = trans = 0
    for name, cfg, expect in runs:
        r = vlib.tlc("MC_Traversal", cfg, timeout=1500)
        log("  TLC %-46s %8d distinct %9d generated  %.1fs %s" % (name, r.distinct, r.generated, r.wall,
                                                                 "(violated, as required)" if expect and r.property == expect else ""))
        if expect:
            if r.property != expect:
                v.inconclusive.append("vacuity guard failed: %s did not violate %s" % (name, expect))
            continue
        if not r.clean:
            v.inconclusive.append("model run '%s' not clean: inv=%s prop=%s err=%s timeout=%s (a model-only counter-example is a "
                                  "spec/design question, not a verdict about the code)" % (name, r.invariant, r.property, r.error, r.timed_out))
            continue
        states += r.distinct
        trans += r.generated
        cov["mc_runs"].append(dict(run=name, distinct=r.distinct, generated=r.generated, depth=r.depth, wall_s=round(r.wall, 1)))
    cov["states"] = states
    cov["transitions"] = trans


GEN_CFG = """CONSTANTS
 Graph = "%s"
 K = %d
 Alpha = %d
 Target = 0
 GenHist = TRUE
 StopAfter = %d
 DedupAtPop = TRUE
 CaptureUnderLock = TRUE
 TraceMode = FALSE
 Strict = TRUE
SPECIFICATION GenSpec
CONSTRAINT GenOut
CHECK_DEADLOCK FALSE
"""


def gen_schedules(tier, seed, v, cov):
    """TLC as generator (spec -> code): finished behaviours of the model over the response-graph library, simulated with
    Gen_Traversal.tla; each distinct one is a schedule the driver replays on the real traversal.Operation."""
    combos = [("g1", 2, 2), ("g2", 2, 2), ("g3", 2, 1), ("g4", 1, 3), ("g5", 2, 2), ("g6", 3, 2)]
    if tier == "thorough":
        combos += [("g1", 1, 3), ("g1", 3, 1), ("g2", 2, 3), ("g3", 2, 2), ("g4", 2, 2), ("g5", 1, 3), ("g5", 3, 2), ("g6", 3, 3)]
    num = 120 if tier == "quick" else 1200
    cap = 150 if tier == "quick" else 1200        # schedules kept per (graph, K, Alpha)
    jobs = [(g, k, a, sa) for g, k, a in combos for sa in (2, 6, 99)]
    t0 = time.time()

    def one(job):
        g, k, a, sa = job
        return job, vlib.tlc("Gen_Traversal", GEN_CFG % (g, k, a, sa), workers=1, timeout=600,
                             simulate="num=%d" % num, extra=["-depth", "200", "-seed", str(seed * 7919 + sa)], heap="2g")

    per = {}
    generated = 0
    with ThreadPoolExecutor(max_workers=max(1, vlib.NCPU // 4)) as ex:
        for job, r in ex.map(one, jobs):
            if r.timed_out or r.error or "SCHED" not in r.out:
                v.inconclusive.append("schedule generator failed for %s: err=%s timeout=%s" % (job, r.error, r.timed_out))
                continue
            m = re.search(r"number of states generated: (\d+)", r.out)
            generated += int(m.group(1)) if m else 0
            for m in re.finditer(r'<<"SCHED", "((?:[^"\\]|\\.)*)">>', r.out):
                per.setdefault(job[:3], set()).add(json.loads('"' + m.group(1) + '"'))
    rnd = random.Random(seed)
    scripts = []
    distinct = 0
    for key in sorted(per):
        xs = sorted(per[key])
        distinct += len(xs)
        # the longest behaviours first (they are the ones a prefix cannot stand in for), then a seeded sample of the rest
        xs.sort(key=lambda x: -len(x))
        keep = xs[:cap // 3] + rnd.sample(xs[cap // 3:], min(len(xs) - min(len(xs), cap // 3), cap - cap // 3))
        scripts += [json.loads(x) for x in keep]
    log("  TLC generator: %d distinct finished behaviours over %d (graph, K, Alpha) instances, %d kept as schedules (%d states simulated, %.1fs)"
        % (distinct, len(per), len(scripts), generated, time.time() - t0))
    cov["generator"] = dict(distinct_behaviours=distinct, schedules=len(scripts), instances=len(per), states_simulated=generated,
                            wall_s=round(time.time() - t0, 1))
    return scripts


def drive(binary, seed, n, out, only=None, scripts=None):
    args = ["-seed", seed, "-n", n, "-out", out]
    if only is not None:
        args += ["-only", only]
    if scripts:
        args += ["-scripts", scripts]
    rc, so, se = vlib.run_driver(binary, args, timeout=1800)
    if rc != 0:
        raise vlib.Inconclusive("traversal driver failed (rc=%s): %s" % (rc, (se or "")[-3000:]))
    return json.loads(so.strip().splitlines()[-1])


def trace_cfgs(prop):
    """(strict, relaxed) config texts judging only this property's invariants (another property's invariant,
    violated in the same state, must not mask them)."""
    invs = [n for n, ps in INV_PROPS.items() if prop in ps]
    def one(strict):
        return ("CONSTANTS\n DedupAtPop = TRUE\n CaptureUnderLock = TRUE\n TraceMode = TRUE\n Strict = %s\nSPECIFICATION TraceSpec\n"
                "INVARIANTS %s\nCONSTRAINT HW\nPOSTCONDITION Accepted\nCHECK_DEADLOCK FALSE\n" % (strict, " ".join(invs)))
    return one("TRUE"), one("FALSE")


def corrupt(prop):
    """One recorded field changed / one hook event removed; the validator must notice (binding self-test)."""
    def f(lines):
        for i, l in enumerate(lines):
            d = json.loads(l)
            if prop == "C02" and d["e"] == "Closest" and d.get("nodeOk") and d.get("dataOk") and len(d["closest"]) >= 1:
                d["closest"] = d["closest"][1:]        # the recorded result set loses a member
                return "dropped one member of a logged result set", lines[:i] + [json.dumps(d)] + lines[i + 1:]
            if prop == "C03" and d["e"] == "RunEval" and not d["offer"] and d["out"] > 0:
                d["offer"] = True                        # a stalled offer although a query is in flight
                return "flipped a logged stall decision to 'offered' while a query was in flight", lines[:i] + [json.dumps(d)] + lines[i + 1:]
            if prop == "C04" and d["e"] == "StartQuery" and d["out"] >= 1:
                # the same query start logged twice: the address is queried again and the fan-out grows by one
                d2 = dict(d, out=d["out"] + 1)
                return "duplicated one StartQuery hook event", lines[:i + 1] + [json.dumps(d2)] + lines[i + 1:]
        return None
    return f


def run(prop, tier, seed, replay=None):
    t0 = time.time()
    v = vlib.Verdict(prop)
    cov = dict(mc_runs=[], samples=[], traces_validated_against_impl=0)
    genfut = None
    if not replay:
        # the schedule generator (TLC simulation) runs beside the exhaustive model runs
        genex = ThreadPoolExecutor(max_workers=1)
        genfut = genex.submit(gen_schedules, tier, seed, v, cov)
        stage1(prop, tier, v, cov)
    binary = vlib.go_build("trav")
    wd = vlib.scratch("verif-trav-")
    jobs = []
    script_of = {}       # driver seed -> the schedules that run replays (lookup i = schedule i)
    if replay:
        meta = json.load(open(os.path.join(replay, "meta.json")))
        sp = None
        if os.path.exists(os.path.join(replay, "script.json")):
            sp = os.path.join(wd, "replay-scripts.json")
            with open(sp, "w") as f:
                json.dump([json.load(open(os.path.join(replay, "script.json")))] * (meta["lookup"] + 1), f)
        jobs = [(meta["seed"], meta["lookup"] + 1, meta["lookup"], sp)]
    elif tier == "quick":
        jobs = [(seed * 100 + i, 250, None, None) for i in range(8)]
    else:
        jobs = [(seed * 100 + i, 1500, None, None) for i in range(16)]
    if not replay:
        scripts = genfut.result()
        genex.shutdown()
        nchunk = 4 if tier == "quick" else 12
        for c in range(nchunk):
            part = scripts[c::nchunk]
            if part:
                sp = os.path.join(wd, "scripts-%d.json" % c)
                with open(sp, "w") as f:
                    json.dump(part, f)
                script_of[seed * 100 + 50 + c] = part
                jobs.append((seed * 100 + 50 + c, len(part), None, sp))
    events = lookups = hangs = 0
    sched_steps = sched_skipped = sched_run = 0
    results = []

    def one(job):
        s, n, only, sp = job
        out = os.path.join(wd, "trace-%d.ndjson" % s)
        st = drive(binary, s, n, out, only, sp)
        tv = vlib.validate_trace("Trace_Traversal", trace_cfgs(prop), out, INV_PROPS)
        return s, out, st, tv

    with ThreadPoolExecutor(max_workers=min(len(jobs), max(1, vlib.NCPU // 2))) as ex:
        results = list(ex.map(one, jobs))
    deviations = 0
    hang_tried = 0
    if not replay and results:
        st_ = vlib.binding_selftest("Trace_Traversal", trace_cfgs(prop), results[0][1], corrupt(prop), INV_PROPS)
        cov["binding_selftest"] = st_
        log("  binding self-test: %s -> %s" % (st_["what"], "rejected, as required" if st_["detected"] else "NOT NOTICED"))
        if not st_["detected"]:
            v.inconclusive.append("binding self-test failed: the validator accepted a corrupted trace (%s)" % st_["what"])
    for s, out, st, tv in results:
        events += st["events"]
        lookups += st["lookups"] if not replay else 1
        if s in script_of:
            sched_run += st["lookups"]
            sched_steps += st.get("steps", 0)
            sched_skipped += st.get("skipped", 0)
        cov["traces_validated_against_impl"] += tv["accepted_segments"]
        for i in tv["inconclusive"]:
            v.inconclusive.append(i)
        lines = vlib.read_trace(out)
        if not cov["samples"] and lines:
            cov["samples"] = [json.loads(x) for x in lines[:12]]
        for f in tv["findings"]:
            segl = [x for x in lines if vlib.seg_of(x) == f["seg"]]
            start = json.loads(segl[0]) if segl else {}
            if f["kind"] == "unexplained":
                v.inconclusive.append("trace of lookup %s/%s cannot be reconstructed even in follow-the-code mode (hook or harness "
                                      "problem, or a change the specification cannot follow): %s" % (start.get("seed"), start.get("lookup"), f["line"][:300]))
                continue
            if prop not in f["props"]:
                log("  note: invariant %s (%s) violated in lookup %s/%s; not this property" % (f["name"], ",".join(f["props"]), start.get("seed"), start.get("lookup")))
                continue
            files = {"trace.ndjson": "\n".join(segl) + "\n", "state.txt": f.get("state") or ""}
            if s in script_of and start.get("lookup") is not None:
                files["script.json"] = script_of[s][start["lookup"]]
            rp = vlib.save_replay(prop, "%s-%s-%s" % (f["name"], start.get("seed"), start.get("lookup")), files,
                                  dict(property=prop, invariant=f["name"], seed=start.get("seed"), lookup=start.get("lookup"),
                                       line=f["line"], how="bin/check %s --replay <this dir>" % prop))
            v.violation("%s" % f["name"], "%s violated on the state reconstructed from a real lookup (seed %s lookup %s) at event %s"
                        % (f["name"], start.get("seed"), start.get("lookup"), f["line"][:200]), rp)
        deviations += len(tv["deviations"])
        for d in tv["deviations"]:
            log("  deviation (no listed property violated): %s" % d["line"][:200])
        hp = out + ".hang"
        if os.path.exists(hp):
            for hl in open(hp):
                h = json.loads(hl)
                hangs += 1
                if prop != "C03":
                    log("  note: lookup %s/%s hung (%s); judged by C03" % (h["seed"], h["lookup"], h["what"]))
                    continue
                # state-based hang rule: must reproduce on 2 more runs of the same schedule
                if any(x["key"] == "hang" for x in v.violations) or hang_tried >= 2:
                    continue
                hang_tried += 1
                rep = 0
                for k in range(2):
                    o2 = os.path.join(wd, "rehang-%d.ndjson" % k)
                    drive(binary, h["seed"], h["lookup"] + 1, o2, h["lookup"],
                          os.path.join(wd, "scripts-%d.json" % (s - seed * 100 - 50)) if s in script_of else None)
                    rep += os.path.exists(o2 + ".hang")
                if rep == 2:
                    rp = vlib.save_replay(prop, "hang-%s-%s" % (h["seed"], h["lookup"]),
                                          dict({"hang.json": h}, **({"script.json": script_of[s][h["lookup"]]} if s in script_of else {})),
                                          dict(property=prop, seed=h["seed"], lookup=h["lookup"], what=h["what"]))
                    v.violation("hang", "lookup never made the progress it owes (reproduced 3x): %s; snapshot %s" % (h["what"], h["snap"]), rp)
                elif h.get("window_ms", 0) >= 10000 and h.get("ticks", 0) * 20 >= h["window_ms"]:
                    # not reproduced (the schedule of a concurrently driven lookup is not replayable), but the state shows an
                    # obligation that stayed unmet for the whole wait while this process demonstrably kept being scheduled
                    rp = vlib.save_replay(prop, "hang-%s-%s" % (h["seed"], h["lookup"]),
                                          dict({"hang.json": h}, **({"script.json": script_of[s][h["lookup"]]} if s in script_of else {})),
                                          dict(property=prop, seed=h["seed"], lookup=h["lookup"], what=h["what"]))
                    v.violation("hang", "lookup never made the progress it owes: %s; snapshot %s; the driver process was scheduled %d times in the "
                                "%d ms it waited (no starvation)" % (h["what"], h["snap"], h["ticks"], h["window_ms"]), rp)
                else:
                    v.inconclusive.append("a hang did not reproduce and starvation cannot be excluded: %s" % h)
    cov["schedules_replayed"] = dict(lookups=sched_run, steps=sched_steps, steps_not_applicable=sched_skipped)
    if not replay:
        log("  spec -> code: %d TLC-generated schedules replayed on the real traversal (%d environment steps, %d not applicable in the state "
            "the code had reached)" % (sched_run, sched_steps, sched_skipped))
        if sched_run == 0 or sched_steps == 0 or sched_skipped * 2 > sched_steps:
            v.inconclusive.append("schedule replay did not take place or mostly diverged (%d schedules, %d steps, %d skipped)"
                                  % (sched_run, sched_steps, sched_skipped))
    cov.update(evaluations=lookups, events_validated=events, deviations_without_property_violation=deviations, hangs=hangs,
               rule="seeded random response graphs (3-14 addresses incl. IPv6 and shared IPs, liars, silent and filtered nodes, duplicate IDs, "
                    "one address under many IDs, honest networks), K in {1,2,3,8}, Alpha 1..3, gated DoQuery: the driver picks the completion "
                    "order; half of the lookups released/extended concurrently; plus the finished behaviours TLC simulates on the model's own "
                    "response-graph library (Gen_Traversal.tla), replayed step by step on the real code; every hook event validated by TLC "
                    "against Traversal.tla",
               distinct_nontrivial=cov["traces_validated_against_impl"], exhaustive=False,
               invariants=[k for k, p in INV_PROPS.items() if prop in p])
    rc = v.finish()
    if not replay:      # a replay re-runs one stored case; the evidence of the last full run is left alone
        vlib.write_evidence(prop, tier, seed, cov, time.time() - t0, len(v.violations),
                            assumptions=["a stalled report is linearised at the instant the run loop decides to offer it under the lock",
                                         "abstract IDs are embedded order-preservingly into 160 bits (C18 checks the metric itself)",
                                         "equidistant result-set members may be trimmed in any order"])
    return rc
