"""Shared machinery of /verif/bin/check: scratch directories, the TLC runner and output parser,
the Go harness builder, trace-file utilities, verdicts (known findings, VIOLATION lines) and
evidence files."""
import atexit
import json
import os
import re
import shutil
import subprocess
import sys
import tempfile
import time

VERIF = os.path.dirname(os.path.dirname(os.path.abspath(__file__)))
REPO = os.environ.get("VERIF_REPO", "/repo")
SPEC = os.path.join(VERIF, "spec")
HARNESS = os.path.join(VERIF, "harness")
EVID = os.environ.get("VERIF_EVIDENCE_DIR") or os.path.join(VERIF, "evidence")
REPLAYS = os.path.join(EVID, "replays")
NCPU = os.cpu_count() or 4

_scratch = []


def scratch(prefix="verif-"):
    d = tempfile.mkdtemp(prefix=prefix)
    _scratch.append(d)
    return d


def _cleanup():
    for d in _scratch:
        shutil.rmtree(d, ignore_errors=True)


atexit.register(_cleanup)


def goenv():
    e = dict(os.environ)
    e.update(GOFLAGS="-mod=mod", GOPROXY="off", GOSUMDB="off", GOTOOLCHAIN="local")
    return e


class Inconclusive(Exception):
    """Tool failure, timeout, dead driver: exit 2, never a violation."""


def log(*a):
    print(*a, flush=True)


# ----------------------------------------------------------------------------------------------
# Go harness

_built = {}


def go_build(cmd, tags="verif"):
    """Builds /verif/harness/cmd/<cmd> against /repo's current working tree (replace directive)."""
    if cmd in _built:
        return _built[cmd]
    outdir = scratch("verif-bin-")
    out = os.path.join(outdir, cmd)
    hdir = HARNESS
    if os.path.realpath(REPO) != "/repo":
        # machinery self-test against a scratch copy of the repository (VERIF_REPO): private copy of the
        # harness module with the replace directive pointed there
        hdir = os.path.join(outdir, "harness")
        shutil.copytree(HARNESS, hdir, ignore=shutil.ignore_patterns("bin"))
        gm = open(os.path.join(hdir, "go.mod")).read().replace("=> /repo", "=> " + os.path.realpath(REPO))
        open(os.path.join(hdir, "go.mod"), "w").write(gm)
    shutil.copy(os.path.join(REPO, "go.sum"), os.path.join(hdir, "go.sum"))
    t0 = time.time()
    p = subprocess.run(["go", "build", "-tags", tags, "-o", out, "./cmd/" + cmd], cwd=hdir,
                       env=goenv(), capture_output=True, text=True)
    if p.returncode != 0:
        raise Inconclusive("go build of harness %s failed against the current tree:\n%s" % (cmd, p.stderr[-4000:]))
    log("  built harness %s in %.1fs" % (cmd, time.time() - t0))
    _built[cmd] = out
    return out


def run_driver(binary, args, timeout=600, cwd=None, env=None):
    e = goenv()
    if env:
        e.update(env)
    try:
        p = subprocess.run([binary] + [str(a) for a in args], capture_output=True, text=True, timeout=timeout,
                           cwd=cwd, env=e)
    except subprocess.TimeoutExpired as ex:
        return None, (ex.stdout or b"").decode(errors="replace") if isinstance(ex.stdout, bytes) else (ex.stdout or ""), "timeout"
    return p.returncode, p.stdout, p.stderr


# ----------------------------------------------------------------------------------------------
# TLC

class TlcResult:
    def __init__(self):
        self.rc = None
        self.out = ""
        self.generated = 0
        self.distinct = 0
        self.depth = 0
        self.invariant = None      # name of a violated invariant
        self.property = None       # name of a violated action/temporal property, or "temporal"
        self.rejected_at = None    # trace validation: first line that no step explains
        self.error = None          # any other TLC error text
        self.timed_out = False
        self.wall = 0.0
        self.last_state = None     # text of the last state printed in an error trace
        self.coverage = {}

    @property
    def clean(self):
        return (not self.timed_out and self.error is None and self.invariant is None
                and self.property is None and self.rejected_at is None)


def tlc(module, cfg, workers=None, timeout=600, files=None, simulate=None, extra=None, deque=False,
        xss="64m", workdir=None, heap=None, coverage=False, keep=False):
    """Runs TLC on spec/<module>.tla with config text or a config file name from spec/, in a
    scratch copy of spec/ (plus `files`: {name: path} copied or symlinked in)."""
    wd = workdir or scratch("verif-tlc-")
    for f in os.listdir(SPEC):
        if f.endswith(".tla") or f.endswith(".cfg"):
            shutil.copy(os.path.join(SPEC, f), wd)
    for name, path in (files or {}).items():
        dst = os.path.join(wd, name)
        if os.path.lexists(dst):
            os.remove(dst)
        os.symlink(os.path.abspath(path), dst)
    if cfg.endswith(".cfg") and "\n" not in cfg:
        cfgname = cfg
    else:
        cfgname = "_run_%s.cfg" % module
        with open(os.path.join(wd, cfgname), "w") as f:
            f.write(cfg)
    md = tempfile.mkdtemp(prefix="md-", dir=wd)
    jopts = "-Xss%s -Djava.io.tmpdir=%s" % (xss, md)     # TLC's own temp files go where they are cleaned up
    if heap is None and (workers == 1):
        heap = "6g"          # trace validators run many at a time; the default (25%% of RAM each) over-commits the machine
    if heap:
        jopts += " -Xmx%s" % heap
    if deque:
        jopts += " -Dtlc2.tool.queue.IStateQueue=StateDeque"
    env = dict(os.environ)
    env["JAVA_TOOL_OPTIONS"] = (env.get("JAVA_TOOL_OPTIONS", "") + " " + jopts).strip()
    args = ["tlc", "-workers", str(workers or NCPU), "-metadir", md, "-config", cfgname]
    if simulate:
        args += ["-simulate", simulate]
    if coverage:
        args += ["-coverage", "1"]
    args += (extra or []) + [module + ".tla"]
    r = TlcResult()
    t0 = time.time()
    try:
        p = subprocess.run(args, cwd=wd, env=env, capture_output=True, text=True, timeout=timeout)
        r.rc = p.returncode
        r.out = p.stdout + p.stderr
    except subprocess.TimeoutExpired as ex:
        r.timed_out = True
        o = ex.stdout or ""
        r.out = o.decode(errors="replace") if isinstance(o, bytes) else o
        subprocess.run(["pkill", "-f", md], capture_output=True)
    r.wall = time.time() - t0
    _parse_tlc(r)
    shutil.rmtree(md, ignore_errors=True)
    if not keep and not workdir:
        shutil.rmtree(wd, ignore_errors=True)
        if wd in _scratch:
            _scratch.remove(wd)
    return r


def _parse_tlc(r):
    out = r.out
    m = None
    for m in re.finditer(r"(\d+) states generated, (\d+) distinct states found", out):
        pass
    if m:
        r.generated, r.distinct = int(m.group(1)), int(m.group(2))
    m = re.search(r"depth of the complete state graph search is (\d+)", out)
    if m:
        r.depth = int(m.group(1))
    m = re.search(r"Error: Invariant (\S+) is violated", out)
    if m:
        r.invariant = m.group(1).rstrip(".")
    m = re.search(r"Error: Action property (\S+) is violated", out)
    if m:
        r.property = m.group(1).rstrip(".")
    m = re.search(r"Error: Temporal property (\S+) was violated", out)
    if m:
        r.property = m.group(1).rstrip(".")
    if "Temporal properties were violated" in out:
        r.property = r.property or "temporal"
    m = re.search(r'"REJECTED_AT", (\d+)', out)
    if m:
        r.rejected_at = int(m.group(1))
    if r.invariant is None and r.property is None and r.rejected_at is None and not r.timed_out:
        ol = out.splitlines()
        errs = [(l + " | " + " | ".join(ol[i + 1:i + 3])) if l.startswith("Error: when writing") else l
                for i, l in enumerate(ol) if l.startswith("Error:") or "Exception" in l or "*** Errors" in l]
        errs = [e for e in errs if "Postcondition" not in e]
        if errs or (r.rc not in (0, None) and "No error has been found" not in out and "Finished in" not in out):
            r.error = "\n".join(errs[:5]) or ("tlc exit %s" % r.rc)
        elif r.generated == 0 and "-simulate" not in out and "simulation" not in out.lower():
            r.error = "no state count in TLC output"
    # last state of an error trace
    st = re.findall(r"State (\d+): <[^\n]*\n((?:.+\n)+?)\n", out)
    if st:
        r.last_state = st[-1][1]
        r.trace_len = int(st[-1][0])
    for m in re.finditer(r"<(\w+) line \d+, col \d+ to line \d+, col \d+ of module \w+>: (\d+):(\d+)", out):
        r.coverage[m.group(1)] = r.coverage.get(m.group(1), 0) + int(m.group(3))


def state_l(r):
    """Value of the trace position variable l in the last state of an error trace."""
    if not r.last_state:
        return None
    m = re.search(r"/\\ l = (\d+)", r.last_state)
    return int(m.group(1)) if m else None


# ----------------------------------------------------------------------------------------------
# traces: ndjson with a "seg" field per line

def read_trace(path):
    with open(path) as f:
        return [l for l in f.read().split("\n") if l]


def seg_of(line):
    m = re.search(r'"seg":\s*(\d+)', line)
    return int(m.group(1)) if m else -1


def write_lines(path, lines):
    with open(path, "w") as f:
        for l in lines:
            f.write(l)
            f.write("\n")


def validate_trace(module, cfgs, trace_path, inv_props, max_rounds=6, timeout=600, deque=False,
                   trace_name="trace.ndjson", extra_files=None):
    """Validates a multi-segment trace.  cfgs = (strict_cfg, relaxed_cfg or None).
    Returns dict(lines, segments, accepted_segments, findings=[...], deviations=[...], tlc=[TlcResult]).
    A finding is dict(kind='invariant', name, props, seg, line, text) judged on the state
    reconstructed from the real trace.  A deviation is a strict rejection that the relaxed
    (follow-the-code) pass explains without any property invariant failing."""
    lines = read_trace(trace_path)
    res = dict(lines=len(lines), segments=len(set(seg_of(l) for l in lines)), findings=[], deviations=[],
               tlc=[], inconclusive=[])
    strict, relaxed = cfgs
    wd = scratch("verif-tv-")
    cur = lines
    dropped = set()
    mode = strict
    rounds = 0
    while cur and rounds < max_rounds:
        rounds += 1
        tp = os.path.join(wd, "cur.ndjson")
        write_lines(tp, cur)
        files = {trace_name: tp}
        files.update(extra_files or {})
        r = tlc(module, mode, workers=1, timeout=timeout, files=files, deque=deque)
        res["tlc"].append(r)
        if r.timed_out or r.error:
            res["inconclusive"].append("TLC %s on trace: %s" % ("timeout" if r.timed_out else "error", r.error))
            break
        if r.clean:
            if mode == strict:
                break
            # relaxed pass accepted the rest: back to strict for what remains is pointless
            break
        if r.invariant or (r.property and r.property != "temporal"):
            r.invariant = r.invariant or r.property
            l = state_l(r)
            idx = (l - 2) if l else None           # l is the next line (1-based) after the step
            line = cur[idx] if idx is not None and 0 <= idx < len(cur) else ""
            sg = seg_of(line)
            res["findings"].append(dict(kind="invariant", name=r.invariant, props=inv_props.get(r.invariant, []),
                                        seg=sg, line=line, state=r.last_state, mode=mode))
            dropped.add(sg)
            cur = [x for x in cur if seg_of(x) != sg]
            continue
        if r.rejected_at is not None:
            idx = r.rejected_at - 1
            line = cur[idx] if 0 <= idx < len(cur) else ""
            sg = seg_of(line)
            if mode == strict and relaxed:
                # second opinion on this segment alone: follow the code, judge by invariants only
                segl = [x for x in cur if seg_of(x) == sg]
                tp2 = os.path.join(wd, "seg.ndjson")
                write_lines(tp2, segl)
                f2 = {trace_name: tp2}
                f2.update(extra_files or {})
                r2 = tlc(module, relaxed, workers=1, timeout=timeout, files=f2, deque=deque)
                res["tlc"].append(r2)
                if r2.invariant or (r2.property and r2.property != "temporal"):
                    r2.invariant = r2.invariant or r2.property
                    l2 = state_l(r2)
                    line2 = segl[l2 - 2] if l2 and 0 <= l2 - 2 < len(segl) else line
                    res["findings"].append(dict(kind="invariant", name=r2.invariant,
                                                props=inv_props.get(r2.invariant, []), seg=sg, line=line2,
                                                state=r2.last_state, mode=relaxed, strict_rejected=line))
                elif r2.clean:
                    res["deviations"].append(dict(seg=sg, line=line))
                else:
                    res["findings"].append(dict(kind="unexplained", name="unexplained", props=[], seg=sg, line=line,
                                                detail=(r2.error or "rejected in relaxed mode at %s" % r2.rejected_at)))
            else:
                res["findings"].append(dict(kind="unexplained", name="unexplained", props=[], seg=sg, line=line))
            dropped.add(sg)
            cur = [x for x in cur if seg_of(x) != sg]
            continue
        res["inconclusive"].append("unclassified TLC outcome: %s" % (r.property,))
        break
    else:
        if cur and rounds >= max_rounds:
            # every round found a violation and dropped its segment; the rest stays unvalidated, which only
            # matters if nothing was found
            res["unvalidated_lines"] = len(cur)
            if not [f for f in res["findings"] if f["kind"] != "unexplained"]:
                res["inconclusive"].append("gave up after %d validation rounds; %d lines unvalidated" % (rounds, len(cur)))
            cur = []
    res["accepted_segments"] = len(set(seg_of(l) for l in cur)) if not res["inconclusive"] else 0
    res["accepted_lines"] = len(cur) if not res["inconclusive"] else 0
    res["dropped"] = sorted(dropped)
    shutil.rmtree(wd, ignore_errors=True)
    return res


def binding_selftest(module, cfgs, trace_path, corrupt, inv_props, timeout=600, extra_files=None, trace_name="trace.ndjson"):
    """Demonstrates that the validator is bound to what was recorded: `corrupt(lines_of_one_segment)` returns
    a corrupted copy (or None if this segment has nothing to corrupt); the corrupted segment must NOT validate
    cleanly.  Returns dict(tried, detected, what).  Not detected => the machinery is broken (caller exits 2)."""
    lines = read_trace(trace_path)
    segs = []
    for l in lines:
        s = seg_of(l)
        if not segs or segs[-1][0] != s:
            segs.append((s, []))
        segs[-1][1].append(l)
    # a particular corruption can be harmless where it lands (another event of the same burst explains the effect):
    # up to four segments are tried, and the validator is bound if it rejects one of them
    last = None
    tried = 0
    for s, sl in segs[:60]:
        c = corrupt(list(sl))
        if not c:
            continue
        what, cl = c
        wd = scratch("verif-st-")
        tp = os.path.join(wd, "st.ndjson")
        write_lines(tp, cl)
        tv = validate_trace(module, cfgs, tp, inv_props, max_rounds=2, timeout=timeout, extra_files=extra_files, trace_name=trace_name)
        shutil.rmtree(wd, ignore_errors=True)
        detected = bool(tv["findings"] or tv["deviations"])
        tried += 1
        last = dict(tried=True, detected=detected, what=what, candidates_tried=tried,
                    outcome=[f.get("name") for f in tv["findings"]] or (["deviation"] if tv["deviations"] else []) or tv["inconclusive"])
        if detected or tried >= 4:
            return last
    return last or dict(tried=False, detected=True, what="no segment offered anything to corrupt")


# ----------------------------------------------------------------------------------------------
# verdicts

def load_known():
    p = os.path.join(VERIF, "known-findings.json")
    if not os.path.exists(p):
        return []
    with open(p) as f:
        return json.load(f).get("findings", [])


def save_replay(prop, name, files, meta):
    d = os.path.join(REPLAYS, "%s-%s" % (prop, name))
    shutil.rmtree(d, ignore_errors=True)
    os.makedirs(d, exist_ok=True)
    for fn, content in files.items():
        with open(os.path.join(d, fn), "w") as f:
            f.write(content if isinstance(content, str) else json.dumps(content, indent=1))
    with open(os.path.join(d, "meta.json"), "w") as f:
        json.dump(meta, f, indent=1, default=str)
    return d


def code_panic(stderr):
    """True if the process died in a panic / runtime fatal error whose stack runs through the code under test.
    A panic of the driver itself (no frame of github.com/anacrolix/dht/v2 in the panicking goroutine) is a
    problem of the machinery: inconclusive, never a verdict."""
    se = stderr or ""
    if "fatal error:" in se:
        return "github.com/anacrolix/dht/v2" in se[se.index("fatal error:"):]
    if "panic:" not in se:
        return False
    tail = se[se.index("panic:"):]
    m = re.search(r"\ngoroutine \d+ \[", tail)
    if not m:
        return "github.com/anacrolix/dht/v2" in tail
    block = tail[m.start() + 1:]
    nxt = re.search(r"\n\ngoroutine \d+ \[", block)
    if nxt:
        block = block[:nxt.start()]
    return "github.com/anacrolix/dht/v2" in block


def tlapm(module, timeout=600):
    """Runs the TLA+ proof system on spec/<module>.tla in a scratch copy. Returns (all_proved, obligations, wall, output)."""
    wd = scratch("verif-tlapm-")
    shutil.copy(os.path.join(SPEC, module + ".tla"), wd)
    t0 = time.time()
    try:
        p = subprocess.run(["tlapm", "--threads", str(min(8, NCPU)), module + ".tla"], cwd=wd, capture_output=True, text=True, timeout=timeout)
        out = p.stdout + p.stderr
    except subprocess.TimeoutExpired:
        out = "timeout"
    wall = time.time() - t0
    m = re.search(r"All (\d+) obligations? proved", out)
    shutil.rmtree(wd, ignore_errors=True)
    if wd in _scratch:
        _scratch.remove(wd)
    return (m is not None), (int(m.group(1)) if m else 0), wall, out


class Verdict:
    def __init__(self, prop):
        self.prop = prop
        self.violations = []   # dict(key, what, replay)
        self.known = []
        self.notes = []
        self.inconclusive = []

    def violation(self, key, what, replay):
        for k in load_known():
            if k.get("property") == self.prop and k.get("key") == key:
                self.known.append(dict(key=key, what=k.get("what", what)))
                return
        self.violations.append(dict(key=key, what=what, replay=replay))

    def finish(self):
        for k in {x["key"]: x for x in self.known}.values():
            log("KNOWN-FINDING: property=%s %s [%s]" % (self.prop, k["what"], k["key"]))
        seen = set()
        for v in self.violations:
            if v["key"] in seen:
                continue
            seen.add(v["key"])
            log("  violation: %s" % v["what"])
            log("VIOLATION property=%s replay=%s" % (self.prop, v["replay"]))
        if self.violations:
            return 1
        if self.inconclusive:
            for i in self.inconclusive:
                log("INCONCLUSIVE: %s" % i)
            return 2
        return 0


def write_evidence(prop, tier, seed, coverage, wall, violations, assumptions=None, level="model_checking"):
    os.makedirs(EVID, exist_ok=True)
    ev = dict(property_id=prop, tier=tier, seed=int(seed), level=level, coverage=coverage,
              assumptions=assumptions or [], wall_s=round(wall, 2), violations=int(violations))
    with open(os.path.join(EVID, prop + ".json"), "w") as f:
        json.dump(ev, f, indent=1, default=str)
        f.write("\n")
