"""C05, C06, C09: the routing table (spec/RoutingTable.tla, MC_RoutingTable.tla, Trace_RoutingTable.tla;
harness/cmd/rt)."""
import json
import os
import time
from concurrent.futures import ThreadPoolExecutor

import vlib
from vlib import log

PROPS = ("C05", "C06", "C09")
INV_PROPS = {
    "InvWellFormed": ["C05"], "InvCounts": ["C05"],
    "PropAdmit": ["C06"], "PropEvict": ["C06"], "PropMustAdmit": ["C06"],
    "InvFlags": ["C09"], "InvAnswer": ["C09"],
}


def mc_cfg(universe):
    return """CONSTANTS
 K = 2
 Universe = "%s"
 Zero = "z"
 NoId = ""
SPECIFICATION Spec
INVARIANTS InvWellFormed
PROPERTIES PropAdmit PropEvict PropMustAdmit PropGoodStays PropAnswer
VIEW View
CHECK_DEADLOCK FALSE
""" % universe


def stage1(prop, tier, v, cov):
    uni = "small" if tier == "quick" else "full"
    r = vlib.tlc("MC_RoutingTable", mc_cfg(uni), timeout=3000)
    log("  TLC MC_RoutingTable universe=%s  %d distinct  %d generated  %.1fs" % (uni, r.distinct, r.generated, r.wall))
    if not r.clean:
        v.inconclusive.append("model run not clean: inv=%s prop=%s err=%s timeout=%s" % (r.invariant, r.property, r.error, r.timed_out))
        return
    cov["states"] = r.distinct
    cov["transitions"] = r.generated
    cov["mc_runs"].append(dict(run="MC_RoutingTable K=2 universe=%s, security on and off" % uni, distinct=r.distinct,
                               generated=r.generated, depth=r.depth, wall_s=round(r.wall, 1)))
    if prop in ("C06", "C09"):
        # the composition: three routing tables over a lossy, duplicating wire with a spoofing adversary
        msgs = 3 if tier == "quick" else 4
        cfg = ("CONSTANTS\n Nodes = {\"a\", \"b\", \"c\"}\n K = 1\n MaxMsgs = %d\nSPECIFICATION Spec\n"
               "INVARIANTS Provenance NoGhost NoSelf WellFormedAll\nPROPERTIES Hearsay\nVIEW View\nCHECK_DEADLOCK FALSE\n" % msgs)
        r2 = vlib.tlc("Network", cfg, timeout=3000)
        log("  TLC Network (3 nodes, K=1, %d datagrams)  %d distinct  %d generated  %.1fs" % (msgs, r2.distinct, r2.generated, r2.wall))
        if not r2.clean:
            v.inconclusive.append("composition model not clean: inv=%s prop=%s err=%s timeout=%s" % (r2.invariant, r2.property, r2.error, r2.timed_out))
        else:
            cov["states"] += r2.distinct
            cov["transitions"] += r2.generated
            cov["mc_runs"].append(dict(run="Network: 3 RoutingTable instances over a lossy duplicating wire + spoofing adversary, %d datagrams" % msgs,
                                       distinct=r2.distinct, generated=r2.generated, depth=r2.depth, wall_s=round(r2.wall, 1)))


def drive(binary, seed, n, events, out, only=None):
    args = ["-seed", seed, "-n", n, "-events", events, "-out", out]
    if only is not None:
        args += ["-only", only]
    rc, so, se = vlib.run_driver(binary, args, timeout=1800)
    if rc != 0:
        if rc is not None and vlib.code_panic(se):
            return dict(crash=(se or "")[-6000:])
        # the trace is flushed per event: what was recorded up to the failure is still validated
        n = len(vlib.read_trace(out)) if os.path.exists(out) else 0
        return dict(histories=0, events=n, driver_error="routing-table driver failed (rc=%s): %s" % (rc, (se or "")[-1500:]))
    return json.loads(so.strip().splitlines()[-1])


def trace_cfgs(prop, k=8):
    """(strict, relaxed) config texts judging only the predicates that state this property: TLC stops at the first
    violated predicate of a state, so another property's predicate must not be able to mask this one's."""
    invs = [n for n, ps in INV_PROPS.items() if prop in ps and n.startswith("Inv")]
    props = [n for n, ps in INV_PROPS.items() if prop in ps and n.startswith("Prop")]
    def one(strict):
        return ("CONSTANTS\n K = %d\n Zero = \"0000000000000000000000000000000000000000\"\n NoId = \"\"\n Strict = %s\n"
                "SPECIFICATION TraceSpec\n%s%sCONSTRAINT HW\nPOSTCONDITION Accepted\nCHECK_DEADLOCK FALSE\n"
                % (k, strict, ("INVARIANTS " + " ".join(invs) + "\n") if invs else "", ("PROPERTIES " + " ".join(props) + "\n") if props else ""))
    return one("TRUE"), one("FALSE")


def corrupt(prop):
    def f(lines):
        for i, l in enumerate(lines):
            d = json.loads(l)
            if prop in ("C05", "C06") and "snap" in d and len(d["snap"]) >= 3 and i > 0:
                gone = d["snap"][0]
                d["snap"] = d["snap"][1:]                # an entry silently vanishes from the logged table
                if prop == "C05":
                    return "removed one entry from a logged table snapshot (counts left as reported)", lines[:i] + [json.dumps(d)] + lines[i + 1:]
                d["numNodes"] -= 1
                d["addrIndex"] -= 1
                d["nodes"] = [x for x in d["nodes"] if x[0] != gone["id"] or x[1] != gone["addr"]]
                d["goodNodes"] -= 1 if gone["good"] else 0
                if gone["good"]:
                    return "removed a good entry from a logged table snapshot and adjusted the counts", lines[:i] + [json.dumps(d)] + lines[i + 1:]
            if prop == "C09" and d["e"] == "Answer" and (len(d["nodes"]) >= 2 or len(d["nodes6"]) >= 2):
                k = "nodes" if len(d["nodes"]) >= 2 else "nodes6"
                d[k] = d[k] + [["ff" * 20, "9.9.9.9:9"]]   # a contact nobody ever heard of
                return "appended an unknown contact to a logged reply node list", lines[:i] + [json.dumps(d)] + lines[i + 1:]
        return None
    return f


def run(prop, tier, seed, replay=None):
    t0 = time.time()
    v = vlib.Verdict(prop)
    cov = dict(mc_runs=[], samples=[], traces_validated_against_impl=0)
    if not replay:
        stage1(prop, tier, v, cov)
    binary = vlib.go_build("rt")
    wd = vlib.scratch("verif-rt-")
    if replay:
        meta = json.load(open(os.path.join(replay, "meta.json")))
        if meta["seed"] == "exh":
            jobs = [("exhreplay", meta["exh_seed"], meta["exh"], None)]
        elif meta["seed"] == "net":
            jobs = [("net", meta.get("net_seed", seed), meta.get("events", 6), None)]
        else:
            jobs = [(meta["seed"], meta["history"] + 1, meta.get("events", 70), meta["history"])]
    elif tier == "quick":
        jobs = [(seed * 100 + i, 30, 70, None) for i in range(8)]
    else:
        jobs = [(seed * 100 + i, 150, 90, None) for i in range(16)]

    if not replay and prop in ("C05", "C06"):
        # exhaustive small-scope exploration of the real table (K forced to 2): (per-mille of transitions logged, states expanded)
        jobs.append(("exh", seed, (40, 250) if tier == "quick" else (250, 0), None))

    if not replay or (jobs and jobs[0][0] == "net"):
        pass
    if not replay:
        # the routing tables of several real Servers talking to each other (srv -mode net): one trace per node
        jobs.append(("net", seed, 6 if tier == "quick" else 48, None))

    def one(job):
        s, n, events, only = job
        if s == "net":
            sb = vlib.go_build("srv")
            base = os.path.join(wd, "trace-net.ndjson")
            rc, so, se = vlib.run_driver(sb, ["-mode", "net", "-seed", n, "-n", events, "-events", 40, "-out", base], timeout=3000)
            if rc != 0:
                raise vlib.Inconclusive("network driver failed (rc=%s): %s" % (rc, (se or "")[-2000:]))
            outs = sorted(f for f in os.listdir(wd) if f.startswith("trace-net.ndjson.rt"))
            merged = os.path.join(wd, "trace-netrt.ndjson")
            lines, segbase = [], 0
            for f in outs:           # concatenate the per-node traces, renumbering segments so that they stay distinct
                ls = vlib.read_trace(os.path.join(wd, f))
                mx = 0
                for l in ls:
                    sg = vlib.seg_of(l)
                    mx = max(mx, sg)
                    lines.append(l.replace('"seg":%d' % sg, '"seg":%d' % (segbase + sg), 1))
                segbase += mx + 1
            vlib.write_lines(merged, lines)
            tv = vlib.validate_trace("Trace_RoutingTable", trace_cfgs(prop), merged, INV_PROPS, timeout=3000)
            return "net", merged, dict(histories=segbase, events=len(lines)), tv, events
        if s == "exhreplay":
            out = os.path.join(wd, "trace-exhreplay.ndjson")
            rc, so, se = vlib.run_driver(binary, ["-seed", n, "-exhnosec=%s" % ("true" if events["nosec"] else "false"), "-exhpath", events["path"],
                                                  "-exhev", events["ev"], "-out", out], timeout=600)
            if rc != 0:
                raise vlib.Inconclusive("replay of one exhaustive-exploration transition failed (rc=%s): %s" % (rc, (se or "")[-2000:]))
            st = json.loads(so.strip().splitlines()[-1])
            tv = vlib.validate_trace("Trace_RoutingTable", trace_cfgs(prop, 2), out, INV_PROPS, timeout=600)
            return "exh", out, st, tv, events
        if s == "exh":
            out = os.path.join(wd, "trace-exh.ndjson")
            rc, so, se = vlib.run_driver(binary, ["-exh", events[0], "-exhmax", events[1], "-seed", n, "-out", out], timeout=3000)
            if rc != 0:
                if rc is not None and vlib.code_panic(se):
                    return "exh", out, dict(crash=(se or "")[-6000:]), None, events
                raise vlib.Inconclusive("exhaustive routing-table exploration failed (rc=%s): %s" % (rc, (se or "")[-3000:]))
            st = json.loads(so.strip().splitlines()[-1])
            tv = vlib.validate_trace("Trace_RoutingTable", trace_cfgs(prop, 2), out, INV_PROPS,
                                     timeout=3000)
            return "exh", out, st, tv, events
        out = os.path.join(wd, "trace-%d.ndjson" % s)
        st = drive(binary, s, n, events, out, only)
        if "crash" in st:
            return s, out, st, None, events
        tv = vlib.validate_trace("Trace_RoutingTable", trace_cfgs(prop), out, INV_PROPS, max_rounds=30,
                                 timeout=1500)
        return s, out, st, tv, events

    with ThreadPoolExecutor(max_workers=min(len(jobs), max(1, vlib.NCPU // 2))) as ex:
        results = list(ex.map(one, jobs))
    events_total = hist = deviations = answers = 0
    driver_errors = []
    base = [r for r in results if r[0] not in ("exh", "net") and r[3] is not None]
    if not replay and base:
        st_ = vlib.binding_selftest("Trace_RoutingTable", trace_cfgs(prop), base[0][1], corrupt(prop), INV_PROPS)
        cov["binding_selftest"] = st_
        log("  binding self-test: %s -> %s" % (st_["what"], "rejected, as required" if st_["detected"] else "NOT NOTICED"))
        if not st_["detected"]:
            v.inconclusive.append("binding self-test failed: the validator accepted a corrupted trace (%s)" % st_["what"])
    for s, out, st, tv, nev in results:
        if "crash" in st:
            # the process running the real server died (e.g. the table's own consistency panics): the history so far is the replay
            lines = vlib.read_trace(out) if os.path.exists(out) else []
            last_seg = vlib.seg_of(lines[-1]) if lines else 0
            if prop == "C05":
                rp = vlib.save_replay(prop, "crash-%s-%s" % (s, last_seg), {"stderr.txt": st["crash"]},
                                      dict(property=prop, seed=s, history=last_seg, events=nev, what="server process panicked while applying the history"))
                v.violation("crash", "the node panicked while a history of table events was applied (seed %s history %s): %s"
                            % (s, last_seg, st["crash"].strip().splitlines()[0][:200] if st["crash"].strip() else ""), rp)
            else:
                log("  note: driver process panicked (judged by C05): seed %s" % s)
            continue
        if st.get("driver_error"):
            driver_errors.append(st["driver_error"])
        events_total += st["events"]
        hist += st["histories"] if not replay else 1
        if s == "exh":
            cov["exhaustive_real_code"] = dict(states_expanded=st["states"], transitions_validated=st["transitions"],
                                               note="breadth-first over the abstract states the real Server reaches with bucket size 2 and a 6-sender alphabet, security on and off")
        cov["traces_validated_against_impl"] += tv["accepted_segments"]
        for i in tv["inconclusive"]:
            v.inconclusive.append(i)
        lines = vlib.read_trace(out)
        answers += sum(1 for x in lines if '"e":"Answer"' in x)
        if not cov["samples"] and lines:
            smp = []
            for x in lines[:8]:
                d = json.loads(x)
                if "snap" in d and len(d["snap"]) > 3:
                    d["snap"] = d["snap"][:3] + ["..."]
                smp.append(d)
            cov["samples"] = smp
        for f in tv["findings"]:
            if f["kind"] == "unexplained":
                v.inconclusive.append("trace of seed %s history %s cannot be followed even in relaxed mode: %s" % (s, f["seg"], f["line"][:300]))
                continue
            if prop not in f["props"]:
                log("  note: %s (%s) violated in seed %s history %s; not this property" % (f["name"], ",".join(f["props"]), s, f["seg"]))
                continue
            segl = [x for x in lines if vlib.seg_of(x) == f["seg"]]
            meta = dict(property=prop, invariant=f["name"], seed=s, history=f["seg"], events=nev, line=f["line"][:2000])
            if s == "net":
                meta["net_seed"] = seed
            if s == "exh" and segl:
                h0 = json.loads(segl[0])
                meta.update(exh_seed=seed if not replay else json.load(open(os.path.join(replay, "meta.json"))).get("exh_seed", seed),
                            exh=dict(nosec=h0.get("nosec", True), path=h0.get("path", "[]"), ev=h0.get("ev", "")))
            rp = vlib.save_replay(prop, "%s-%s-%s" % (f["name"], s, f["seg"]),
                                  {"trace.ndjson": "\n".join(segl) + "\n", "state.txt": f.get("state") or ""}, meta)
            try:
                d = json.loads(f["line"])
                what = "%s %s" % (d.get("e"), d.get("method", ""))
            except Exception:
                what = ""
            v.violation(f["name"], "%s violated on the table reconstructed from a real history (seed %s history %s) at event %s"
                        % (f["name"], s, f["seg"], what), rp)
        deviations += len(tv["deviations"])
        for d in tv["deviations"]:
            log("  deviation (no listed property violated): seed %s history %s: %s" % (s, d["seg"], d["line"][:160]))
    cov.update(evaluations=events_total, histories=hist, answered_queries=answers, deviations_without_property_violation=deviations,
               distinct_nontrivial=cov["traces_validated_against_impl"], exhaustive=False,
               rule="seeded histories against a real Server behind a fake PacketConn: inbound ping/find_node/get_peers/get (read-only or not, "
                    "blocked, port 0, own/zero/absent ID, IDs aimed at few buckets, same ID at several addresses and vice versa, secure and insecure "
                    "IDs with enforcement on/off), own pings answered genuinely / under another ID / from another port or IP / with another t / by an "
                    "error / not at all, unsolicited and replayed responses, AddNode, questionable-ping time-outs, 16-minute ageing, blocklist "
                    "changes; after every event the snapshot hook and NumNodes/Stats/Nodes are validated by TLC against RoutingTable.tla",
               invariants=[k for k, p in INV_PROPS.items() if prop in p])
    for de in driver_errors:
        v.inconclusive.append(de)
    rc = v.finish()
    if not replay:      # a replay re-runs one stored case; the evidence of the last full run is left alone
        vlib.write_evidence(prop, tier, seed, cov, time.time() - t0, len(v.violations),
                            assumptions=["ID validity for an IP (BEP 42) is taken from dht.NodeIdSecure, which C17 checks separately",
                                         "the bucket an ID belongs to is computed by the harness as the shared-prefix length (C18 checks the code's function)",
                                         "ageing moves in 16-minute jumps, so the 15-minute horizon is never approached from below",
                                         "AddNode of a blocklisted address is not generated (the statement is about datagrams)"])
    return rc
