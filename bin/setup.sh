#!/bin/sh
# MANIFEST.setup_cmd: offline; parses every specification and warms the Go build cache for the harness.
set -e
cd "$(dirname "$0")/.."
export GOFLAGS=-mod=mod GOPROXY=off GOSUMDB=off GOTOOLCHAIN=local
tmp=$(mktemp -d)
cp spec/*.tla "$tmp"/
( cd "$tmp" && for f in *.tla; do
    case "$f" in Trace_*|Rec_*) continue;; esac   # these read a trace file at parse time
    if grep -q 'EXTENDS.*TLAPS' "$f"; then continue; fi   # proof modules: parsed and checked by tlapm (its own library), not by SANY
    tla-sany "$f" >/dev/null 2>&1 || { echo "SANY failed on $f"; tla-sany "$f" | tail -20; exit 1; }
  done )
rm -rf "$tmp"
cp /repo/go.sum harness/go.sum
bo=$(mktemp -d); ( cd harness && go build -tags verif -o "$bo"/ ./cmd/... ); rm -rf "$bo"
mkdir -p evidence
echo setup ok
