module verifharness

go 1.23

require (
	github.com/anacrolix/dht/v2 v2.19.2-0.20221121215055-066ad8494444
	github.com/anacrolix/generics v0.0.0-20230816105729-c755655aee45
	github.com/anacrolix/log v0.15.2
	github.com/anacrolix/torrent v1.48.1-0.20230103142631-c20f73d53e9f
	golang.org/x/time v0.0.0-20220609170525-579cf78fd858
)

replace github.com/anacrolix/dht/v2 => /repo
