module verifharness

go 1.23

require (
	github.com/anacrolix/dht/v2 v2.19.2-0.20221121215055-066ad8494444
	github.com/anacrolix/generics v0.0.0-20230816105729-c755655aee45
	github.com/anacrolix/log v0.15.2
	github.com/anacrolix/torrent v1.48.1-0.20230103142631-c20f73d53e9f
	golang.org/x/time v0.0.0-20220609170525-579cf78fd858
)

require (
	github.com/anacrolix/chansync v0.3.0 // indirect
	github.com/anacrolix/missinggo v1.3.0 // indirect
	github.com/anacrolix/missinggo/perf v1.0.0 // indirect
	github.com/anacrolix/missinggo/v2 v2.7.1 // indirect
	github.com/anacrolix/multiless v0.3.1-0.20221221005021-2d12701f83f7 // indirect
	github.com/anacrolix/sync v0.4.0 // indirect
	github.com/benbjohnson/immutable v0.4.1-0.20221220213129-8932b999621d // indirect
	github.com/bradfitz/iter v0.0.0-20191230175014-e8f45d346db8 // indirect
	github.com/edsrzf/mmap-go v1.1.0 // indirect
	github.com/huandu/xstrings v1.3.2 // indirect
	github.com/rs/dnscache v0.0.0-20211102005908-e0241e321417 // indirect
	golang.org/x/exp v0.0.0-20221217163422-3c43f8badb15 // indirect
	golang.org/x/sync v0.0.0-20220722155255-886fb9371eb4 // indirect
	golang.org/x/sys v0.6.0 // indirect
)

replace github.com/anacrolix/dht/v2 => /repo
