// Command maint runs the real Server.TableMaintainer against simulated contacts and records what is
// visible at the library's boundaries (datagrams written, replies and queries delivered, routing-table
// snapshots, Close, the routine's return) as an ndjson trace for Trace_Maintainer.tla. Each scenario is a
// fresh Server whose table is first brought into a seeded state (contacts that answered, that only
// queried, that have aged, that failed a questionable-node ping); the contacts then behave as seeded while
// the maintainer runs: they answer pings at the first, second or third try or never, answer find_node with
// seeded node lists, in time or after the time-out, ping the node themselves, and the server is closed
// either when the pass has gone quiet or in the middle of it.
package main

import (
	"context"
	"flag"
	"fmt"
	"math/rand"
	"net"
	"os"
	"sort"
	"sync"
	"sync/atomic"
	"time"

	"github.com/anacrolix/dht/v2"
	"github.com/anacrolix/dht/v2/int160"
	"github.com/anacrolix/dht/v2/krpc"
	"github.com/anacrolix/log"
	"golang.org/x/time/rate"

	"verifharness/sim"
)

const (
	numContacts = 12
	selfTarget  = -2
)

// resend delay of the node's queries while the maintainer runs; generous while the table is being set up
const resend = 30 * time.Millisecond

var resendNs int64 = int64(5 * time.Second)

type contact struct {
	name   string
	bucket int
	id     krpc.ID
	addr   *net.UDPAddr
	// behaviour while the maintainer runs
	pingAt   int   // answers the n-th send of a ping (0: never)
	findAns  bool  // answers find_node
	findLate bool  // ... but only after the query has timed out
	lists    []int // contacts listed in its find_node replies
}

type pending struct {
	due time.Time
	c   *contact
	to  string
	t   []byte
}

type run struct {
	rng      *rand.Rand
	tr       *sim.Trace
	seg      int
	k        int
	contacts []*contact
	byAddr   map[string]*contact
	byId     map[krpc.ID]*contact
	root     krpc.ID
	srv      *dht.Server
	conn     *sim.Conn

	mu      sync.Mutex
	logging bool
	nth     map[string]int
	sends   int
}

func fail(format string, a ...any) {
	fmt.Fprintf(os.Stderr, "DRIVER-ERROR: "+format+"\n", a...)
	os.Exit(3)
}

func classOf(ms int64) string {
	switch {
	case ms < 0:
		return "never"
	case ms < 900_000:
		return "recent"
	}
	return "old"
}

// wedged records that the node cannot be used any more and ends the run: what has been recorded is judged
func (r *run) wedged(what string) {
	r.tr.Emit(sim.M{"seg": r.seg, "e": "Wedged", "what": what})
	r.tr.Close()
	os.Exit(0)
}

func (r *run) snapshot() []sim.M {
	var snap []dht.VerifNode
	got := make(chan struct{})
	go func() { snap = r.srv.VerifTableSnapshot(); close(got) }()
	select {
	case <-got:
	case <-time.After(30 * time.Second):
		r.wedged("the server lock could not be taken for 30 s while TableMaintainer ran")
	}
	sl := []sim.M{}
	for _, n := range snap {
		c := r.byId[n.Id]
		if c == nil || c.addr.String() != n.Addr {
			fail("table holds %x@%s, which is none of the simulated contacts", n.Id, n.Addr)
		}
		sl = append(sl, sim.M{"id": c.name, "ab": n.Bucket, "q": classOf(n.QAge), "r": classOf(n.RAge), "failed": n.Failed})
	}
	sort.Slice(sl, func(i, j int) bool { return sl[i]["id"].(string) < sl[j]["id"].(string) })
	return sl
}

func (r *run) inject(b []byte, from *net.UDPAddr) bool {
	return r.conn.Inject(b, from, 20*time.Second)
}

// onWrite logs the node's own queries as they reach the socket.
func (r *run) onWrite(b []byte, to net.Addr) error {
	r.mu.Lock()
	defer r.mu.Unlock()
	if !r.logging {
		return nil
	}
	d, err := sim.DecodeDict(b)
	if err != nil {
		fail("the node wrote a datagram that does not decode: %v", err)
	}
	y, _ := d.Str("y")
	if string(y) != "q" {
		return nil
	}
	q, _ := d.Str("q")
	t, _ := d.Str("t")
	c := r.byAddr[to.String()]
	dst := to.String()
	if c != nil {
		dst = c.name
	}
	key := dst + "/" + string(t)
	r.nth[key]++
	r.sends++
	m := sim.M{"seg": r.seg, "e": "Send", "q": string(q), "dst": dst, "nth": r.nth[key], "tb": -1}
	if string(q) == "find_node" {
		tg, ok := d.Dict("a").Str("target")
		if !ok || len(tg) != 20 {
			fail("find_node without a 20-byte target")
		}
		var id krpc.ID
		copy(id[:], tg)
		if id == r.root {
			m["tb"] = selfTarget
		} else {
			m["tb"] = dht.VerifBucketIndex(int160.FromByteArray(r.root), int160.FromByteArray(id))
		}
	}
	r.tr.Emit(m)
	return nil
}

func (r *run) compact(idx []int) []byte {
	var b []byte
	for _, i := range idx {
		c := r.contacts[i]
		b = append(b, c.id[:]...)
		b = append(b, sim.CompactAddr(c.addr.IP, c.addr.Port)...)
	}
	return b
}

func (r *run) response(c *contact, t []byte, find bool) []byte {
	rd := sim.D("id", c.id[:])
	if find {
		rd.Set("nodes", r.compact(c.lists))
	}
	return sim.Encode(sim.D("t", t, "y", "r", "r", rd))
}

// waitQuery waits for the node's next query to c and removes it.
func (r *run) waitQuery(c *contact, timeout time.Duration) (q string, t []byte, ok bool) {
	deadline := time.Now().Add(timeout)
	for {
		for _, o := range r.conn.Take() {
			d, err := sim.DecodeDict(o.B)
			if err != nil || o.To == nil || o.To.String() != c.addr.String() {
				continue
			}
			if y, _ := d.Str("y"); string(y) != "q" {
				continue
			}
			qq, _ := d.Str("q")
			tt, _ := d.Str("t")
			return string(qq), tt, true
		}
		if time.Now().After(deadline) {
			return "", nil, false
		}
		time.Sleep(100 * time.Microsecond)
	}
}

// ---- bringing the table into its initial state (not logged)

func (r *run) makeResponded(c *contact) {
	done := make(chan struct{})
	go func() { r.srv.Ping(c.addr); close(done) }()
	_, t, ok := r.waitQuery(c, 20*time.Second)
	if !ok {
		fail("no ping to %s during set-up", c.name)
	}
	if !r.inject(r.response(c, t, false), c.addr) {
		fail("read loop did not come back during set-up")
	}
	<-done
}

func (r *run) makeQueried(c *contact) {
	if !r.inject(sim.Encode(sim.D("t", "su", "y", "q", "q", "ping", "a", sim.D("id", c.id[:]))), c.addr) {
		fail("read loop did not come back during set-up")
	}
}

func (r *run) makeFailed(c *contact) {
	atomic.StoreInt64(&resendNs, int64(resend))
	defer atomic.StoreInt64(&resendNs, int64(5*time.Second))
	r.srv.VerifQuestionablePing(context.Background(), dht.NewAddr(c.addr), c.id)
}

func (r *run) scenario() {
	rng := r.rng
	rng.Read(r.root[:])
	root := int160.FromByteArray(r.root)
	r.byAddr, r.byId = map[string]*contact{}, map[krpc.ID]*contact{}
	for i, c := range r.contacts {
		cid := dht.VerifRandomIdInBucket(root, c.bucket)
		c.id = cid.AsByteArray()
		c.addr = &net.UDPAddr{IP: net.IPv4(46, 1, byte(1+r.seg%200), byte(10+i)).To4(), Port: 5000 + i}
		r.byAddr[c.addr.String()] = c
		r.byId[c.id] = c
	}
	r.conn = sim.NewConn("45.9.9.9:4000")
	r.conn.OnWrite = r.onWrite
	r.logging, r.nth, r.sends = false, map[string]int{}, 0
	cfg := dht.NewDefaultServerConfig()
	cfg.NodeId = r.root
	cfg.Conn = r.conn
	cfg.NoSecurity = true
	cfg.StartingNodes = func() ([]dht.Addr, error) { return nil, nil }
	cfg.QueryResendDelay = func() time.Duration { return time.Duration(atomic.LoadInt64(&resendNs)) }
	cfg.SendLimiter = rate.NewLimiter(rate.Inf, 1)
	cfg.Logger = log.Default.FilterLevel(log.Critical)
	srv, err := dht.NewServer(cfg)
	if err != nil {
		panic(err)
	}
	r.srv = srv
	srv.VerifSetTableK(r.k)

	// initial states: 0 absent, 1 answered recently, 2 only queried recently, 3 answered long ago,
	// 4 answered long ago and has failed a ping since, 5 answered long ago, queried recently
	states := make([]int, len(r.contacts))
	empty := rng.Intn(8) == 0
	for i := range states {
		if !empty {
			states[i] = []int{0, 0, 1, 1, 2, 3, 3, 4, 5}[rng.Intn(9)]
		}
	}
	for i, c := range r.contacts {
		if states[i] >= 3 {
			r.makeResponded(c)
		}
	}
	srv.VerifAgeTable(20 * time.Minute)
	for i, c := range r.contacts {
		switch states[i] {
		case 4:
			r.makeFailed(c)
		case 5:
			r.makeQueried(c)
		}
	}
	for i, c := range r.contacts {
		switch states[i] {
		case 1:
			r.makeResponded(c)
		case 2:
			r.makeQueried(c)
		}
	}
	sim.WaitQuiet(10 * time.Second)
	r.conn.Take()
	atomic.StoreInt64(&resendNs, int64(resend))

	// behaviour of the contacts during the pass
	for _, c := range r.contacts {
		c.pingAt = []int{0, 0, 1, 1, 2, 3}[rng.Intn(6)]
		c.findAns = rng.Intn(4) != 0
		c.findLate = c.findAns && rng.Intn(6) == 0
		c.lists = nil
		for n := rng.Intn(5); n > 0; n-- {
			c.lists = append(c.lists, rng.Intn(len(r.contacts)))
		}
	}
	closeAt := -1 // close after that many sends; -1: when the pass has gone quiet
	if rng.Intn(3) == 0 {
		closeAt = rng.Intn(12)
	}
	inbound := map[int]*contact{} // after that many sends, the contact pings the node
	for n := rng.Intn(3); n > 0; n-- {
		inbound[rng.Intn(10)] = r.contacts[rng.Intn(len(r.contacts))]
	}

	r.mu.Lock()
	r.logging = true
	r.tr.Emit(sim.M{"seg": r.seg, "e": "Setup", "k": r.k, "table": r.snapshot()})
	r.mu.Unlock()
	returned := make(chan struct{})
	go func() { srv.TableMaintainer(); close(returned) }()
	// background noise in half of the scenarios: unsolicited responses from a stranger. They change nothing (no
	// transaction matches) but each one takes the server's write lock, as real traffic does all the time
	stopChatter := make(chan struct{})
	var chatterDone sync.WaitGroup
	if rng.Intn(2) == 0 {
		chatterDone.Add(1)
		go func() {
			defer chatterDone.Done()
			stranger := &net.UDPAddr{IP: net.IPv4(47, 7, 7, 7).To4(), Port: 7777}
			var sid krpc.ID
			sid[0] = 0x77
			b := sim.Encode(sim.D("t", "zz", "y", "r", "r", sim.D("id", sid[:])))
			for {
				select {
				case <-stopChatter:
					return
				default:
				}
				if !r.conn.Inject(b, stranger, 2*time.Second) {
					time.Sleep(time.Millisecond)
				}
			}
		}()
	}
	defer func() { close(stopChatter); chatterDone.Wait() }()

	var late []pending
	lastActivity := time.Now()
	seen := 0
	closed := false
	doClose := func() {
		cl := make(chan struct{})
		go func() { srv.Close(); close(cl) }()
		select {
		case <-cl:
		case <-time.After(30 * time.Second):
			r.wedged("Server.Close did not return within 30 s while TableMaintainer ran")
		}
		r.tr.Emit(sim.M{"seg": r.seg, "e": "Close"})
		closed = true
	}
	deliver := func(c *contact, to string, t []byte) {
		nodes := []string{}
		if to == "find_node" {
			for _, i := range c.lists {
				nodes = append(nodes, r.contacts[i].name)
			}
		}
		r.tr.Emit(sim.M{"seg": r.seg, "e": "Reply", "dst": c.name, "to": to, "nodes": nodes})
		if !r.inject(r.response(c, t, to == "find_node"), c.addr) && !closed {
			r.wedged("the read loop did not take a reply within 20 s")
		}
	}
	for !closed {
		outs := r.conn.Take()
		for _, o := range outs {
			d, err := sim.DecodeDict(o.B)
			if err != nil || o.To == nil {
				continue
			}
			if y, _ := d.Str("y"); string(y) != "q" {
				continue
			}
			lastActivity = time.Now()
			seen++
			c := r.byAddr[o.To.String()]
			if c == nil {
				continue // the trace already holds a Send to an unknown address: rejected there
			}
			q, _ := d.Str("q")
			t, _ := d.Str("t")
			switch string(q) {
			case "ping":
				r.mu.Lock()
				n := r.nth[c.name+"/"+string(t)]
				r.mu.Unlock()
				// answer the try this contact answers (the count is read after the fact: a later try may
				// already be out, in which case the answer is simply a little late)
				if c.pingAt != 0 && n >= c.pingAt {
					deliver(c, "ping", t)
				}
			case "find_node":
				if c.findAns {
					if c.findLate {
						late = append(late, pending{time.Now().Add(3 * resend), c, "find_node", t})
					} else {
						deliver(c, "find_node", t)
					}
				}
			}
			if closed {
				break
			}
			if ic := inbound[seen]; ic != nil {
				r.tr.Emit(sim.M{"seg": r.seg, "e": "Query", "from": ic.name})
				if !r.inject(sim.Encode(sim.D("t", "iq", "y", "q", "q", "ping", "a", sim.D("id", ic.id[:]))), ic.addr) {
					r.wedged("the read loop did not take a query within 20 s")
				}
			}
			if closeAt >= 0 && seen >= closeAt {
				doClose()
				break
			}
		}
		if closed {
			break
		}
		now := time.Now()
		rest := late[:0]
		for _, p := range late {
			if now.After(p.due) {
				deliver(p.c, p.to, p.t)
				lastActivity = time.Now()
			} else {
				rest = append(rest, p)
			}
		}
		late = rest
		if len(outs) == 0 {
			if len(late) == 0 && time.Since(lastActivity) > 8*resend+100*time.Millisecond {
				// the pass has gone quiet (or is slow: the snapshot is meaningful at any moment)
				r.tr.Emit(sim.M{"seg": r.seg, "e": "Snap", "table": r.snapshot()})
				doClose()
				break
			}
			time.Sleep(200 * time.Microsecond)
		}
	}
	select {
	case <-returned:
		r.tr.Emit(sim.M{"seg": r.seg, "e": "Returned"})
	case <-time.After(30 * time.Second):
		r.tr.Emit(sim.M{"seg": r.seg, "e": "Hang", "what": "TableMaintainer did not return within 30 s of Close"})
	}
	// nothing of the pass may outlive the routine: queries, senders, lookups, pings
	leakDeadline := time.Now().Add(15 * time.Second)
	for sim.CountGoroutines("(*Server).Query", "transactionSender", "(*Operation).", "questionableNodePing", "(*Server).serve") != 0 {
		if time.Now().After(leakDeadline) {
			r.tr.Emit(sim.M{"seg": r.seg, "e": "Leak", "what": fmt.Sprint(sim.Goroutines())})
			break
		}
		time.Sleep(time.Millisecond)
	}
	atomic.StoreInt64(&resendNs, int64(5*time.Second))
	r.mu.Lock()
	r.logging = false
	r.mu.Unlock()
	r.tr.Emit(sim.M{"seg": r.seg, "e": "Snap", "table": r.snapshot()})
}

func main() {
	seed := flag.Int64("seed", 1, "")
	n := flag.Int("n", 10, "scenarios")
	k := flag.Int("k", 2, "bucket size")
	path := flag.String("trace", "trace.ndjson", "")
	flag.Parse()
	sim.Watchdog(180 * time.Second)
	tr, err := sim.NewTrace(*path)
	if err != nil {
		panic(err)
	}
	tr.Sync = true
	rng := rand.New(rand.NewSource(*seed))
	r := &run{rng: rng, tr: tr, k: *k}
	bucket := sim.M{}
	for i := 0; i < numContacts; i++ {
		c := &contact{name: fmt.Sprintf("c%d", i+1)}
		if *k <= 2 {
			c.bucket = []int{0, 0, 0, 0, 1, 1, 1, 2, 2, 3}[rng.Intn(10)]
		} else {
			c.bucket = []int{0, 0, 0, 0, 0, 0, 0, 0, 0, 1, 1, 2}[rng.Intn(12)]
		}
		bucket[c.name] = c.bucket
		r.contacts = append(r.contacts, c)
	}
	tr.Emit(sim.M{"e": "Header", "k": *k, "bucket": bucket, "seed": *seed})
	for i := 0; i < *n; i++ {
		r.seg = i + 1
		r.scenario()
	}
	tr.Close()
}
