package main

import (
	"runtime"
	"sort"
	"strconv"
	"strings"
	"time"
)

const modPath = "github.com/anacrolix/dht/v2"

// gor is one goroutine that has a frame of the module under test, or was created by it.
type gor struct {
	id      int
	state   string
	frames  []string // function names, innermost first
	created string
}

func curGoid() int {
	var buf [64]byte
	n := runtime.Stack(buf[:], false)
	f := strings.Fields(string(buf[:n]))
	if len(f) < 2 {
		return -1
	}
	id, _ := strconv.Atoi(f[1])
	return id
}

var stackBuf = make([]byte, 1<<18)

// only called from the driver's main goroutine
func allStacks() string {
	for {
		n := runtime.Stack(stackBuf, true)
		if n < len(stackBuf) {
			return string(stackBuf[:n])
		}
		stackBuf = make([]byte, 2*len(stackBuf))
	}
}

// scan lists the goroutines of the module under test (goroutines of the harness that are inside
// a callback of the module, e.g. parked in a gate, count: they are the module's goroutines).
func scan() []gor {
	var res []gor
	for _, blk := range strings.Split(allStacks(), "\n\n") {
		if !strings.Contains(blk, modPath) {
			continue
		}
		lines := strings.Split(blk, "\n")
		if len(lines) == 0 || !strings.HasPrefix(lines[0], "goroutine ") {
			continue
		}
		var g gor
		h := strings.Fields(lines[0])
		g.id, _ = strconv.Atoi(h[1])
		if i := strings.Index(lines[0], "["); i >= 0 {
			g.state = strings.TrimSuffix(strings.TrimSpace(lines[0][i:]), ":")
		}
		for _, l := range lines[1:] {
			if strings.HasPrefix(l, "\t") || l == "" {
				continue
			}
			if strings.HasPrefix(l, "created by ") {
				c := strings.TrimPrefix(l, "created by ")
				if i := strings.Index(c, " in goroutine"); i >= 0 {
					c = c[:i]
				}
				g.created = c
				continue
			}
			if i := strings.LastIndex(l, "("); i > 0 {
				l = l[:i]
			}
			g.frames = append(g.frames, l)
		}
		res = append(res, g)
	}
	return res
}

func (g gor) has(sub string) bool {
	for _, f := range g.frames {
		if strings.Contains(f, sub) {
			return true
		}
	}
	return false
}

// sig is a short, stable description: the innermost frame of the module under test.
func (g gor) sig() string {
	for _, f := range g.frames {
		if strings.Contains(f, modPath) {
			return strings.TrimPrefix(f, modPath+"/")
		}
	}
	return "created by " + strings.TrimPrefix(g.created, modPath+"/")
}

func idsOf(gs []gor) map[int]bool {
	m := map[int]bool{}
	for _, g := range gs {
		m[g.id] = true
	}
	return m
}

// leaked returns the module goroutines that did not exist at the baseline, leaving out the ones
// the harness itself keeps parked (the delayed socket close).
func leaked(baseline map[int]bool) []gor {
	var r []gor
	for _, g := range scan() {
		if baseline[g.id] || g.has("main.(*lifeConn).Close") {
			continue
		}
		r = append(r, g)
	}
	return r
}

func sigs(gs []gor) []string {
	r := []string{}
	for _, g := range gs {
		r = append(r, g.sig())
	}
	sort.Strings(r)
	return r
}

// waitClean polls until there is no pending transaction and no goroutine beyond the baseline, or
// until the bound has passed: a leak is what is still there after the bound, never one scan. A
// goroutine that is not blocked when the bound expires (runnable, running, in a system call: the
// machine is busy, it is on its way out) extends the wait, up to five times the bound: only
// goroutines that sit blocked are reported.
func waitClean(txns func() int, baseline map[int]bool, bound time.Duration) (int, []gor) {
	start := time.Now()
	for {
		t := txns()
		l := leaked(baseline)
		if t == 0 && len(l) == 0 {
			return t, l
		}
		el := time.Since(start)
		if el > bound {
			moving := false
			for _, g := range l {
				s := g.state
				moving = moving || strings.HasPrefix(s, "[runnable") || strings.HasPrefix(s, "[running") || strings.HasPrefix(s, "[syscall") || strings.HasPrefix(s, "[sleep")
			}
			if !moving || el > 5*bound {
				return t, l
			}
		}
		time.Sleep(200 * time.Microsecond)
	}
}
