package main

import (
	"crypto/sha1"
	"fmt"
	"math/rand"
	"net"
	"sync"
	"time"

	"github.com/anacrolix/dht/v2/krpc"

	"verifharness/sim"
)

// A small simulated network behind the fake socket. Outgoing queries are decoded at WriteTo (with
// the harness's own bencode reader) and answered by injecting a reply from the queried address
// that echoes `t`. The driver, not the network, decides when: in hold mode queries are kept until
// released.
//
// Node kinds: "resp" answers (when released); the sender's resend delay is 1 h, so the reply or a
// cancellation ends the query. "silent" never answers and its queries time out at once (delay 1 ms).
// "parked" never answers either, but the query's sender goroutine is parked inside
// QueryResendDelay until the drain phase and only then gets its 1 ms: a query that is in flight
// across the scenario's stop event and ends by time-out afterwards.
type simNode struct {
	addr    *net.UDPAddr
	id      krpc.ID
	kind    string
	again   string // kind for the second and later queries to this node ("" = same)
	nodes   []*simNode
	value   bool
	queries int
}

type heldQ struct {
	node *simNode
	t    string
	q    string
}

type simNet struct {
	mu      sync.Mutex
	conn    *lifeConn
	nodes   map[string]*simNode
	byGid   map[int]string // sender goroutine -> kind of the node it just wrote to
	hold    bool
	held    []*heldQ
	parked  int
	sent    map[string]int // queries seen, by method
	drainCh chan struct{}
	drained bool
	autoCh  chan *heldQ
	stopCh  chan struct{}
	target  krpc.ID
	injMu   sync.Mutex
	closed  bool // the driver has closed the server: replies are dropped, the serve loop leaves
	dead    bool // the serve loop no longer takes datagrams
}

var theValue = []byte("5:hello") // bencoded "hello"; target of the immutable item is its SHA-1

func newSimNet(conn *lifeConn) *simNet {
	n := &simNet{conn: conn, nodes: map[string]*simNode{}, byGid: map[int]string{}, sent: map[string]int{},
		drainCh: make(chan struct{}), autoCh: make(chan *heldQ, 256), stopCh: make(chan struct{}), hold: true}
	n.target = sha1.Sum(theValue)
	go n.autoLoop()
	return n
}

func (n *simNet) addNode(rng *rand.Rand, i int, kind string) *simNode {
	sn := &simNode{addr: udp(fmt.Sprintf("10.1.%d.%d:%d", rng.Intn(3), 2+i, 6881+rng.Intn(3))), id: randID(rng), kind: kind}
	n.nodes[sn.addr.String()] = sn
	return sn
}

func compact(ns []*simNode) string {
	var b []byte
	for _, x := range ns {
		b = append(b, x.id[:]...)
		b = append(b, x.addr.IP.To4()...)
		b = append(b, byte(x.addr.Port>>8), byte(x.addr.Port))
	}
	return string(b)
}

func (n *simNet) replyFor(h *heldQ) []byte {
	r := sim.D("id", string(h.node.id[:]))
	switch h.q {
	case "find_node":
		r.Set("nodes", []byte(compact(h.node.nodes)))
	case "get_peers":
		r.Set("nodes", []byte(compact(h.node.nodes)))
		r.Set("token", []byte("tok"))
		if h.node.value {
			r.Set("values", sim.L(string([]byte{10, 2, 0, 1, 0x1a, 0xe1}), string([]byte{10, 2, 0, 2, 0x1a, 0xe2})))
		}
	case "get":
		r.Set("nodes", []byte(compact(h.node.nodes)))
		r.Set("token", []byte("tok"))
		if h.node.value {
			r.Set("v", sim.Raw(theValue))
		}
	}
	return sim.Encode(sim.D("t", h.t, "y", "r", "r", r))
}

// onWrite is Conn.OnWrite: called by the sender goroutine of a query, outside the server lock.
func (n *simNet) onWrite(b []byte, to net.Addr) error {
	t, y, q, _ := tOf(b)
	if y != "q" {
		return nil
	}
	n.mu.Lock()
	defer n.mu.Unlock()
	n.sent[q]++
	node := n.nodes[to.String()]
	if node == nil {
		n.byGid[curGoid()] = "silent"
		return nil
	}
	node.queries++
	kind := node.kind
	if node.queries > 1 && node.again != "" {
		kind = node.again
	}
	n.byGid[curGoid()] = kind
	if kind != "resp" {
		return nil
	}
	h := &heldQ{node: node, t: t, q: q}
	if n.hold {
		n.held = append(n.held, h)
	} else {
		n.autoCh <- h
	}
	return nil
}

// resendDelay is ServerConfig.QueryResendDelay: called by the same goroutine right after its write.
func (n *simNet) resendDelay() time.Duration {
	n.mu.Lock()
	kind := n.byGid[curGoid()]
	drained := n.drained
	if kind == "parked" && !drained {
		n.parked++
	}
	n.mu.Unlock()
	switch kind {
	case "resp":
		return longDelay
	case "parked":
		if !drained {
			<-n.drainCh
		}
	}
	return shortDelay
}

func (n *simNet) inject(h *heldQ) {
	n.injMu.Lock()
	defer n.injMu.Unlock()
	if n.dead {
		return
	}
	bound := expectBound
	n.mu.Lock()
	if n.closed {
		bound = 20 * time.Millisecond // a closed server reads one more datagram, drops it and leaves
	}
	n.mu.Unlock()
	if !n.conn.Inject(n.replyFor(h), h.node.addr, bound) {
		n.dead = true
	}
}

func (n *simNet) setClosed() {
	n.mu.Lock()
	n.closed = true
	n.mu.Unlock()
}

func (n *simNet) autoLoop() {
	for {
		select {
		case h := <-n.autoCh:
			n.inject(h)
		case <-n.stopCh:
			return
		}
	}
}

// counts: queries held for a reply, senders parked
func (n *simNet) counts() (held, parked int) {
	n.mu.Lock()
	defer n.mu.Unlock()
	return len(n.held), n.parked
}

func (n *simNet) sentOf(q string) int {
	n.mu.Lock()
	defer n.mu.Unlock()
	return n.sent[q]
}

// waitInFlight waits until k queries are held or parked.
func (n *simNet) waitInFlight(k int, bound time.Duration) bool {
	deadline := time.Now().Add(bound)
	for {
		h, p := n.counts()
		if h+p >= k {
			return true
		}
		if time.Now().After(deadline) {
			return false
		}
		time.Sleep(100 * time.Microsecond)
	}
}

// release answers everything held so far (from the driver's goroutine, one datagram at a time).
func (n *simNet) release() {
	n.mu.Lock()
	hs := n.held
	n.held = nil
	n.mu.Unlock()
	for _, h := range hs {
		n.inject(h)
	}
}

func (n *simNet) subsInFlight() int {
	n.mu.Lock()
	defer n.mu.Unlock()
	return n.sent["announce_peer"] + n.sent["put"]
}

// releaseExcept answers the held queries whose method is not excluded.
func (n *simNet) releaseExcept(excl func(q string) bool) {
	n.mu.Lock()
	var hs, keep []*heldQ
	for _, h := range n.held {
		if excl(h.q) {
			keep = append(keep, h)
		} else {
			hs = append(hs, h)
		}
	}
	n.held = keep
	n.mu.Unlock()
	for _, h := range hs {
		n.inject(h)
	}
}

// drain: answer what is held, answer new queries at once, let the parked senders time out.
func (n *simNet) drain() {
	n.mu.Lock()
	n.hold = false
	hs := n.held
	n.held = nil
	first := !n.drained
	n.drained = true
	n.mu.Unlock()
	if first {
		close(n.drainCh)
	}
	for _, h := range hs {
		n.autoCh <- h
	}
}

func (n *simNet) stop() { close(n.stopCh) }
