package main

import "verifharness/sim"

type ostatus struct {
	Name string `json:"name"`
}

func runOwners(tr *sim.Trace, seed int64, only string, n int) []ostatus { return nil }
