package main

import (
	"context"
	"errors"
	"fmt"
	"math/rand"
	"strings"
	"time"

	"github.com/anacrolix/dht/v2"
	"github.com/anacrolix/dht/v2/bep44"
	"github.com/anacrolix/dht/v2/exts/getput"
	"golang.org/x/time/rate"

	"verifharness/sim"
)

// oscen is one owner scenario: which owner, what the starting-node resolver gives, what the user
// does to stop it and at which quiescent point, and who reads Announce.Peers.
type oscen struct {
	Name     string // stable name (replay handle)
	Owner    string // Bootstrap | Announce | Get | Put | Refresh   (the owner kinds of Owners.tla)
	KeyAPI   string // the API named in a finding's key
	SN       string // ok | empty | error
	Stop     string // none | cancel | srvclose | annclose | stoptrav | srvclose+annclose
	Point    int    // 0 before the call, 1 first round in flight, 2 second round in flight, 3 put / announce_peer in flight, 9 no stop
	Release  bool   // answer the round in flight before the stop event (replies reach the DoQuery callbacks)
	Cons     string // reading | gone | gone1
	InFlight string // held | parked: how the queries in flight at the stop point end afterwards (reply | time-out)
	Opts     bool   // announce: also announce_peer to the closest nodes
	NoValue  bool   // get: nobody has the item
	Holders  bool   // get: every node has the item, so that several queries hold a value when the first one ends the lookup
	Cause    string
}

func ownerScenarios() []oscen {
	var r []oscen
	add := func(s oscen) {
		if s.Cons == "" {
			s.Cons = "reading"
		}
		if s.InFlight == "" {
			s.InFlight = "held"
		}
		switch {
		case s.SN != "ok":
			s.Cause = "starting-nodes-error"
		case (s.Stop == "annclose" || s.Stop == "stoptrav") && s.Cons != "reading":
			s.Cause = "consumer-not-reading"
		case s.Stop == "cancel":
			s.Cause = "ctx-cancelled"
		case strings.HasPrefix(s.Stop, "srvclose"):
			s.Cause = "server-closed"
		case s.Stop == "annclose":
			s.Cause = "closed"
		case s.Stop == "stoptrav":
			s.Cause = "stopped"
		default:
			s.Cause = "finished"
		}
		if s.Owner == "Announce" {
			switch s.Stop {
			case "annclose", "srvclose+annclose":
				s.KeyAPI = "Announce.Close"
			case "stoptrav":
				s.KeyAPI = "Announce.StopTraversing"
			}
		}
		r = append(r, s)
	}
	for _, o := range []struct{ owner, api string }{{"Bootstrap", "BootstrapContext"}, {"Get", "getput.Get"}, {"Put", "getput.Put"}} {
		b := oscen{Owner: o.owner, KeyAPI: o.api}
		n := func(x string) string { return o.api + "/" + x }
		for _, sn := range []string{"empty", "error"} {
			s := b
			s.SN, s.Stop, s.Point, s.Name = sn, "none", 9, n("sn="+sn)
			add(s)
			s.Stop, s.Point, s.Name = "cancel", 0, n("sn="+sn+"/cancel@0")
			add(s)
		}
		b.SN = "ok"
		s := b
		s.Stop, s.Point, s.Name = "none", 9, n("finish")
		add(s)
		if o.owner == "Get" {
			s.NoValue, s.Name = true, n("finish-novalue")
			add(s)
			s.NoValue, s.Holders = false, true
			for _, k := range []string{"a", "b", "c", "d", "e", "f"} {
				s.Name = n("finish-all-hold-" + k)
				add(s)
			}
		}
		for _, stop := range []string{"cancel", "srvclose"} {
			s = b
			s.Stop, s.Point, s.Name = stop, 0, n(stop+"@0")
			add(s)
			pts := []int{1, 2}
			if o.owner == "Put" {
				pts = []int{1, 2, 3}
			}
			for _, pt := range pts {
				for _, inf := range []string{"held", "parked"} {
					if stop == "srvclose" && inf == "held" {
						continue // a closed server drops the replies: those queries can only end by time-out
					}
					s = b
					s.Stop, s.Point, s.InFlight = stop, pt, inf
					s.Name = n(stop + "@" + string(rune('0'+pt)) + "/" + inf)
					add(s)
				}
			}
		}
	}
	a := oscen{Owner: "Announce", KeyAPI: "Announce"}
	n := func(x string) string { return "Announce/" + x }
	for _, sn := range []string{"empty", "error"} {
		s := a
		s.SN, s.Stop, s.Point, s.Name = sn, "none", 9, n("sn="+sn)
		add(s)
	}
	a.SN = "ok"
	s := a
	s.Stop, s.Point, s.Name = "none", 9, n("finish")
	add(s)
	s.Opts, s.Name = true, n("finish/announce_peer")
	add(s)
	s = a
	s.Stop, s.Point, s.Name = "srvclose", 0, n("srvclose@0")
	add(s)
	for _, stop := range []string{"annclose", "stoptrav"} {
		for _, pt := range []int{1, 2} {
			for _, inf := range []string{"held", "parked"} {
				s = a
				s.Stop, s.Point, s.InFlight = stop, pt, inf
				s.Name = n(stop + "@" + string(rune('0'+pt)) + "/" + inf)
				add(s)
			}
		}
		// the replies of the first round have reached getPeers, which hands them to Peers
		for _, cons := range []string{"reading", "gone", "gone1"} {
			s = a
			s.Stop, s.Point, s.Release, s.Cons = stop, 1, true, cons
			s.Name = n(stop + "@1+replies/consumer-" + cons)
			add(s)
		}
	}
	for _, inf := range []string{"held", "parked"} {
		s = a
		s.Stop, s.Point, s.InFlight, s.Opts = "annclose", 3, inf, true
		s.Name = n("annclose@3/" + inf)
		add(s)
	}
	s = a
	s.Stop, s.Point, s.InFlight, s.Name = "srvclose+annclose", 1, "parked", n("srvclose@1+annclose/parked")
	add(s)
	s = a
	s.Stop, s.Point, s.Release, s.Cons, s.Name = "none", 1, true, "gone", n("nostop/consumer-gone")
	add(s)
	for _, ph := range []string{"boot", "refresh", "sleep"} {
		pt := map[string]int{"boot": 1, "refresh": 2, "sleep": 9}[ph]
		add(oscen{Owner: "Refresh", KeyAPI: "TableMaintainer", SN: "ok", Stop: "srvclose", Point: pt, InFlight: "parked",
			Name: "TableMaintainer/srvclose@" + ph})
	}
	return r
}

type ostatus struct {
	Name   string   `json:"name"`
	Hung   bool     `json:"hung"`
	What   string   `json:"what"`
	Leaked []string `json:"leaked"`
	Skip   string   `json:"skip"`
}

type orun struct {
	tr  *sim.Trace
	seg int
	sc  oscen
	rng *rand.Rand
}

func (r *orun) emit(kind string, kv ...any) {
	m := sim.M{"seg": r.seg, "e": kind}
	for i := 0; i+1 < len(kv); i += 2 {
		m[kv[i].(string)] = kv[i+1]
	}
	r.tr.Emit(m)
}

func classOwner(err error) string {
	switch {
	case err == nil:
		return "ok"
	case errors.Is(err, context.Canceled), errors.Is(err, context.DeadlineExceeded):
		return "ctxErr"
	case strings.Contains(err.Error(), "no initial nodes"), strings.Contains(err.Error(), "getting starting nodes"):
		return "startErr"
	}
	return "other"
}

func isSub(q string) bool { return q == "announce_peer" || q == "put" }

func runOwner(tr *sim.Trace, seg int, seed int64, sc oscen) ostatus {
	r := &orun{tr: tr, seg: seg, sc: sc, rng: rand.New(rand.NewSource(seed*7919 + int64(seg)))}
	st := ostatus{Name: sc.Name}
	conn := newLifeConn("10.9.0.1:4000")
	nw := newSimNet(conn)
	conn.OnWrite = nw.onWrite

	// topology: two starting nodes, two nodes behind them
	kinds := [4]string{"resp", "resp", "resp", "resp"}
	switch sc.Point {
	case 1:
		if sc.InFlight == "parked" {
			kinds[0], kinds[1] = "parked", "parked"
		}
	case 2:
		if sc.InFlight == "parked" && sc.Owner != "Refresh" {
			kinds[2], kinds[3] = "parked", "parked"
		}
	case 9, 0:
		if sc.Owner != "Refresh" && r.rng.Intn(2) == 0 {
			kinds[1] = "silent"
		}
	}
	var nd [4]*simNode
	for i := range nd {
		nd[i] = nw.addNode(r.rng, i, kinds[i])
	}
	nd[0].nodes = []*simNode{nd[2], nd[3]}
	nd[1].nodes = []*simNode{nd[3]}
	nd[2].nodes = []*simNode{nd[0]}
	if sc.Holders {
		for _, x := range nd {
			x.value = true
		}
	}
	if !sc.NoValue {
		nd[2].value = true
		if sc.Owner == "Announce" {
			nd[0].value = true
		}
	}
	if sc.Point == 3 || (sc.Owner == "Refresh" && sc.Point == 2) {
		for _, x := range nd {
			x.again = map[string]string{"held": "resp", "parked": "parked"}[sc.InFlight]
		}
	}
	if sc.Point == 0 || sc.Point == 9 {
		nw.mu.Lock()
		nw.hold = false
		nw.mu.Unlock()
	}

	starting := func() ([]dht.Addr, error) {
		switch sc.SN {
		case "empty":
			return nil, nil
		case "error":
			return nil, errors.New("resolver down")
		}
		return []dht.Addr{dht.NewAddr(nd[0].addr), dht.NewAddr(nd[1].addr)}, nil
	}
	pre := idsOf(scan())
	srv, err := dht.NewServer(&dht.ServerConfig{
		Conn: conn, NoSecurity: true, NodeId: randID(r.rng), QueryResendDelay: nw.resendDelay,
		SendLimiter: rate.NewLimiter(rate.Inf, 1), Logger: quietLogger(), StartingNodes: starting,
	})
	must(err)
	base := idsOf(scan())
	own := map[int]bool{}
	for id := range base {
		if !pre[id] {
			own[id] = true
		}
	}
	txns := func() int { return srv.Stats().OutstandingTransactions }
	ctx, cancel := context.WithCancel(context.Background())
	defer cancel()

	api := sc.KeyAPI
	if sc.Owner == "Bootstrap" && sc.Stop != "cancel" && r.rng.Intn(2) == 0 {
		api = "Bootstrap"
	}
	if sc.Owner == "Announce" {
		api = []string{"Announce", "AnnounceTraversal"}[r.rng.Intn(2)]
	}
	r.emit("OStart", "owner", sc.Owner, "name", sc.Name, "sn", sc.SN, "api", api, "keyapi", sc.KeyAPI, "cause", sc.Cause,
		"stop", sc.Stop, "point", sc.Point, "cons", sc.Cons, "inflight", sc.InFlight, "seed", seed)

	stopEvent := func(ann *dht.Announce) {
		for _, ev := range strings.Split(sc.Stop, "+") {
			switch ev {
			case "cancel":
				cancel()
				r.emit("OCancel")
			case "srvclose":
				srv.Close()
				nw.setClosed()
				r.emit("OSrvClose")
			case "annclose":
				if ann != nil {
					ann.Close()
					r.emit("OAnnClose")
				}
			case "stoptrav":
				if ann != nil {
					ann.StopTraversing()
					r.emit("OStopTrav")
				}
			}
		}
	}
	if sc.Point == 0 {
		stopEvent(nil)
	}

	retCh := make(chan error, 1)
	var ann *dht.Announce
	consGone := make(chan struct{}, 1)
	r.emit("OCall")
	switch sc.Owner {
	case "Bootstrap":
		go func() {
			var err error
			if api == "Bootstrap" {
				_, err = srv.Bootstrap()
			} else {
				_, err = srv.BootstrapContext(ctx)
			}
			retCh <- err
		}()
	case "Get":
		go func() {
			_, _, err := getput.Get(ctx, bep44.Target(nw.target), srv, nil, nil)
			if err != nil && err.Error() == "value not found" {
				err = nil
			}
			retCh <- err
		}()
	case "Put":
		go func() {
			_, err := getput.Put(ctx, nw.target, srv, nil, func(int64) bep44.Put { return bep44.Put{V: "hello"} })
			retCh <- err
		}()
	case "Refresh":
		go func() {
			srv.TableMaintainer()
			retCh <- nil
		}()
	case "Announce":
		var err error
		if api == "Announce" {
			port := 0
			if sc.Opts {
				port = 4321
			}
			ann, err = srv.Announce(nw.target, port, false)
		} else if sc.Opts {
			ann, err = srv.AnnounceTraversal(nw.target, dht.AnnouncePeer(dht.AnnouncePeerOpts{Port: 4321}))
		} else {
			ann, err = srv.AnnounceTraversal(nw.target, dht.Scrape())
		}
		r.emit("ORet", "class", classOwner(err))
		if ann != nil {
			switch sc.Cons {
			case "reading":
				go func() {
					for range ann.Peers {
					}
				}()
			case "gone":
				r.emit("OConsGone")
			case "gone1":
				go func() {
					<-ann.Peers
					consGone <- struct{}{}
				}()
			}
		}
	}
	returned := sc.Owner == "Announce"
	awaitRet := func(bound time.Duration) bool {
		if returned {
			return true
		}
		select {
		case err := <-retCh:
			returned = true
			r.emit("ORet", "class", classOwner(err))
			return true
		case <-time.After(bound):
			return false
		}
	}
	fail := func(what string) { // the scenario's point was not reached: no verdict from it
		if st.Skip == "" {
			h, p := nw.counts()
			nw.mu.Lock()
			st.Skip = fmt.Sprintf("%s (held %d, parked %d, sent %v)", what, h, p, nw.sent)
			nw.mu.Unlock()
		}
	}

	// ---- advance to the scenario's point
	running := sc.SN == "ok" && (sc.Owner != "Announce" || ann != nil)
	if running && sc.Point >= 1 && sc.Point <= 3 {
		switch {
		case sc.Owner == "Refresh" && sc.Point == 1:
			if !nw.waitInFlight(2, expectBound) {
				fail("the bootstrap's first queries never appeared")
			}
		case sc.Owner == "Refresh" && sc.Point == 2:
			// bootstrap is answered as it goes; the refresh asks the same nodes again and those are parked
			deadline := time.Now().Add(expectBound)
			for {
				nw.release()
				if _, p := nw.counts(); p >= 1 {
					break
				}
				if time.Now().After(deadline) {
					fail("the bucket refresh never queried anybody")
					break
				}
				time.Sleep(100 * time.Microsecond)
			}
			in := false
			for _, g := range scan() {
				in = in || g.has("(*Server).refreshBucket")
			}
			if !in && st.Skip == "" {
				fail("queries parked but the maintainer is not inside refreshBucket")
			}
		default:
			if !nw.waitInFlight(2, expectBound) {
				fail("the first round of queries never appeared")
			}
			if sc.Owner == "Bootstrap" && st.Skip == "" {
				// a second bootstrap while the first is running is refused; the refused call must leave nothing behind
				// either (the census at the end of the scenario sees what it left)
				if _, err := srv.Bootstrap(); err == nil {
					fail("an overlapping Bootstrap call was not refused")
				}
			}
			if sc.Point >= 2 && st.Skip == "" {
				nw.release()
				if !nw.waitInFlight(2, expectBound) {
					fail("the second round of queries never appeared")
				}
			}
			if sc.Point == 3 && st.Skip == "" {
				deadline := time.Now().Add(expectBound)
				for nw.subsInFlight() < 4 {
					nw.releaseExcept(isSub)
					if time.Now().After(deadline) {
						fail("the put / announce_peer queries never appeared")
						break
					}
					time.Sleep(100 * time.Microsecond)
				}
			}
			if sc.Release && st.Skip == "" {
				nw.release()
				if sc.Cons == "gone1" {
					select {
					case <-consGone:
						r.emit("OConsGone")
					case <-time.After(expectBound):
						fail("no value ever reached the reader of Peers")
					}
				}
				// the callbacks that got a reply are now handing it over (or blocked doing so)
				time.Sleep(2 * time.Millisecond)
			}
		}
	}
	if sc.Owner == "Refresh" && sc.Point == 9 {
		deadline := time.Now().Add(2 * expectBound)
		for {
			asleep := false
			for _, g := range scan() {
				if len(g.frames) > 0 && strings.HasSuffix(g.frames[0], "(*Server).TableMaintainer") && strings.Contains(g.state, "select") {
					asleep = true
				}
			}
			if asleep && txns() == 0 {
				break
			}
			if time.Now().After(deadline) {
				fail("the table maintainer never went to sleep")
				break
			}
			time.Sleep(500 * time.Microsecond)
		}
	}

	// ---- the stop event, then let everything in flight end
	if sc.Point != 0 && st.Skip == "" {
		stopEvent(ann)
	}
	nw.drain()
	must := true // Owners!MustEndFor
	if sc.Owner == "Announce" {
		must = ann == nil || sc.Stop == "annclose" || sc.Stop == "stoptrav" || sc.Stop == "srvclose+annclose" || sc.Cons == "reading"
	}
	if st.Skip != "" {
		// abandon: make everything end and say nothing
		cancel()
		if ann != nil {
			ann.Close()
		}
		closeServer(srv, conn)
		awaitRet(expectBound)
		nw.stop()
		waitServeLoopGone(own)
		r.emit("OSkip", "why", st.Skip)
		return st
	}
	if !awaitRet(expectBound) {
		st.Hung, st.What = true, sc.KeyAPI+" has not returned"
	}
	if ann != nil && must {
		select {
		case <-ann.Finished():
		case <-time.After(expectBound):
			st.Hung, st.What = true, "Announce.Finished() never signalled"
		}
	}
	bound := leakBound
	if !must {
		bound = 20 * time.Millisecond // nothing is owed (Owners!MustEndFor): what is seen is logged, not judged
	}
	t, left := waitClean(txns, base, bound)
	if must {
		st.Leaked = sigs(left)
	}
	r.emit("OQuiesce", "txns", t, "gor", len(left), "hung", st.Hung, "left", sigs(left), "what", st.What)

	// ---- teardown
	cancel()
	if ann != nil {
		ann.Close()
	}
	closeServer(srv, conn)
	if !returned {
		awaitRet(100 * time.Millisecond)
	}
	nw.stop()
	waitServeLoopGone(own)
	return st
}

func runOwners(tr *sim.Trace, seed int64, only string, n int, part, parts int) []ostatus {
	var sts []ostatus
	names := map[string]bool{}
	for _, x := range strings.Split(only, ",") {
		if x != "" {
			names[x] = true
		}
	}
	for i, sc := range ownerScenarios() {
		if len(names) > 0 && !names[sc.Name] {
			continue
		}
		if len(names) == 0 && i%parts != part {
			continue
		}
		if len(sts) >= n {
			break
		}
		sts = append(sts, runOwner(tr, i, seed, sc))
	}
	return sts
}
