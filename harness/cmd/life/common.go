package main

import (
	"fmt"
	"math/rand"
	"net"
	"sync"
	"time"

	"github.com/anacrolix/dht/v2"
	"github.com/anacrolix/dht/v2/krpc"
	"github.com/anacrolix/log"

	"verifharness/sim"
)

// lifeConn is the PacketConn handed to the server. Server.Close closes the socket from a
// goroutine of its own (`go s.socket.Close()`), i.e. at an arbitrary later time; the harness
// picks the latest one: the close only takes effect when the scenario is torn down, so that a
// datagram handed to the socket after Close is seen at the write gate instead of bouncing off a
// closed fake socket.
type lifeConn struct {
	*sim.Conn
	release chan struct{}
	once    sync.Once

	mu      sync.Mutex
	cond    *sync.Cond
	entered int // how often the serve loop has entered ReadFrom
	in      chan lifePkt
	down    chan struct{}
}

type lifePkt struct {
	b    []byte
	from net.Addr
}

func newLifeConn(local string) *lifeConn {
	c := &lifeConn{Conn: sim.NewConn(local), release: make(chan struct{}), in: make(chan lifePkt), down: make(chan struct{})}
	c.cond = sync.NewCond(&c.mu)
	return c
}

// ReadFrom / Inject: the read side is the harness's own so that an injection is synchronous from
// the first datagram on: Inject waits until the single reader (the serve loop) is inside ReadFrom,
// hands it the datagram and returns when the loop has come back for the next one, i.e. when the
// datagram has been processed completely under the server lock.
func (c *lifeConn) ReadFrom(b []byte) (int, net.Addr, error) {
	c.mu.Lock()
	c.entered++
	c.cond.Broadcast()
	c.mu.Unlock()
	select {
	case p := <-c.in:
		return copy(b, p.b), p.from, nil
	case <-c.down:
		return 0, nil, net.ErrClosed
	}
}

func (c *lifeConn) waitEntered(n int, timeout time.Duration) bool {
	ok := make(chan struct{})
	stop := false
	go func() {
		c.mu.Lock()
		for c.entered < n && !stop {
			c.cond.Wait()
		}
		c.mu.Unlock()
		close(ok)
	}()
	select {
	case <-ok:
		return true
	case <-time.After(timeout):
		c.mu.Lock()
		stop = true
		c.cond.Broadcast()
		c.mu.Unlock()
		return false
	}
}

func (c *lifeConn) Inject(b []byte, from net.Addr, timeout time.Duration) bool {
	if !c.waitEntered(1, timeout) {
		return false
	}
	c.mu.Lock()
	e := c.entered
	c.mu.Unlock()
	select {
	case c.in <- lifePkt{b, from}:
	case <-c.down:
		return false
	case <-time.After(timeout):
		return false
	}
	return c.waitEntered(e+1, timeout)
}

func (c *lifeConn) Close() error {
	<-c.release
	c.once.Do(func() { close(c.down) })
	return c.Conn.Close()
}

func (c *lifeConn) releaseClose() {
	select {
	case <-c.release:
	default:
		close(c.release)
	}
}

func quietLogger() log.Logger {
	l := log.NewLogger("life")
	l.SetHandlers(log.DiscardHandler)
	return l
}

func randID(rng *rand.Rand) (id krpc.ID) {
	rng.Read(id[:])
	return
}

func udp(s string) *net.UDPAddr {
	a, err := net.ResolveUDPAddr("udp", s)
	if err != nil {
		panic(err)
	}
	if ip4 := a.IP.To4(); ip4 != nil {
		a.IP = ip4 // the form compact node lists decode to; the traversal tells addresses apart by their text
	}
	return a
}

// tOf returns the transaction id and the message kind of a datagram written by the node.
func tOf(b []byte) (t string, y string, q string, d *sim.Dict) {
	d, err := sim.DecodeDict(b)
	if err != nil {
		return "", "", "", nil
	}
	tb, _ := d.Str("t")
	yb, _ := d.Str("y")
	qb, _ := d.Str("q")
	return string(tb), string(yb), string(qb), d
}

const (
	shortDelay = time.Millisecond
	longDelay  = time.Hour
)

var (
	expectBound = 5 * time.Second      // how long an event the code owes may take before it is a hang
	leakBound   = 2 * time.Second      // >= 2x the longest time-out configured in any scenario (3 x 1 ms)
	graceRet    = 5 * time.Millisecond // how long a premature return is given to show itself
)

func closeServer(srv *dht.Server, conn *lifeConn) {
	srv.Close()
	conn.releaseClose()
}

// waitServeLoopGone waits for the goroutines of a closed server that are not leaks of a scenario
// (serve loop, delayed socket close) to exit, so that they do not blur later scans.
func waitServeLoopGone(ids map[int]bool) {
	deadline := time.Now().Add(2 * time.Second)
	for time.Now().Before(deadline) {
		n := 0
		for _, g := range scan() {
			if ids[g.id] || g.has("main.(*lifeConn).Close") {
				n++
			}
		}
		if n == 0 {
			return
		}
		time.Sleep(200 * time.Microsecond)
	}
}

func must(err error) {
	if err != nil {
		panic(err)
	}
}

var _ = fmt.Sprint
