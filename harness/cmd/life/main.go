// Command life drives the query and traversal-owner lifecycles of the repository under test
// (property C14) and records what it does and sees as ndjson traces for Trace_QueryLifecycle.tla
// and Trace_QueryLifecycle_Owners.tla.
//
// -mode query: every script is one finished behaviour of the generator model (TLC,
// MC_QueryLifecycle with Gen = TRUE): the placements of reply, cancellation, Close, write failure,
// limiter refusal and timer expiry around the sends of one Server.Query. The two gates the library
// hands to its user - ServerConfig.Conn (WriteTo) and ServerConfig.QueryResendDelay - park the
// sender goroutine, so the script, not the Go scheduler, decides the order.
//
// -mode owners: Bootstrap, Announce, getput.Get, getput.Put and the table maintainer against a
// small simulated network, stopped / cancelled / closed at every quiescent point.
package main

import (
	"encoding/json"
	"flag"
	"fmt"
	"os"

	"github.com/anacrolix/log"

	"verifharness/sim"
)

func main() {
	mode := flag.String("mode", "query", "query | owners")
	seed := flag.Int64("seed", 1, "")
	n := flag.Int("n", 1<<30, "at most this many scenarios")
	out := flag.String("out", "trace.ndjson", "")
	scripts := flag.String("scripts", "", "query mode: JSON array of scripts from the generator model")
	only := flag.String("only", "", "run only this scenario (script id / owner scenario name)")
	part := flag.Int("part", 0, "run the scenarios with index % parts == part")
	parts := flag.Int("parts", 1, "")
	leak := flag.Duration("leakwait", leakBound, "how long something must stay behind to be called a leak")
	maxfail := flag.Int("maxfail", 8, "query mode: stop after this many scenarios that left something behind or hung")
	flag.Parse()
	leakBound = *leak
	log.Default.SetHandlers(log.DiscardHandler) // getput logs through the context's default logger
	tr, err := sim.NewTrace(*out)
	must(err)
	switch *mode {
	case "query":
		var scs []qscript
		b, err := os.ReadFile(*scripts)
		must(err)
		must(json.Unmarshal(b, &scs))
		var sts []qstatus
		run, failed := 0, 0
		for i, sc := range scs {
			if *only != "" && fmt.Sprint(sc.Id) != *only {
				continue
			}
			if *only == "" && i%*parts != *part {
				continue
			}
			if run >= *n {
				break
			}
			st := runQuery(tr, sc.Id, *seed, sc)
			run++
			if st.Diverged || st.Skipped > 0 || st.Hang != "" || len(st.Leaked) > 0 {
				sts = append(sts, st)
			}
			if st.Hang != "" || st.Dirty {
				failed++
				if failed >= *maxfail {
					break // each costs the full bound; the verdict is red anyway
				}
			}
		}
		must(tr.Close())
		div, skip := 0, 0
		var notes []qstatus
		for _, s := range sts {
			if s.Diverged {
				div++
			}
			skip += s.Skipped
			if s.Hang != "" || len(s.Leaked) > 0 {
				notes = append(notes, s)
			}
		}
		js, _ := json.Marshal(map[string]any{"scenarios": run, "events": tr.Len(), "diverged": div, "skipped": skip, "notes": notes,
			"stopped_early": failed >= *maxfail})
		fmt.Println(string(js))
	case "owners":
		sts := runOwners(tr, *seed, *only, *n, *part, *parts)
		must(tr.Close())
		js, _ := json.Marshal(map[string]any{"scenarios": len(sts), "events": tr.Len(), "status": sts})
		fmt.Println(string(js))
	default:
		fmt.Fprintln(os.Stderr, "unknown mode")
		os.Exit(2)
	}
}
