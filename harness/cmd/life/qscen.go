package main

import (
	"context"
	"encoding/binary"
	"errors"
	"fmt"
	"math/rand"
	"net"
	"strings"
	"sync"
	"time"

	"github.com/anacrolix/dht/v2"
	"github.com/anacrolix/dht/v2/bep44"
	"github.com/anacrolix/dht/v2/int160"
	"github.com/anacrolix/dht/v2/krpc"
	"github.com/anacrolix/dht/v2/transactions"
	"golang.org/x/time/rate"

	"verifharness/sim"
)

// qscript is one finished behaviour of the generator model (MC_QueryLifecycle with Gen = TRUE):
// the configuration and the sequence of environment actions and gate decisions.
type qscript struct {
	Cfg struct {
		N      int  `json:"n"`
		Budget int  `json:"budget"`
		Bwait  bool `json:"bwait"`
	} `json:"cfg"`
	Hist []string `json:"hist"`
	Id   int      `json:"id"`
}

type gateEv struct {
	kind string // "W": inside Conn.WriteTo, "D": inside QueryResendDelay
	b    []byte
	to   net.Addr
	resp chan gateResp
}

type gateResp struct {
	err error
	d   time.Duration
}

type qrun struct {
	tr   *sim.Trace
	seg  int
	rng  *rand.Rand
	sc   qscript
	api  string
	srv  *dht.Server
	conn *lifeConn
	addr *net.UDPAddr

	gateCh   chan *gateEv
	auto     chan struct{}
	autoOnce sync.Once
	retCh    chan dht.QueryResult

	ctx    context.Context
	cancel context.CancelFunc

	t        string
	predT    string
	haveT    bool
	nW, nD   int
	parked   *gateEv
	closed   bool
	returned bool
	diverged bool
	skipped  int
	hang     string
}

func (r *qrun) emit(kind string, kv ...any) {
	m := sim.M{"seg": r.seg, "e": kind}
	for i := 0; i+1 < len(kv); i += 2 {
		m[kv[i].(string)] = kv[i+1]
	}
	r.tr.Emit(m)
}

func (r *qrun) setAuto() { r.autoOnce.Do(func() { close(r.auto) }) }

func (r *qrun) gate(ev *gateEv, def gateResp) gateResp {
	select {
	case r.gateCh <- ev:
	case <-r.auto:
		return def
	}
	select {
	case x := <-ev.resp:
		return x
	case <-r.auto:
		return def
	}
}

func (r *qrun) onWrite(b []byte, to net.Addr) error {
	if _, y, _, _ := tOf(b); y != "q" {
		return nil
	}
	return r.gate(&gateEv{kind: "W", b: append([]byte{}, b...), to: to, resp: make(chan gateResp, 1)}, gateResp{}).err
}

func (r *qrun) resendDelay() time.Duration {
	return r.gate(&gateEv{kind: "D", resp: make(chan gateResp, 1)}, gateResp{d: shortDelay}).d
}

func (r *qrun) txns() int { return r.srv.Stats().OutstandingTransactions }

func classify(res dht.QueryResult) string {
	err := res.Err
	switch {
	case err == nil:
		return "reply"
	case errors.Is(err, dht.TransactionTimeout):
		return "timeout"
	case errors.Is(err, context.Canceled), errors.Is(err, context.DeadlineExceeded):
		return "ctxErr"
	}
	return "sendErr"
}

func (r *qrun) onGate(ev *gateEv) {
	r.parked = ev
	if ev.kind == "W" {
		r.nW++
		t, _, _, _ := tOf(ev.b)
		r.t, r.haveT = t, true
		if r.nW == 1 && r.predT != "" && r.predT != t {
			r.predT = "" // never trust it again in this scenario
		}
		r.emit("SendBegin", "i", r.nW)
	} else {
		r.nD++
		r.emit("ResendDelayCall", "k", r.nD)
	}
}

func (r *qrun) release(dec string) {
	ev := r.parked
	r.parked = nil
	if ev.kind == "W" {
		if dec == "werr" {
			r.emit("Send", "i", r.nW, "res", "err")
			ev.resp <- gateResp{err: sim.ErrInjected}
		} else {
			r.emit("Send", "i", r.nW, "res", "ok")
			ev.resp <- gateResp{}
		}
		return
	}
	if dec == "long" {
		r.emit("DelayRet", "k", r.nD, "dec", "long")
		ev.resp <- gateResp{d: longDelay}
	} else {
		r.emit("DelayRet", "k", r.nD, "dec", "short")
		ev.resp <- gateResp{d: shortDelay}
	}
}

func (r *qrun) onRet(res dht.QueryResult) {
	r.returned = true
	et := ""
	if res.Err != nil {
		et = res.Err.Error()
		if len(et) > 120 {
			et = et[:120]
		}
	}
	r.emit("Ret", "class", classify(res), "writes", int(res.Writes), "err", et)
}

// next waits for what the code does next: it enters a gate, or the call returns.
func (r *qrun) next(expect string) (ev *gateEv, ret bool) {
	select {
	case ev = <-r.gateCh:
		r.onGate(ev)
		return ev, false
	case x := <-r.retCh:
		r.onRet(x)
		return nil, true
	case <-time.After(expectBound):
		r.hang = "expected " + expect + ": neither a gate was entered nor did the call return"
		return nil, false
	}
}

// grace: the query can now leave its select; with the sender parked in a gate it must not return.
func (r *qrun) grace() {
	if r.parked == nil || r.returned {
		return
	}
	select {
	case x := <-r.retCh:
		r.onRet(x)
	case <-time.After(graceRet):
	}
}

// predictT: the transaction id is only seen once a datagram reaches the write gate. For replies
// placed where none has (limiter blocked or refused, server closed), the id is predicted from the
// process-wide sequential issuer; a wrong prediction only turns the reply into a foreign datagram.
func (r *qrun) predictT() {
	mine := transactions.DefaultIdIssuer.Issue()
	v, n := binary.Uvarint([]byte(mine))
	if n <= 0 {
		return
	}
	var buf [binary.MaxVarintLen64]byte
	r.predT = string(buf[:binary.PutUvarint(buf[:], v+1)])
}

func (r *qrun) reply() {
	if !r.haveT {
		if r.predT == "" {
			r.skipped++
			return
		}
		r.t = r.predT
	}
	id := randID(r.rng)
	var msg []byte
	if r.rng.Intn(4) == 0 {
		msg = sim.Encode(sim.D("t", r.t, "y", "e", "e", sim.L(201, "generic")))
	} else {
		msg = sim.Encode(sim.D("t", r.t, "y", "r", "r", sim.D("id", string(id[:]))))
	}
	before := r.txns()
	if r.closed {
		// the serve loop leaves after the next datagram it reads; it does not come back for another
		r.conn.Inject(msg, r.addr, 20*time.Millisecond)
	} else if !r.conn.Inject(msg, r.addr, expectBound) {
		r.hang = "the serve loop did not come back after a reply was injected"
	}
	after := r.txns()
	acc := before-after == 1
	r.emit("DeliverReply", "acc", acc, "txns", after)
	if acc {
		r.grace()
	} else if !r.haveT && !r.returned && !r.closed {
		// the prediction was wrong and the script counts on this reply: end the query another way
		r.skipped++
		r.diverged = true
		r.cancel()
		r.emit("CancelCtx")
	}
}

func contains(h []string, x string) bool {
	for _, y := range h {
		if y == x {
			return true
		}
	}
	return false
}

func (r *qrun) chooseAPI() {
	n, b, w := r.sc.Cfg.N, r.sc.Cfg.Budget, r.sc.Cfg.Bwait
	needCancel := contains(r.sc.Hist, "cancel")
	c := []string{"Query", "Query"}
	if !needCancel && !(w && b != -1) { // a sender blocked in the limiter needs a context to get out in any case
		c = append(c, "PingQueryInput")
		if n == 1 {
			c = append(c, "FindNode")
			if b == -1 {
				c = append(c, "Ping")
			}
		}
	}
	if n == 1 {
		c = append(c, "GetPeers", "Get")
		if b == -1 || (b == 0 && w) {
			c = append(c, "Put")
		}
	}
	if n == 3 && (b == -1 || w) {
		c = append(c, "QuestionablePing")
	}
	r.api = c[r.rng.Intn(len(c))]
}

func (r *qrun) call() dht.QueryResult {
	cfg := r.sc.Cfg
	var rl dht.QueryRateLimiting
	if cfg.Budget == -1 {
		switch r.rng.Intn(4) {
		case 1:
			rl.NoWaitFirst = true
		case 2:
			rl.WaitOnRetries = true
		case 3:
			rl.NotFirst = true
		}
	} else if cfg.Bwait {
		rl.WaitOnRetries = true
	} else {
		rl.NoWaitFirst = true
	}
	a := dht.NewAddr(r.addr)
	var target krpc.ID
	r.rng.Read(target[:])
	switch r.api {
	case "PingQueryInput":
		return r.srv.PingQueryInput(r.addr, dht.QueryInput{NumTries: cfg.N, RateLimiting: rl})
	case "Ping":
		return r.srv.Ping(r.addr)
	case "FindNode":
		return r.srv.FindNode(a, int160.FromByteArray(target), rl)
	case "GetPeers":
		return r.srv.GetPeers(r.ctx, a, int160.FromByteArray(target), r.rng.Intn(2) == 0, rl)
	case "Get":
		return r.srv.Get(r.ctx, a, bep44.Target(target), nil, rl)
	case "Put":
		return r.srv.Put(r.ctx, a, bep44.Put{V: "life"}, "token", rl)
	case "QuestionablePing":
		return r.srv.VerifQuestionablePing(r.ctx, a, target)
	}
	qs := []string{"ping", "find_node", "get_peers", "sample_infohashes"}
	return r.srv.Query(r.ctx, a, qs[r.rng.Intn(len(qs))], dht.QueryInput{
		MsgArgs: krpc.MsgArgs{Target: target, InfoHash: target}, NumTries: cfg.N, RateLimiting: rl})
}

type qstatus struct {
	Id       int      `json:"id"`
	Diverged bool     `json:"diverged"`
	Skipped  int      `json:"skipped"`
	Hang     string   `json:"hang"`
	Leaked   []string `json:"leaked"`
	Dirty    bool     `json:"dirty"`
}

func runQuery(tr *sim.Trace, seg int, seed int64, sc qscript) qstatus {
	r := &qrun{tr: tr, seg: seg, sc: sc, rng: rand.New(rand.NewSource(seed*1000003 + int64(sc.Id))),
		gateCh: make(chan *gateEv), auto: make(chan struct{}), retCh: make(chan dht.QueryResult, 1)}
	r.addr = udp([]string{"10.7.0.2:6881", "[2001:db8::7]:6881", "10.7.0.3:1"}[r.rng.Intn(3)])
	r.conn = newLifeConn("10.9.0.1:4000")
	r.conn.OnWrite = r.onWrite
	cfg := sc.Cfg
	var lim *rate.Limiter
	if cfg.Budget == -1 {
		lim = rate.NewLimiter(rate.Inf, 1)
	} else {
		burst := cfg.Budget
		if burst < 1 {
			burst = 1
		}
		lim = rate.NewLimiter(rate.Every(time.Hour), burst)
		if burst > cfg.Budget {
			lim.AllowN(time.Now(), burst-cfg.Budget)
		}
	}
	pre := idsOf(scan())
	srv, err := dht.NewServer(&dht.ServerConfig{
		Conn: r.conn, NoSecurity: true, NodeId: randID(r.rng), QueryResendDelay: r.resendDelay,
		SendLimiter: lim, Logger: quietLogger(),
		StartingNodes: func() ([]dht.Addr, error) { return nil, nil },
	})
	must(err)
	r.srv = srv
	base := idsOf(scan())
	own := map[int]bool{}
	for id := range base {
		if !pre[id] {
			own[id] = true
		}
	}
	r.ctx, r.cancel = context.WithCancel(context.Background())
	r.chooseAPI()
	r.emit("Start", "n", cfg.N, "budget", cfg.Budget, "bwait", cfg.Bwait, "api", r.api, "script", sc.Id,
		"hist", strings.Join(sc.Hist, " "), "seed", seed)

	for _, tok := range sc.Hist {
		if r.diverged || r.hang != "" {
			break
		}
		switch tok {
		case "close":
			r.srv.Close()
			r.closed = true
			r.emit("Close")
		case "cancel":
			r.cancel()
			r.emit("CancelCtx")
			r.grace()
		case "call":
			r.predictT()
			r.emit("Call")
			go func() { r.retCh <- r.call() }()
		case "wbegin", "dcall":
			want := "W"
			if tok == "dcall" {
				want = "D"
			}
			ev, ret := r.next(tok)
			if ret || (ev != nil && ev.kind != want) {
				r.diverged = true // a race the model also has (both cases of a select ready) went the other way
			}
		case "wok", "werr", "short", "long":
			if r.parked == nil {
				r.diverged = true
			} else {
				r.release(tok)
			}
		case "bwait":
			// the sender blocks in the limiter: no gate sees that, the goroutine scan does
			deadline := time.Now().Add(expectBound)
			for in := false; !in; {
				for _, g := range scan() {
					in = in || g.has("rate.(*Limiter).Wait")
				}
				if !in && time.Now().After(deadline) {
					r.diverged = true
					break
				}
				if !in {
					time.Sleep(100 * time.Microsecond)
				}
			}
		case "reply":
			r.reply()
		case "ret":
			if !r.returned {
				if ev, _ := r.next(tok); ev != nil {
					r.diverged = true
				}
			}
		}
		if r.returned && r.parked != nil {
			r.diverged = true // returned although the harness still holds the sender
		}
	}
	// free run: the script no longer applies (or is over); let everything through until the call returns
	for r.hang == "" && !r.returned {
		if r.nD > 4*(cfg.N+2) {
			// every try is followed by one delay, the last one by the time-out: a sender that keeps coming back for
			// more will never let the query return
			r.hang = fmt.Sprintf("the sender asked for its resend delay %d times although NumTries is %d: the query neither times out nor fails", r.nD, cfg.N)
			break
		}
		if r.parked != nil {
			if r.parked.kind == "W" {
				r.release("wok")
			} else {
				r.release("short")
			}
			continue
		}
		r.next("the return")
	}
	for r.hang == "" && r.parked != nil { // a sender still held after the return
		if r.parked.kind == "W" {
			r.release("wok")
		} else {
			r.release("short")
		}
		select {
		case ev := <-r.gateCh:
			r.onGate(ev)
		case <-time.After(20 * time.Millisecond):
		}
	}
	if r.hang != "" {
		r.setAuto()
		r.cancel()
	}
	txns, left := waitClean(r.txns, base, leakBound)
	dg := 0
	for _, o := range r.conn.Take() {
		if t, y, _, _ := tOf(o.B); y == "q" && t == r.t {
			dg++
		}
	}
	// anything the code hands to the socket from now on is late; give it the chance to show
	select {
	case ev := <-r.gateCh:
		r.onGate(ev)
		r.release("wok")
	default:
	}
	r.emit("Quiesce", "txns", txns, "gor", len(left), "dgrams", dg, "hung", r.hang != "", "left", sigs(left), "what", r.hang)
	r.setAuto()
	r.cancel()
	closeServer(r.srv, r.conn)
	waitServeLoopGone(own)
	return qstatus{Id: sc.Id, Diverged: r.diverged, Skipped: r.skipped, Hang: r.hang, Leaked: sigs(left),
		Dirty: txns != 0 || len(left) != 0}
}
