package main

import (
	"flag"
	"fmt"
	"math/rand"
	"time"

	"verifharness/sim"
)

func main() {
	seed := flag.Int64("seed", 1, "")
	n := flag.Int("n", 20, "scenarios")
	events := flag.Int("events", 40, "events per scenario")
	mode := flag.String("mode", "dispatch", "dispatch|tokens|peers|match|block|budget|hostile")
	out := flag.String("out", "trace.ndjson", "")
	only := flag.Int("only", -1, "")
	flag.Parse()
	tr, err := sim.NewTrace(*out)
	if err != nil {
		panic(err)
	}
	tr.Sync = true
	sim.Watchdog(180 * time.Second)
	for i := 0; i < *n; i++ {
		if *only >= 0 && i != *only {
			continue
		}
		rng := rand.New(rand.NewSource(*seed*104729 + int64(i)))
		switch *mode {
		case "dispatch":
			scenDispatch(rng, tr, i, *events)
		case "tokens":
			scenTokens(rng, tr, i, *events/4+1)
		case "peers":
			scenPeers(rng, tr, i, *events)
		case "match":
			scenMatch(rng, tr, i, *events)
		case "wrap":
			scenWrap(rng, tr, i, *events)
		case "net":
			scenNet(rng, tr, i, *events)
		case "block":
			scenBlock(rng, tr, i, *events)
		case "budget":
			scenBudget(rng, tr, i, *events)
		case "hostile":
			scenHostile(rng, tr, i, *events)
		case "hostileslow":
			hostileSlow = true
			scenHostile(rng, tr, i, *events)
		default:
			panic("unknown mode " + *mode)
		}
	}
	tr.Close()
	closeRtTraces()
	fmt.Printf("{\"scenarios\":%d,\"events\":%d}\n", *n, tr.Len())
}
