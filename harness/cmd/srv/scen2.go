package main

import (
	"context"
	"crypto/ed25519"
	"crypto/sha1"
	"math/rand"
	"net"
	"sync/atomic"
	"time"

	"github.com/anacrolix/dht/v2"
	"github.com/anacrolix/dht/v2/bep44"
	"github.com/anacrolix/dht/v2/exts/getput"
	"github.com/anacrolix/dht/v2/krpc"

	"verifharness/sim"
)

func compactNode(id krpc.ID, a *net.UDPAddr) []byte {
	ip := a.IP.To4()
	if ip == nil {
		ip = a.IP.To16()
	}
	return append(append([]byte{}, id[:]...), sim.CompactAddr(ip, a.Port)...)
}

// respond answers the node's outgoing find_node/get_peers/get/ping queries as a small simulated network:
// every simulated node lists the given neighbours. Runs until `done` is closed and the wire is idle.
func (h *H) respond(done <-chan struct{}, neighbours []*net.UDPAddr, silent map[string]bool) (written map[string]bool) {
	written = map[string]bool{}
	idle := 0
	for idle < 40 {
		outs := h.conn.TakeAll()
		if len(outs) == 0 {
			select {
			case <-done:
				idle++
			default:
			}
			time.Sleep(500 * time.Microsecond)
			continue
		}
		idle = 0
		for _, o := range outs {
			d := h.logOut(o.Out, o.Failed)
			if y, _ := d.Str("y"); string(y) == "q" && !o.Failed {
				written[o.To.String()] = true
			}
			if y, _ := d.Str("y"); string(y) != "q" || o.Failed || silent[o.To.String()] {
				continue
			}
			t, _ := d.Str("t")
			r := sim.NewDict()
			id := sha1.Sum([]byte(o.To.String()))
			r.Set("id", id[:])
			var n4, n6 []byte
			for _, nb := range neighbours {
				nid := sha1.Sum([]byte(nb.String()))
				if nb.IP.To4() != nil {
					n4 = append(n4, compactNode(nid, nb)...)
				} else {
					n6 = append(n6, compactNode(nid, nb)...)
				}
			}
			if n4 != nil {
				r.Set("nodes", n4)
			}
			if n6 != nil {
				r.Set("nodes6", n6)
			}
			r.Set("token", []byte("tok:"+o.To.String()))
			h.inRaw(o.To, sim.Encode(sim.D("t", t, "y", "r", "r", r)), "r", t)
		}
	}
	return
}

// C19: blocklist (at construction or later; IPv4, v4-mapped, IPv6) and passive mode on every inbound and
// outbound path: replies, errors, own queries, pings from AddNode, questionable pings, traversals.
func scenBlock(rng *rand.Rand, tr *sim.Trace, seg int, events int) {
	blocked := sim.BlockSet{}
	var pool []*net.UDPAddr
	o := opts{burst: -1, passive: rng.Intn(3) == 0, peerstore: true, announcecb: true}
	o.hook = rng.Intn(2) == 0 // a query hook that lets (almost) everything through must not un-silence a passive node
	late := rng.Intn(2) == 0
	tmp := &H{rng: rng}
	for i := 0; i < 10; i++ {
		pool = append(pool, tmp.randSrc())
	}
	for _, a := range pool {
		if rng.Intn(3) == 0 {
			blocked.Add(a.IP)
		}
	}
	if !late {
		o.block = blocked.Clone()
	}
	first := pool[0]
	o.startingNodes = func() ([]dht.Addr, error) { return []dht.Addr{dht.NewAddr(first)}, nil }
	h := newH(rng, tr, seg, o)
	defer h.close()
	toks := map[string][]byte{}
	var open []*call
	maintainers := 0
	for i := 0; i < events; i++ {
		if late && i == events/3 {
			// queries already in flight to addresses that are about to be blocked
			h.setBlock(blocked.Clone())
		}
		src := pool[rng.Intn(len(pool))]
		switch rng.Intn(11) {
		case 0, 1, 2, 3: // inbound query
			m := methods[rng.Intn(6)]
			id, ih := randID(rng), randID(rng)
			q := &query{method: m, t: h.nextT(), hasA: rng.Intn(8) != 0, id: id, ih: &ih, target: &ih, port: 1 + rng.Intn(65535)}
			ipk := string(src.IP.To16())
			if m == "announce_peer" || m == "put" {
				if toks[ipk] == nil && !h.dropped(src) && !h.o.passive {
					toks[ipk] = h.token(src, m == "put")
				}
				if toks[ipk] != nil {
					q.hasTok, q.tok = true, toks[ipk]
				}
			}
			h.in(src, q)
			h.settle()
		case 4, 5: // own query of any method (a passive node marks every one of them read-only); maybe answered
			ownM := []string{"ping", "ping", "find_node", "get_peers", "announce_peer", "put", "get"}[rng.Intn(7)]
			c := h.call(src, ownM, dht.QueryInput{})
			time.Sleep(300 * time.Microsecond)
			var myT []byte
			if !h.dropped(src) {
				// other queries may be on the wire (table maintenance): find the one to this destination
				if myT = h.waitQueryTo(src, 30*time.Second, ownM); myT == nil {
					fail("own query to %v never written", src)
				}
			}
			outs := h.flush(false)
			if h.dropped(src) {
				if !h.ret(c, 30*time.Second) {
					fail("query to a blocked address did not return")
				}
				continue
			}
			if len(outs) > 0 && rng.Intn(3) != 0 {
				h.in(src, &query{y: "r", t: myT, hasA: true, id: randID(rng), port: -1})
				sim.WaitQuiet(60 * time.Second)
				if !h.ret(c, 30*time.Second) {
					fail("own query did not return after its reply")
				}
				h.flush(true)
			} else {
				c.t = myT
				open = append(open, c)
			}
		case 6: // a reply for a query that was sent before its destination got blocked
			if len(open) > 0 {
				c := open[0]
				open = open[1:]
				// the genuine reply (right address, right transaction ID): it completes the query unless the
				// address has been blocklisted in the meantime
				h.in(c.dst, &query{y: "r", t: c.t, hasA: true, id: randID(rng), port: -1})
				sim.WaitQuiet(60 * time.Second)
				if h.ret(c, 0) {
					h.flush(true)
					continue
				}
				sim.WaitQuiet(60 * time.Second)
				h.cancelCall(c)
				if !h.ret(c, 30*time.Second) {
					fail("cancelled query did not return")
				}
				h.flush(true)
			}
		case 10: // a query with retries to a silent node whose address is blocklisted between two tries
			if h.dropped(src) {
				continue
			}
			atomic.StoreInt64(&h.resendNs, int64(20*time.Millisecond))
			c := h.call(src, "ping", dht.QueryInput{NumTries: 3})
			if !h.conn.WaitOut(1, 60*time.Second) {
				fail("query with retries never written")
			}
			h.flush(false)
			nb := h.o.block.Clone()
			if nb == nil {
				nb = sim.BlockSet{}
			}
			nb.Add(src.IP)
			h.setBlock(nb)
			time.Sleep(120 * time.Millisecond) // the remaining tries fall due
			atomic.StoreInt64(&h.resendNs, 0)
			h.flush(false)
			if !h.ret(c, 0) {
				h.cancelCall(c)
				if !h.ret(c, 60*time.Second) {
					fail("cancelled query did not return")
				}
			}
			h.flush(true)
		case 7: // AddNode with a zero ID pings the address
			h.srv.AddNode(krpc.NodeInfo{Addr: krpc.NodeAddr{IP: src.IP, Port: src.Port}})
			time.Sleep(2 * time.Millisecond)
			h.flush(false)
		case 8: // table-maintenance ping
			ctx, cancel := context.WithCancel(context.Background())
			done := make(chan struct{})
			go func() { defer close(done); h.srv.VerifQuestionablePing(ctx, dht.NewAddr(src), randID(rng)) }()
			time.Sleep(2 * time.Millisecond)
			cancel()
			<-done
			h.flush(false)
		case 9: // a traversal over a network that lists blocked and unblocked contacts
			done := make(chan struct{})
			kind := rng.Intn(3)
			if kind == 2 && maintainers == 0 {
				// table maintenance: bootstrap, questionable-node pings and bucket refreshes, until Close
				maintainers++
				go h.srv.TableMaintainer()
				go func() { time.Sleep(150 * time.Millisecond); close(done) }()
				h.respond(done, pool, map[string]bool{})
				h.flush(false)
				continue
			}
			var tried uint32
			h.keepQuiet() // before the traversal starts: afterwards every outgoing query must reach respond()
			go func() {
				defer close(done)
				if kind == 0 {
					st, _ := h.srv.Bootstrap()
					tried = st.NumAddrsTried
				} else {
					var a *dht.Announce
					var err error
					if kind == 1 && rng.Intn(2) == 0 {
						// the complete announce: announce_peer with the tokens the simulated contacts handed out
						a, err = h.srv.Announce(randID(rng), 1+rng.Intn(65535), rng.Intn(2) == 0)
					} else {
						a, err = h.srv.AnnounceTraversal(randID(rng))
					}
					if err == nil {
						for range a.Peers {
						}
						<-a.Finished()
						tried = a.NumContacted()
						a.Close()
					}
				}
			}()
			silent := map[string]bool{}
			written := h.respond(done, pool, silent)
			<-done
			h.flush(false)
			// every address the lookup decided to query must be one the node may send to
			h.tr.Emit(sim.M{"seg": h.seg, "e": "Lookup", "tried": int(tried), "written": len(written)})
		}
	}
	for _, c := range open {
		h.cancelCall(c)
		h.ret(c, 30*time.Second)
	}
	h.flush(true)
}

// C20: exact accounting with a negligible refill rate, and the rate form with prefix windows.
func scenBudget(rng *rand.Rand, tr *sim.Trace, seg int, events int) {
	if seg%4 == 3 {
		scenBudgetRate(rng, tr, seg)
		return
	}
	o := opts{burst: []int{0, 1, 2, 5}[rng.Intn(4)], ratePerSec: 0, peerstore: rng.Intn(2) == 0,
		resend: func() time.Duration { return 3 * time.Millisecond }}
	// waiting for budget that can never come (burst 0) fails at once; with burst > 0 and a negligible rate a
	// waiting reply would block for good, so wait-to-reply is only combined with burst 0 here
	o.wait = o.burst == 0 && rng.Intn(2) == 0
	o.defaultLimiter = rng.Intn(4) == 0
	h := newH(rng, tr, seg, o)
	defer h.close()
	for i := 0; i < events; i++ {
		switch rng.Intn(8) {
		case 0, 1, 2, 3: // a flood of queries from many (spoofable) sources
			n := 1 + rng.Intn(2*o.burst+6)
			for j := 0; j < n; j++ {
				id := randID(rng)
				h.in(h.randSrc(), &query{method: methods[rng.Intn(len(methods))], t: h.nextT(), hasA: rng.Intn(6) != 0, id: id, ih: &id, target: &id, port: -1})
			}
			h.settle()
		case 4, 5: // own queries with every rate-limiting option
			var cs []*call
			n := 1 + rng.Intn(3)
			for j := 0; j < n; j++ {
				rl := dht.QueryRateLimiting{NotFirst: rng.Intn(3) == 0, NotAny: rng.Intn(4) == 0, WaitOnRetries: false, NoWaitFirst: true}
				if rng.Intn(3) == 0 {
					// wait for budget, but not longer than the caller's deadline: with the bucket empty the limiter
					// refuses at once and the query must fail without sending
					rl.NoWaitFirst, rl.WaitOnRetries = false, rng.Intn(2) == 0
					cs = append(cs, h.callT(h.randSrc(), "ping", dht.QueryInput{RateLimiting: rl, NumTries: 1 + rng.Intn(3)}, 40*time.Millisecond))
					continue
				}
				cs = append(cs, h.call(h.randSrc(), "ping", dht.QueryInput{RateLimiting: rl, NumTries: 1 + rng.Intn(3)}))
			}
			time.Sleep(60 * time.Millisecond)
			for _, c := range cs {
				if !h.ret(c, 0) {
					h.cancelCall(c)
					if !h.ret(c, 30*time.Second) {
						fail("cancelled query did not return")
					}
				}
			}
			h.flush(true)
		case 6:
			k := 1 + rng.Intn(3)
			h.flush(false)
			h.lim.AllowN(time.Now(), -k)
			h.tr.Emit(sim.M{"seg": h.seg, "e": "Refill", "k": k})
		case 7:
			which := &h.failNext
			if rng.Intn(2) == 0 {
				which = &h.shortNext // a socket that takes the datagram but reports a short count: the budget is spent all the same
			}
			atomic.StoreInt32(which, int32(1+rng.Intn(2)))
			id := randID(rng)
			for j := 0; j < 3; j++ {
				h.in(h.randSrc(), &query{method: "ping", t: h.nextT(), hasA: true, id: id, port: -1})
			}
			h.settleLoose()
			atomic.StoreInt32(which, 0)
		}
	}
}

// settleLoose: like settle, but without a Quiesce line (replies may legitimately have been lost to
// injected write failures).
func (h *H) settleLoose() {
	if !sim.WaitQuiet(60 * time.Second) {
		fail("reply goroutines did not finish")
	}
	h.flush(false)
	h.tr.Emit(sim.M{"seg": h.seg, "e": "Forget"})
}

func scenBudgetRate(rng *rand.Rand, tr *sim.Trace, seg int) {
	o := opts{burst: []int{1, 5, 20}[rng.Intn(3)], ratePerSec: []int{200, 500, 1000}[rng.Intn(3)], wait: rng.Intn(2) == 0}
	h := newH(rng, tr, seg, o)
	defer h.close()
	end := time.Now().Add(400 * time.Millisecond)
	failing := rng.Intn(2) == 0 // the socket refuses a write now and then: its token goes back, nothing more
	for time.Now().Before(end) {
		if failing && rng.Intn(3) == 0 {
			atomic.StoreInt32(&h.failNext, int32(1+rng.Intn(3)))
		}
		for j := 0; j < 20; j++ {
			id := randID(rng)
			h.in(h.randSrc(), &query{method: []string{"ping", "find_node", "foo"}[rng.Intn(3)], t: h.nextT(), hasA: true, id: id, target: &id, port: -1})
		}
		h.flush(false)
	}
	atomic.StoreInt32(&h.failNext, 0)
	time.Sleep(30 * time.Millisecond)
	h.flush(false)
	h.tr.Emit(sim.M{"seg": h.seg, "e": "Forget"})
}

// ---------------------------------------------------------------------------------------------
// C01: hostile traffic

type mutator func(rng *rand.Rand, d *sim.Dict) []byte

func wrongType(rng *rand.Rand) sim.Value {
	switch rng.Intn(6) {
	case 0:
		return int64(rng.Intn(1000) - 500)
	case 1:
		return []sim.Value{}
	case 2:
		return sim.NewDict()
	case 3:
		return []sim.Value{[]byte("x"), int64(1), sim.NewDict()}
	case 4:
		return make([]byte, []int{0, 1, 5, 19, 21, 27, 63, 65, 1001, 5000}[rng.Intn(10)])
	}
	return []byte{}
}

var allFields = []string{"id", "target", "info_hash", "token", "port", "implied_port", "want", "v", "seq", "cas", "k", "salt", "sig",
	"nodes", "nodes6", "values", "noseed", "scrape", "BFsd", "BFpe", "interval", "num", "samples"}

// hostileBytes returns one hostile datagram.
func hostileBytes(rng *rand.Rand, base *sim.Dict) []byte {
	inner := "a"
	if y, _ := base.Str("y"); string(y) == "r" {
		inner = "r"
	}
	d := cloneDict(base)
	switch rng.Intn(14) {
	case 0: // arbitrary bytes
		b := make([]byte, rng.Intn(80))
		rng.Read(b)
		if rng.Intn(2) == 0 && len(b) > 0 {
			b[0] = 'd'
		}
		return b
	case 1: // truncated
		b := sim.Encode(d)
		return b[:rng.Intn(len(b)+1)]
	case 2: // trailing bytes
		return append(sim.Encode(d), []byte("junk")...)
	case 3: // a field of the inner dictionary removed
		if in := d.Dict(inner); in != nil && len(in.Keys) > 0 {
			in.Del(in.Keys[rng.Intn(len(in.Keys))])
		}
	case 4, 5, 6: // 1..3 fields of the inner dictionary with a wrong type / length
		in := d.Dict(inner)
		if in == nil {
			in = sim.NewDict()
			d.Set(inner, in)
		}
		for k := 0; k < 1+rng.Intn(3); k++ {
			in.Set(allFields[rng.Intn(len(allFields))], wrongType(rng))
		}
	case 7: // top-level field mangled
		d.Set([]string{"t", "y", "q", "a", "r", "e", "ip", "ro", "v"}[rng.Intn(9)], wrongType(rng))
	case 8: // top-level field removed
		d.Del([]string{"t", "y", "q", "a", "r"}[rng.Intn(5)])
	case 9: // error forms
		d.Set("y", []byte("e"))
		d.Set("e", []sim.Value{sim.L(201), sim.L("x", 1), sim.L(), sim.L(201, "m", 3), int64(5), []byte("e")}[rng.Intn(6)])
	case 10: // deep nesting / huge length prefix / bad ints
		return [][]byte{[]byte("d1:ad" + string(make([]byte, 0)) + "lllllllllllllllllllllllllllllllllllllllleeeeeeeeeeeeeeeeeeeeeeeeeeeeeeeeeeeeeeeee1:t1:x1:y1:qe"),
			[]byte("d1:t999999999999:x"), []byte("d1:ti-0e1:y1:qe"), []byte("d1:t1:x1:yi99999999999999999999999e"), []byte("de"), []byte("d"),
			[]byte("d1:t0:1:y0:e"), []byte("d1:q4:ping1:t1:x1:y1:q1:y1:re")}[rng.Intn(8)]
	case 11: // unsorted / duplicate keys
		return sim.EncodeUnsorted(d)
	case 12: // oversized
		in := d.Dict(inner)
		if in == nil {
			in = sim.NewDict()
			d.Set(inner, in)
		}
		in.Set("v", make([]byte, []int{2000, 30000, 70000}[rng.Intn(3)]))
	case 13: // k without seq, seq without k, sig short: BEP 44 reply fields in odd subsets
		in := d.Dict(inner)
		if in == nil {
			in = sim.NewDict()
			d.Set(inner, in)
		}
		for _, f := range [][2]any{{"k", make([]byte, 32)}, {"seq", int64(3)}, {"sig", make([]byte, 64)}, {"v", []byte("x")}, {"salt", []byte("s")}} {
			if rng.Intn(2) == 0 {
				in.Set(f[0].(string), sim.Value(f[1]))
			}
		}
	}
	return sim.Encode(d)
}

func cloneDict(d *sim.Dict) *sim.Dict {
	v, _, err := sim.Decode(sim.Encode(d))
	if err != nil {
		panic(err)
	}
	return v.(*sim.Dict)
}

// hostileSlow: replies wait for a budget of one token per 4 s (srv -mode hostileslow, its own process: the waiting
// reply goroutines outlive the scenario)
var hostileSlow bool

func scenHostile(rng *rand.Rand, tr *sim.Trace, seg int, events int) {
	o := opts{burst: -1, passive: rng.Intn(6) == 0, hook: rng.Intn(3) == 0, peerstore: rng.Intn(2) == 0, announcecb: rng.Intn(2) == 0,
		secure: rng.Intn(2) == 0, resend: func() time.Duration { return 20 * time.Millisecond }}
	o.customAddr = rng.Intn(4) == 0
	o.zones = !o.customAddr && rng.Intn(3) == 0
	slow := hostileSlow
	if slow {
		// replies wait for a send budget that refills very slowly: the node must go on serving meanwhile
		o.wait, o.burst, o.slowRate = true, 1, true
	}
	entry := v4(47, 1, 1, 1, 7001)
	o.startingNodes = func() ([]dht.Addr, error) { return []dht.Addr{dht.NewAddr(entry)}, nil }
	h := newH(rng, tr, seg, o)
	defer h.close()
	// a reachable, non-empty state first: contacts in the table, peers announced, an item stored
	if rng.Intn(3) != 0 && !slow {
		for i := 0; i < 6; i++ {
			src := h.randSrc()
			wid := randID(rng)
			if o.secure && rng.Intn(2) == 0 {
				dht.SecureNodeId(&wid, src.IP)
			}
			h.conn.Inject((&query{method: "ping", t: h.nextT(), hasA: true, id: wid, port: -1}).encode(), src, 60*time.Second)
			if !o.passive && rng.Intn(2) == 0 {
				if tok := h.tokenQuiet(src); tok != nil {
					ihw := randID(rng)
					h.conn.Inject((&query{method: "announce_peer", t: h.nextT(), hasA: true, id: wid, ih: &ihw, port: 7000 + i, hasTok: true, tok: tok}).encode(), src, 60*time.Second)
					h.conn.Inject((&query{method: "put", t: h.nextT(), hasA: true, id: wid, port: -1, hasTok: true, tok: tok,
						extra: map[string]sim.Value{"v": []byte("stored value")}}).encode(), src, 60*time.Second)
				}
			}
		}
		sim.WaitQuiet(60 * time.Second)
		h.conn.TakeAll()
	}
	// in-flight client operations whose replies the adversary crafts
	_, priv, _ := ed25519.GenerateKey(rng)
	var pub [32]byte
	copy(pub[:], priv.Public().(ed25519.PublicKey))
	mutTarget := bep44.MakeMutableTarget(pub, nil)
	immTarget := sha1.Sum([]byte("5:hello"))
	var live int32
	start := func(f func(ctx context.Context)) context.CancelFunc {
		ctx, cancel := context.WithTimeout(context.Background(), 3*time.Second)
		atomic.AddInt32(&live, 1)
		go func() { defer atomic.AddInt32(&live, -1); f(ctx) }()
		return cancel
	}
	var cancels []context.CancelFunc
	ops := []func(ctx context.Context){
		func(ctx context.Context) { h.srv.BootstrapContext(ctx) },
		func(ctx context.Context) {
			a, err := h.srv.AnnounceTraversal(randID(rng), dht.AnnouncePeer(dht.AnnouncePeerOpts{Port: 5000}))
			if err != nil {
				return
			}
			go func() { <-ctx.Done(); a.Close() }()
			for range a.Peers {
			}
		},
		func(ctx context.Context) { getput.Get(ctx, mutTarget, h.srv, nil, nil) },
		func(ctx context.Context) { getput.Get(ctx, immTarget, h.srv, nil, nil) },
		func(ctx context.Context) {
			getput.Put(ctx, mutTarget, h.srv, nil, func(seq int64) bep44.Put {
				p := bep44.Put{V: "x", K: &pub, Seq: seq + 1}
				p.Sign(priv)
				return p
			})
		},
		func(ctx context.Context) { h.srv.Ping(entry) },
	}
	nops := 1 + rng.Intn(3)
	for i := 0; i < nops; i++ {
		cancels = append(cancels, start(ops[rng.Intn(len(ops))]))
	}
	classes := 0
	sent := 0
	id := randID(rng)
	switch rng.Intn(8) {
	case 0:
		id = h.own // the node's own ID as the sender's (learnt from any reply)
	case 1:
		id = krpc.ID{}
	}
	baseQ := func() *sim.Dict {
		q := &query{method: methods[rng.Intn(6)], t: h.nextT(), hasA: true, id: id, ih: &id, target: &id, port: 6881, hasTok: true, tok: []byte("t"),
			extra: map[string]sim.Value{"v": []byte("val"), "seq": int64(1)}}
		d, _ := sim.DecodeDict(q.encode())
		return d
	}
	for sent < events {
		// hostile replies to whatever the node has asked
		for _, of := range h.conn.TakeAll() {
			d, err := sim.DecodeDict(of.B)
			if err != nil || of.Failed {
				continue
			}
			if y, _ := d.Str("y"); string(y) != "q" {
				continue
			}
			t, _ := d.Str("t")
			// any subset of response fields present, absent or malformed
			r := sim.NewDict()
			pick := func(k string, vs ...sim.Value) {
				if i := rng.Intn(len(vs) + 1); i < len(vs) {
					r.Set(k, vs[i])
				}
			}
			pick("id", id[:], id[:], id[:], id[:5], int64(3))
			pick("token", []byte("tok"), []byte("tok"), int64(7), []byte{})
			pick("nodes", compactNode(randID(rng), v4(47, 1, 1, byte(2+rng.Intn(4)), 7001)), compactNode(randID(rng), v4(47, 1, 1, byte(2+rng.Intn(4)), 7001)),
				make([]byte, 27), int64(1))
			pick("nodes6", compactNode(randID(rng), v6(9, 7001)), make([]byte, 39))
			pick("k", pub[:], pub[:], pub[:], make([]byte, 32), pub[:31], int64(2))
			pick("seq", int64(rng.Intn(5)), int64(-1), []byte("1"))
			pick("sig", make([]byte, 64), make([]byte, 63))
			pick("v", []byte("x"), []byte("hello"), sim.L(1, 2), int64(4))
			pick("values", sim.L(sim.CompactAddr(net.IPv4(9, 9, 9, 9).To4(), 9)), sim.L("short", 5), []byte("notalist"))
			reply := sim.D("t", t, "y", "r", "r", r)
			var b []byte
			if rng.Intn(4) == 0 {
				b = sim.Encode(reply) // a genuine-looking reply keeps the operation going
			} else {
				b = hostileBytes(rng, reply)
			}
			if !h.conn.Inject(b, of.To, 10*time.Second) {
				fail("server read loop did not come back after a hostile reply: %q", b)
			}
			sent++
		}
		var b []byte
		if rng.Intn(3) == 0 {
			b = hostileBytes(rng, sim.D("t", h.nextT(), "y", "r", "r", sim.D("id", id[:])))
		} else {
			b = hostileBytes(rng, baseQ())
		}
		src := h.randSrc()
		if rng.Intn(40) == 0 {
			src = &net.UDPAddr{IP: src.IP, Port: 0}
		}
		if !h.conn.Inject(b, src, 10*time.Second) {
			fail("server read loop did not come back after a hostile datagram: %q", b)
		}
		sent++
		classes++
	}
	for _, c := range cancels {
		c()
	}
	if !slow && !sim.WaitQuiet(60*time.Second) { // (with the slow budget, replies legitimately keep waiting)
		fail("reply goroutines did not finish after hostile traffic")
	}
	h.conn.TakeAll()
	// probe: a well-formed ping from a fresh address, and the public API
	probe := v4(48, 8, 8, byte(1+rng.Intn(200)), 4444)
	t := h.nextT()
	pid := randID(rng)
	answered := false
	if h.conn.Inject((&query{method: "ping", t: t, hasA: true, id: pid, port: -1}).encode(), probe, 10*time.Second) {
		if h.o.passive || slow {
			answered = true // a passive node answers nobody, a node out of budget not yet; the read loop coming back is the observation
		} else {
			deadline := time.Now().Add(30 * time.Second)
			for !answered && time.Now().Before(deadline) {
				for _, of := range h.conn.TakeAll() {
					if d, err := sim.DecodeDict(of.B); err == nil && of.To.String() == probe.String() {
						tt, _ := d.Str("t")
						y, _ := d.Str("y")
						answered = answered || (string(tt) == string(t) && string(y) == "r")
					}
				}
				time.Sleep(200 * time.Microsecond)
			}
		}
	}
	api := make(chan struct{})
	go func() {
		h.srv.Stats()
		h.srv.NumNodes()
		h.srv.Nodes()
		h.srv.WriteStatus(devNull{})
		close(api)
	}()
	apiOk := false
	select {
	case <-api:
		apiOk = true
	case <-time.After(30 * time.Second):
	}
	h.tr.Emit(sim.M{"seg": h.seg, "e": "Probe", "answered": answered, "api": apiOk, "datagrams": sent, "ops": nops})
}

type devNull struct{}

func (devNull) Write(b []byte) (int, error) { return len(b), nil }

// tokenQuiet fetches a write token without logging anything (used to set up state before hostile traffic).
func (h *H) tokenQuiet(src *net.UDPAddr) []byte {
	id := randID(h.rng)
	t := h.nextT()
	if !h.conn.Inject((&query{method: "get_peers", t: t, hasA: true, id: id, ih: &id, port: -1}).encode(), src, 60*time.Second) {
		return nil
	}
	sim.WaitQuiet(60 * time.Second)
	for _, of := range h.conn.TakeAll() {
		if d, err := sim.DecodeDict(of.B); err == nil {
			if tok, ok := d.Dict("r").Str("token"); ok {
				return tok
			}
		}
	}
	return nil
}

// keepQuiet discards datagrams captured before a traversal starts, so that only its own queries are counted.
func (h *H) keepQuiet() { h.flush(false) }

// waitQueryTo waits for a ping query written to dst and returns its transaction ID (the datagram stays
// captured for the next flush).
func (h *H) waitQueryTo(dst *net.UDPAddr, d time.Duration, method ...string) []byte {
	want := "ping"
	if len(method) > 0 {
		want = method[0]
	}
	deadline := time.Now().Add(d)
	for time.Now().Before(deadline) {
		var found []byte
		for _, of := range h.conn.Peek() {
			if of.Failed || of.To == nil || of.To.String() != dst.String() {
				continue
			}
			if dd, err := sim.DecodeDict(of.B); err == nil {
				if y, _ := dd.Str("y"); string(y) == "q" {
					if q, _ := dd.Str("q"); string(q) == want {
						found, _ = dd.Str("t")
					}
				}
			}
		}
		if found != nil {
			return found
		}
		time.Sleep(50 * time.Microsecond)
	}
	return nil
}
