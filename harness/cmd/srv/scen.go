package main

import (
	"crypto/ed25519"
	"math/rand"
	"net"
	"strconv"
	"sync/atomic"
	"time"

	"github.com/anacrolix/dht/v2"
	"github.com/anacrolix/dht/v2/krpc"

	"verifharness/sim"
)

// token fetches a write token for src by sending get_peers (or get) and reading the reply.
func (h *H) token(src *net.UDPAddr, viaGet bool) []byte {
	id := randID(h.rng)
	q := &query{method: "get_peers", t: h.nextT(), hasA: true, id: id, ih: &id, port: -1}
	if viaGet {
		q = &query{method: "get", t: h.nextT(), hasA: true, id: id, target: &id, port: -1}
	}
	h.in(src, q)
	for _, d := range h.settle() {
		if tok, ok := d.Dict("r").Str("token"); ok {
			return tok
		}
	}
	return nil
}

var methods = []string{"ping", "find_node", "get_peers", "get", "announce_peer", "put", "foo", "sample_infohashes", "vote"}

// C08: every method, with and without arguments, any t, all source forms, passive / hook veto,
// sequentially and in bursts; plus responses, errors and unknown message types that must be ignored.
func scenDispatch(rng *rand.Rand, tr *sim.Trace, seg int, events int) {
	o := opts{burst: -1, passive: rng.Intn(7) == 0, hook: rng.Intn(3) == 0, peerstore: rng.Intn(2) == 0, announcecb: rng.Intn(2) == 0}
	o.customAddr = rng.Intn(4) == 0
	o.zones = !o.customAddr && rng.Intn(3) == 0 // (a zone only where the address type carries it apart from the host)
	h := newH(rng, tr, seg, o)
	defer h.close()
	toks := map[string][]byte{}
	for i := 0; i < events; i++ {
		burst := 1
		if rng.Intn(4) == 0 {
			burst = 2 + rng.Intn(4)
		}
		for j := 0; j < burst; j++ {
			src := h.randSrc()
			if rng.Intn(25) == 0 {
				src = &net.UDPAddr{IP: src.IP, Port: 0}
			}
			m := methods[rng.Intn(len(methods))]
			id, ih, tg := randID(rng), randID(rng), randID(rng)
			q := &query{method: m, t: h.nextT(), hasA: rng.Intn(5) != 0, id: id, port: -1}
			switch rng.Intn(12) {
			case 0:
				q.t = []byte{}
			case 1:
				q.t = []byte{0}
			case 2:
				if h.o.hook {
					q.t = append([]byte{'V'}, q.t...)
				}
			}
			if rng.Intn(2) == 0 {
				q.ih = &ih
			}
			if rng.Intn(2) == 0 {
				q.target = &tg
			}
			if rng.Intn(3) == 0 {
				q.want = [][]string{{"n4"}, {"n6"}, {"n4", "n6"}}[rng.Intn(3)]
			}
			if m == "announce_peer" || m == "put" {
				ipk := string(src.IP.To16())
				if _, ok := toks[ipk]; !ok && rng.Intn(3) != 0 && j == 0 && !h.o.passive {
					if tok := h.token(src, m == "put" || !h.o.peerstore); tok != nil { // get_peers hands out tokens only with a peer store
						toks[ipk] = tok
					}
				}
				switch rng.Intn(4) {
				case 0: // no token at all
				case 1:
					q.hasTok, q.tok = true, []byte("bogus-token")
				default:
					if tok, ok := toks[ipk]; ok {
						q.hasTok, q.tok = true, tok
					}
				}
				if rng.Intn(2) == 0 {
					q.port = 1 + rng.Intn(65535)
				}
				q.implied = rng.Intn(3) == 0
				if m == "put" && rng.Intn(3) != 0 {
					q.extra = map[string]sim.Value{"v": []byte("hello"), "seq": int64(1)}
					switch rng.Intn(4) {
					case 0: // a put the store rejects: bad signature
						q.extra["k"] = make([]byte, 32)
						q.extra["k"].([]byte)[0] = 1
						q.extra["sig"] = make([]byte, 64)
					case 1: // value too big
						q.extra["v"] = make([]byte, 1001+rng.Intn(500))
					}
				}
			}
			switch rng.Intn(14) {
			case 0:
				q.y = "r"
			case 1:
				q.y = "e"
			case 2:
				q.y = "x"
			case 3:
				q.noQ = true
			}
			q.ro = rng.Intn(15) == 0
			h.in(src, q)
		}
		h.settle()
	}
}

// C10: tokens against the rotation grid, every mutation, other IPs, other ports, both write methods.
func scenTokens(rng *rand.Rand, tr *sim.Trace, seg int, events int) {
	o := opts{burst: -1, peerstore: true, announcecb: rng.Intn(2) == 0}
	h := newH(rng, tr, seg, o)
	defer h.close()
	foreign := newQuietH(rng, opts{burst: -1, peerstore: true}, "45.9.9.10:4000")
	defer foreign.close()
	now := int64([]int{0, 1, 99, 100, 101, 250, 299}[rng.Intn(7)]) // base is 200 s into an interval: 100 = rotation instant
	h.setClock(now)
	_, priv, _ := ed25519.GenerateKey(rng)
	for i := 0; i < events; i++ {
		src := h.randSrc()
		viaGet := rng.Intn(2) == 0
		tok := h.token(src, viaGet)
		if tok == nil {
			fail("no token in reply to %v", src)
		}
		other := h.randSrc()
		otherTok := h.token(other, viaGet)
		// a token another node issued to the same IP at the same time
		foreign.clock = h.clock
		foreignTok := foreign.token(src, viaGet)
		delay := []int64{0, 1, 300, 599, 600, 601, 750, 899, 900, 901, 1200, 2000}[rng.Intn(12)]
		now += delay
		h.setClock(now)
		atomic.StoreInt64(&foreign.clock, now)
		tries := 1 + rng.Intn(3)
		for j := 0; j < tries; j++ {
			from := src
			if rng.Intn(3) == 0 {
				from = &net.UDPAddr{IP: src.IP, Port: 1024 + rng.Intn(60000)} // same IP, another port: must work
			}
			use := append([]byte{}, tok...)
			switch rng.Intn(11) {
			case 0:
				use[rng.Intn(len(use))] ^= 1 << uint(rng.Intn(8))
			case 1:
				use = use[:rng.Intn(len(use))]
			case 2:
				use = append(use, byte(rng.Intn(256)))
			case 3:
				use = otherTok
			case 4:
				use = nil
			case 5:
				from = other // the token of src used from another IP
				if src.IP.To4() == nil && rng.Intn(2) == 0 {
					// ... in particular from a neighbour in the same IPv6 /64 (or /112)
					ip := append(net.IP{}, src.IP...)
					ip[8+rng.Intn(8)] ^= byte(1 + rng.Intn(255))
					from = &net.UDPAddr{IP: ip, Port: 1024 + rng.Intn(60000)}
				}
			case 6:
				use = foreignTok
			case 7:
				// a token another node issued to an IP this node has never issued one to (if nodes shared their
				// secret, it would be this node's own token for that IP)
				from = &net.UDPAddr{IP: net.IPv4(49, byte(rng.Intn(250)), byte(rng.Intn(250)), byte(1+rng.Intn(250))).To4(), Port: 1024 + rng.Intn(60000)}
				use = foreign.token(from, viaGet)
			}
			id, ih := randID(rng), randID(rng)
			var q *query
			if rng.Intn(2) == 0 {
				q = &query{method: "announce_peer", t: h.nextT(), hasA: true, id: id, ih: &ih, port: 1 + rng.Intn(65535),
					implied: rng.Intn(3) == 0, hasTok: use != nil, tok: use}
			} else {
				seq := int64(1 + rng.Intn(5))
				v := []byte("value")
				sig := ed25519.Sign(priv, append([]byte("3:seqi"+string(rune('0'+seq))+"e1:v"), sim.Encode(v)...))
				q = &query{method: "put", t: h.nextT(), hasA: true, id: id, port: -1, hasTok: use != nil, tok: use,
					extra: map[string]sim.Value{"v": v, "seq": seq, "k": []byte(priv.Public().(ed25519.PublicKey)), "sig": sig}}
				switch rng.Intn(6) {
				case 0: // rejected by the store: signature does not verify
					q.extra["sig"] = make([]byte, 64)
				case 1: // rejected by the store: salt too big
					q.extra["salt"] = make([]byte, 65+rng.Intn(100))
				}
				if rng.Intn(3) == 0 {
					q.extra = map[string]sim.Value{"v": []byte("immutable value")}
					if rng.Intn(2) == 0 {
						q.extra["seq"] = int64(0)
					}
				}
			}
			h.in(from, q)
			h.settle()
			if j == tries-1 && rng.Intn(3) == 0 {
				// the very same write again, long after the token has expired
				now += 1000
				h.setClock(now)
				atomic.StoreInt64(&foreign.clock, now)
				q.t = h.nextT()
				h.in(from, q)
				h.settle()
			}
		}
	}
}

// C11: announces (ports, implied_port, several infohashes and IP forms, re-announces) interleaved with
// get_peers carrying every want combination from either family.
func scenPeers(rng *rand.Rand, tr *sim.Trace, seg int, events int) {
	o := opts{burst: -1, peerstore: true, announcecb: rng.Intn(2) == 0}
	h := newH(rng, tr, seg, o)
	defer h.close()
	ihs := []krpc.ID{randID(rng), randID(rng), randID(rng)}
	var srcs []*net.UDPAddr
	for i := 0; i < 7; i++ {
		srcs = append(srcs, h.randSrc())
	}
	srcs = append(srcs, &net.UDPAddr{IP: srcs[0].IP, Port: srcs[0].Port + 1})
	toks := map[string][]byte{}
	if rng.Intn(3) == 0 {
		// a large swarm: every one of its members must come back (no cut-off at a round number, no family mix-up)
		for j, n := 0, 90+rng.Intn(60); j < n; j++ {
			src := v4(46, 2, byte(j/200), byte(1+j%200), 1024+rng.Intn(60000))
			if rng.Intn(5) == 0 {
				src = v6(100+j, 1024+rng.Intn(60000))
			}
			tok := h.token(src, false)
			h.in(src, &query{method: "announce_peer", t: h.nextT(), hasA: true, id: randID(rng), ih: &ihs[0], port: 1 + rng.Intn(65535), hasTok: true, tok: tok})
			h.settle()
		}
	}
	for i := 0; i < events; i++ {
		src := srcs[rng.Intn(len(srcs))]
		ih := ihs[rng.Intn(len(ihs))]
		if rng.Intn(5) < 3 {
			ipk := string(src.IP.To16())
			if toks[ipk] == nil {
				toks[ipk] = h.token(src, false)
			}
			q := &query{method: "announce_peer", t: h.nextT(), hasA: true, id: randID(rng), ih: &ih, port: -1, hasTok: true, tok: toks[ipk]}
			switch rng.Intn(4) {
			case 0:
				q.implied = true
			case 1:
				q.implied, q.port = true, 1+rng.Intn(65535)
			default:
				q.port = 1 + rng.Intn(65535)
			}
			h.in(src, q)
			h.settle()
			continue
		}
		q := &query{method: "get_peers", t: h.nextT(), hasA: true, id: randID(rng), ih: &ih, port: -1}
		switch rng.Intn(6) {
		case 0:
			q.want = []string{"n4"}
		case 1:
			q.want = []string{"n6"}
		case 2:
			q.want = []string{"n4", "n6"}
		case 3:
			q.want = []string{"n6", "n4", "n8"}
		}
		h.in(h.randSrc(), q)
		h.settle()
	}
}

// C07: concurrently outstanding queries against interleaved streams of genuine, guessed, misdirected,
// duplicated and replayed replies.
func scenMatch(rng *rand.Rand, tr *sim.Trace, seg int, events int) {
	o := opts{burst: -1}
	h := newH(rng, tr, seg, o)
	defer h.close()
	for round := 0; round < events/8+1; round++ {
		n := 2 + rng.Intn(3)
		var calls []*call
		var dsts []*net.UDPAddr
		for i := 0; i < n; i++ {
			d := h.randSrc()
			if i > 0 && rng.Intn(3) == 0 {
				d = dsts[rng.Intn(len(dsts))] // same destination twice
			}
			dsts = append(dsts, d)
			method := []string{"ping", "find_node", "get_peers", "get"}[rng.Intn(4)]
			id := randID(rng)
			c := h.call(d, method, dht.QueryInput{MsgArgs: krpc.MsgArgs{Target: id, InfoHash: id}})
			calls = append(calls, c)
			if !h.conn.WaitOut(i+1, 30*time.Second) {
				fail("query %d was never written", c.k)
			}
		}
		outs := h.flush(false)
		type qd struct {
			dst *net.UDPAddr
			t   []byte
		}
		var qs []qd
		for i, d := range outs {
			t, _ := d.Str("t")
			qs = append(qs, qd{dsts[i], t})
		}
		var replay [][2]any
		open := map[int]bool{}
		for i := range calls {
			open[i] = true
		}
		steps := 4 + rng.Intn(8)
		for s := 0; s < steps; s++ {
			i := rng.Intn(len(qs))
			x := qs[i]
			from, t := x.dst, append([]byte{}, x.t...)
			y := "r"
			switch rng.Intn(12) {
			case 0: // adjacent id
				if len(t) > 0 {
					t[len(t)-1]++
				}
			case 1: // prefix / extension
				if rng.Intn(2) == 0 && len(t) > 0 {
					t = t[:len(t)-1]
				} else {
					t = append(t, 0)
				}
			case 2: // other port
				from = &net.UDPAddr{IP: from.IP, Port: from.Port + 1}
			case 3: // other IP
				from = h.randSrc()
			case 4: // replay of an earlier datagram
				if len(replay) > 0 {
					r := replay[rng.Intn(len(replay))]
					from, t = r[0].(*net.UDPAddr), r[1].([]byte)
				}
			case 5:
				y = "e"
			case 6: // the transaction ID of another outstanding query
				t = append([]byte{}, qs[rng.Intn(len(qs))].t...)
			case 7, 8: // another (address, ID) pair that reads the same when address and ID are written one after the other
				ps := strconv.Itoa(from.Port)
				if len(ps) > 1 {
					cut := 1 + rng.Intn(len(ps)-1)
					if p, err := strconv.Atoi(ps[:cut]); err == nil && p > 0 {
						from = &net.UDPAddr{IP: from.IP, Port: p}
						t = append([]byte(ps[cut:]), t...)
					}
				}
			}
			q := &query{y: y, t: t, hasA: y == "r", id: randID(rng), port: -1}
			if rng.Intn(10) == 0 {
				// not a response at all: the destination of an outstanding query pings the node with that very
				// transaction ID. It must be answered like any ping, and it completes nothing
				from, t = x.dst, append([]byte{}, x.t...)
				q = &query{method: "ping", t: t, hasA: true, id: randID(rng), port: -1}
				y = "q"
			}
			var b []byte
			if y == "e" {
				b = sim.Encode(sim.D("t", t, "y", "e", "e", sim.L(201, "x")))
				h.inRaw(from, b, "e", t)
			} else {
				h.in(from, q)
			}
			replay = append(replay, [2]any{from, t})
			if !sim.WaitQuiet(60 * time.Second) {
				fail("response delivery goroutines did not finish")
			}
			for ci, c := range calls {
				if open[ci] && h.ret(c, 0) {
					open[ci] = false
				} else if y != "q" && open[ci] && string(qs[ci].t) == string(t) && from.String() == qs[ci].dst.String() {
					// the genuine reply for this call: it must return
					if h.ret(c, 30*time.Second) {
						open[ci] = false
					}
				}
			}
			h.flush(true)
		}
		for ci, c := range calls {
			if open[ci] {
				h.cancelCall(c)
				if !h.ret(c, 30*time.Second) {
					fail("cancelled query %d did not return", c.k)
				}
			}
		}
		h.flush(true)
	}
}

// inRaw injects prebuilt bytes that are not a query and logs the In line.
func (h *H) inRaw(src *net.UDPAddr, b []byte, y string, t []byte) {
	h.tr.Emit(sim.M{"seg": h.seg, "e": "In", "src": h.ajOf(src), "drop": h.dropped(src), "dec": true, "y": y, "q": "",
		"t": sim.Hex(t), "hasA": false, "veto": false, "tok": "", "ih": "", "port": -1, "implied": false, "want4": false,
		"want6": false, "ro": false})
	if !h.conn.Inject(b, src, 10*time.Second) {
		fail("server read loop did not come back after a datagram from %v", src)
	}
}

// C07, long history: one query stays outstanding while the node issues more than 2^16 further queries;
// no later query may be given the outstanding one's transaction ID (ID space wrap-around).
func scenWrap(rng *rand.Rand, tr *sim.Trace, seg int, n int) {
	h := newH(rng, tr, seg, opts{burst: -1})
	defer h.close()
	held := h.call(h.randSrc(), "ping", dht.QueryInput{})
	if !h.conn.WaitOut(1, 60*time.Second) {
		fail("held query never written")
	}
	h.flush(false)
	dst := h.randSrc()
	for i := 0; i < n; i++ {
		c := h.call(dst, "ping", dht.QueryInput{})
		if !h.conn.WaitOut(1, 60*time.Second) {
			fail("query %d never written", i)
		}
		h.flush(false)
		h.cancelCall(c)
		if !h.ret(c, 60*time.Second) {
			fail("cancelled query did not return")
		}
	}
	h.cancelCall(held)
	h.ret(held, 60*time.Second)
	h.flush(true)
}
