package main

import (
	"bytes"
	"context"
	"crypto/ed25519"
	"fmt"
	"math/rand"
	"net"
	"time"

	"github.com/anacrolix/dht/v2"
	"github.com/anacrolix/dht/v2/bep44"
	"github.com/anacrolix/dht/v2/exts/getput"
	"github.com/anacrolix/dht/v2/krpc"

	"verifharness/sim"
)

// A small network of real Servers over an in-memory wire. Every datagram is logged twice, as an Out
// of its sender and an In of its receiver, each judged by that node's own observer
// (Trace_KrpcNet.tla keeps one observer state per node).

type netNode struct {
	h    *H
	addr *net.UDPAddr
	name string
	rt   *sim.Trace       // this node's routing-table trace (Trace_RoutingTable.tla)
	out  map[string]bool  // own queries not yet answered: "dst|t"
	qs   map[string]qInfo // inbound queries awaiting their reply: "src|t"
}

type qInfo struct {
	method string
	target krpc.ID
	w4, w6 bool
}

type rtSender struct {
	Id   string `json:"id"`
	Addr string `json:"addr"`
	B    int    `json:"b"`
	Sec  bool   `json:"sec"`
	Fam  int    `json:"fam"`
}

func rtClass(ms int64) string {
	switch {
	case ms < 0:
		return "never"
	case ms < 900_000:
		return "recent"
	}
	return "old"
}

// emitTable logs one table event of this node with the snapshot after it (same schema as cmd/rt).
func (nd *netNode) emitTable(seg int, kind string, s rtSender, ro, matched bool) {
	srv, root := nd.h.srv, nd.h.own
	sl := []sim.M{}
	for _, n := range srv.VerifTableSnapshot() {
		b := sim.SharedPrefix(n.Id, root)
		if b == 160 {
			b = -1
		}
		ua := sim.MustUDP(n.Addr)
		sl = append(sl, sim.M{"id": sim.Hex(n.Id[:]), "addr": n.Addr, "ab": n.Bucket, "b": b, "q": rtClass(n.QAge), "r": rtClass(n.RAge),
			"failed": n.Failed, "good": n.Good, "bad": n.Bad, "sec": dht.NodeIdSecure(n.Id, ua.IP), "fam": famOf(ua.IP)})
	}
	nodes := [][]string{}
	for _, ni := range srv.Nodes() {
		nodes = append(nodes, []string{sim.Hex(ni.ID[:]), ni.Addr.UDP().String()})
	}
	st := srv.Stats()
	nd.rt.Emit(sim.M{"seg": seg, "e": kind, "s": s, "ro": ro, "matched": matched, "drop": false, "snap": sl, "numNodes": srv.NumNodes(),
		"statsNodes": st.Nodes, "goodNodes": st.GoodNodes, "nodes": nodes, "addrIndex": srv.VerifAddrIndexSize(), "addrIndexBad": srv.VerifAddrIndexMismatch()})
}

// tableEvent: the routing-table view of a datagram delivered to this node.
func (nd *netNode) tableEvent(seg int, src *net.UDPAddr, b []byte) (needAnswer string) {
	d, err := sim.DecodeDict(b)
	if err != nil {
		return ""
	}
	y, _ := d.Str("y")
	t, _ := d.Str("t")
	s := rtSender{Addr: src.String(), Fam: famOf(src.IP), Sec: true}
	inner := d.Dict("a")
	if string(y) == "r" {
		inner = d.Dict("r")
	}
	if id, ok := inner.Str("id"); ok && len(id) == 20 && string(y) != "e" {
		var kid krpc.ID
		copy(kid[:], id)
		s.Id = sim.Hex(id)
		s.B = sim.SharedPrefix(kid, nd.h.own)
		if s.B == 160 {
			s.B = -1
		}
		s.Sec = dht.NodeIdSecure(kid, src.IP)
	}
	ro := false
	if v, ok := d.Int("ro"); ok && v == 1 {
		ro = true
	}
	key := src.String() + "|" + string(t)
	switch string(y) {
	case "q":
		q, _ := d.Str("q")
		nd.emitTable(seg, "RecvQuery", s, ro, false)
		if m := string(q); m == "find_node" || m == "get_peers" || m == "get" {
			qi := qInfo{method: m, w4: famOf(src.IP) == 4, w6: famOf(src.IP) == 6}
			f := "target"
			if m == "get_peers" {
				f = "info_hash"
			}
			if tg, ok := inner.Str(f); ok && len(tg) == 20 {
				copy(qi.target[:], tg)
			}
			if wl, ok := inner.List("want"); ok && len(wl) > 0 {
				qi.w4, qi.w6 = false, false
				for _, w := range wl {
					if sw, ok := w.([]byte); ok {
						qi.w4 = qi.w4 || string(sw) == "n4"
						qi.w6 = qi.w6 || string(sw) == "n6"
					}
				}
			}
			nd.qs[key] = qi
			return key
		}
	case "r":
		m := nd.out[key]
		delete(nd.out, key)
		nd.emitTable(seg, "RecvResp", s, ro, m)
	case "e":
		m := nd.out[key]
		delete(nd.out, key)
		nd.emitTable(seg, "RecvErr", s, false, m)
	}
	return ""
}

// answer logs the node lists of the reply this node computed for the query `key` (its table has not changed since).
func (nd *netNode) answer(seg int, key string) {
	qi := nd.qs[key]
	delete(nd.qs, key)
	deadline := time.Now().Add(60 * time.Second)
	for time.Now().Before(deadline) {
		for _, of := range nd.h.conn.Peek() {
			d, err := sim.DecodeDict(of.B)
			if err != nil || of.To == nil {
				continue
			}
			y, _ := d.Str("y")
			t, _ := d.Str("t")
			if string(y) != "r" || of.To.String()+"|"+string(t) != key {
				continue
			}
			rd := d.Dict("r")
			if _, hasValues := rd.List("values"); hasValues {
				// a get_peers reply that carries peers: whether node lists accompany values is left open
				nd.rt.Emit(sim.M{"seg": seg, "e": "NoReply", "method": qi.method + "+values"})
				return
			}
			tb := sim.SharedPrefix(qi.target, nd.h.own)
			if tb == 160 {
				tb = 159
			}
			ans := sim.M{"seg": seg, "e": "Answer", "method": qi.method, "tb": tb, "want4": qi.w4, "want6": qi.w6, "nodes": [][]string{}, "nodes6": [][]string{}}
			for _, f := range []struct {
				key   string
				ipLen int
				has   string
			}{{"nodes", 4, "has4"}, {"nodes6", 16, "has6"}} {
				raw, has := rd.Str(f.key)
				ans[f.has] = has
				l := [][]string{}
				if has {
					ns, ok := sim.CompactNodes(raw, f.ipLen)
					if !ok {
						l = append(l, []string{"malformed", fmt.Sprint(len(raw))})
					}
					for _, n := range ns {
						l = append(l, []string{n[0], n[1]})
					}
				}
				ans[f.key] = l
			}
			nd.rt.Emit(ans)
			return
		}
		time.Sleep(50 * time.Microsecond)
	}
	nd.rt.Emit(sim.M{"seg": seg, "e": "NoReply", "method": qi.method})
}

// inFromBytes logs the In event of a datagram built by somebody else (another real node).
func (h *H) inFromBytes(node string, src *net.UDPAddr, b []byte) {
	d, err := sim.DecodeDict(b)
	ev := sim.M{"seg": h.seg, "node": node, "e": "In", "src": aj(src), "drop": h.dropped(src), "dec": err == nil, "y": "", "q": "",
		"t": "", "hasA": false, "veto": false, "tok": "", "ih": "", "port": -1, "implied": false, "want4": famOf(src.IP) == 4,
		"want6": famOf(src.IP) == 6, "ro": false}
	if err == nil {
		y, _ := d.Str("y")
		q, _ := d.Str("q")
		t, _ := d.Str("t")
		ev["y"], ev["q"], ev["t"] = string(y), string(q), sim.Hex(t)
		if a := d.Dict("a"); a != nil && string(y) == "q" {
			ev["hasA"] = true
			ev["ih"] = sim.Hex(make([]byte, 20))
			if tok, ok := a.Str("token"); ok {
				ev["tok"] = sim.Hex(tok)
			}
			if ih, ok := a.Str("info_hash"); ok {
				ev["ih"] = sim.Hex(ih)
			}
			if p, ok := a.Int("port"); ok {
				ev["port"] = int(p)
			}
			if ip, ok := a.Int("implied_port"); ok && ip != 0 {
				ev["implied"] = true
			}
			if wl, ok := a.List("want"); ok && len(wl) > 0 {
				w4, w6 := false, false
				for _, w := range wl {
					if s, ok := w.([]byte); ok {
						w4 = w4 || string(s) == "n4"
						w6 = w6 || string(s) == "n6"
					}
				}
				ev["want4"], ev["want6"] = w4, w6
			}
			h.mu.Lock()
			h.ins[src.String()+"|"+string(t)] = inInfo{string(q), ev["ih"].(string), ev["want4"].(bool), ev["want6"].(bool)}
			if string(q) == "put" {
				h.lastPut = src
			}
			h.mu.Unlock()
		}
	}
	h.tr.Emit(ev)
}

var rtTraces = map[string]*sim.Trace{}

func closeRtTraces() {
	for _, t := range rtTraces {
		t.Close()
	}
}

func scenNet(rng *rand.Rand, tr *sim.Trace, seg int, events int) {
	n := 3 + rng.Intn(2)
	var nodes []*netNode
	byAddr := map[string]*netNode{}
	for i := 0; i < n; i++ {
		a := v4(60, 0, 0, byte(1+i), 6881)
		if i == n-1 && rng.Intn(2) == 0 {
			a = v6(50+i, 6881)
		}
		first := v4(60, 0, 0, 1, 6881)
		o := opts{burst: -1, peerstore: true, announcecb: rng.Intn(2) == 0,
			resend:        func() time.Duration { return time.Hour },
			startingNodes: func() ([]dht.Addr, error) { return []dht.Addr{dht.NewAddr(first)}, nil }}
		if i == 0 {
			o.startingNodes = func() ([]dht.Addr, error) { return nil, nil }
		}
		h := newHAt(rng, tr, seg, o, a.String(), string(rune('A'+i)))
		nd := &netNode{h: h, addr: a, name: string(rune('A' + i)), out: map[string]bool{}, qs: map[string]qInfo{}}
		if rtTraces[nd.name] == nil {
			t, err := sim.NewTrace(fmt.Sprintf("%s.rt%s", tr.Path, nd.name))
			if err != nil {
				panic(err)
			}
			t.Sync = true
			rtTraces[nd.name] = t
		}
		nd.rt = rtTraces[nd.name]
		nd.rt.Emit(sim.M{"seg": seg, "e": "Start", "root": sim.Hex(h.own[:]), "nosec": true})
		nodes = append(nodes, nd)
		byAddr[a.String()] = nd
	}
	defer func() {
		for _, nd := range nodes {
			nd.h.close()
		}
	}()
	// the wire: one datagram at a time, in a seeded order among the nodes that have something to send
	pump := func(done <-chan struct{}) {
		idle := 0
		for idle < 60 {
			moved := false
			order := rng.Perm(len(nodes))
			for _, i := range order {
				nd := nodes[i]
				for _, of := range nd.h.conn.TakeAll() {
					nd.h.node = nd.name
					od := nd.h.logOut(of.Out, of.Failed)
					if y, _ := od.Str("y"); string(y) == "q" && !of.Failed {
						t, _ := od.Str("t")
						nd.out[of.To.String()+"|"+string(t)] = true
					}
					if dst, ok := byAddr[of.To.String()]; ok && !of.Failed {
						dst.h.inFromBytes(dst.name, nd.addr, of.B)
						if !dst.h.conn.Inject(of.B, nd.addr, 60*time.Second) {
							fail("node %s did not take a datagram", dst.name)
						}
						if key := dst.tableEvent(seg, nd.addr, of.B); key != "" {
							dst.answer(seg, key)
						}
						if bytes.Contains(of.B, []byte("13:announce_peer")) || bytes.Contains(of.B, []byte("1:q3:put")) {
							// store effects happen from goroutines: let them finish and log them before anything
							// else is delivered, so that the observer's view of the stores is never behind
							if !sim.WaitQuiet(60 * time.Second) {
								fail("store callbacks did not finish")
							}
							for _, c := range dst.h.takeCbs() {
								dst.h.node = dst.name
								dst.h.emitCb(c)
							}
						}
					}
					moved = true
				}
			}
			if moved {
				idle = 0
				continue
			}
			select {
			case <-done:
				idle++
			default:
			}
			time.Sleep(300 * time.Microsecond)
		}
		if !sim.WaitQuiet(60 * time.Second) {
			fail("network did not become quiet")
		}
		for _, nd := range nodes {
			for _, c := range nd.h.takeCbs() {
				nd.h.node = nd.name
				nd.h.emitCb(c)
			}
			tr.Emit(sim.M{"seg": seg, "node": nd.name, "e": "Forget"})
		}
	}
	run := func(f func()) {
		done := make(chan struct{})
		go func() { defer close(done); f() }()
		pump(done)
	}
	_, priv, _ := ed25519.GenerateKey(rng)
	var pub [32]byte
	copy(pub[:], priv.Public().(ed25519.PublicKey))
	ih := randID(rng)
	// everybody joins through A; A then pings everybody, so that its table holds good contacts to hand out
	for _, nd := range nodes[1:] {
		nd := nd
		run(func() { nd.h.srv.Bootstrap() })
	}
	run(func() {
		for _, nd := range nodes[1:] {
			nodes[0].h.srv.Ping(nd.addr)
		}
	})
	for step := 0; step < events/6+3; step++ {
		nd := nodes[1+rng.Intn(len(nodes)-1)]
		switch step % 5 {
		case 0:
			run(func() { nd.h.srv.Bootstrap() })
		case 1:
			run(func() {
				a, err := nd.h.srv.AnnounceTraversal(ih, dht.AnnouncePeer(dht.AnnouncePeerOpts{Port: 1000 + rng.Intn(5000), ImpliedPort: rng.Intn(3) == 0}))
				if err != nil {
					return
				}
				for range a.Peers {
				}
				a.Close()
			})
		case 2:
			run(func() {
				a, err := nd.h.srv.AnnounceTraversal(ih)
				if err != nil {
					return
				}
				for range a.Peers {
				}
				a.Close()
			})
		case 3:
			run(func() {
				ctx, cancel := context.WithTimeout(context.Background(), 10*time.Second)
				defer cancel()
				getput.Put(ctx, bep44.MakeMutableTarget(pub, nil), nd.h.srv, nil, func(seq int64) bep44.Put {
					p := bep44.Put{V: "v", K: &pub, Seq: seq + 1}
					p.Sign(priv)
					return p
				})
			})
		case 4:
			run(func() {
				ctx, cancel := context.WithTimeout(context.Background(), 10*time.Second)
				defer cancel()
				getput.Get(ctx, bep44.MakeMutableTarget(pub, nil), nd.h.srv, nil, nil)
			})
		}
	}
	_ = krpc.ID{}
}
