package main

import (
	"bytes"
	"context"
	"crypto/ed25519"
	"math/rand"
	"net"
	"time"

	"github.com/anacrolix/dht/v2"
	"github.com/anacrolix/dht/v2/bep44"
	"github.com/anacrolix/dht/v2/exts/getput"
	"github.com/anacrolix/dht/v2/krpc"

	"verifharness/sim"
)

// A small network of real Servers over an in-memory wire. Every datagram is logged twice, as an Out
// of its sender and an In of its receiver, each judged by that node's own observer
// (Trace_KrpcNet.tla keeps one observer state per node).

type netNode struct {
	h    *H
	addr *net.UDPAddr
	name string
}

// inFromBytes logs the In event of a datagram built by somebody else (another real node).
func (h *H) inFromBytes(node string, src *net.UDPAddr, b []byte) {
	d, err := sim.DecodeDict(b)
	ev := sim.M{"seg": h.seg, "node": node, "e": "In", "src": aj(src), "drop": h.dropped(src), "dec": err == nil, "y": "", "q": "",
		"t": "", "hasA": false, "veto": false, "tok": "", "ih": "", "port": -1, "implied": false, "want4": famOf(src.IP) == 4,
		"want6": famOf(src.IP) == 6, "ro": false}
	if err == nil {
		y, _ := d.Str("y")
		q, _ := d.Str("q")
		t, _ := d.Str("t")
		ev["y"], ev["q"], ev["t"] = string(y), string(q), sim.Hex(t)
		if a := d.Dict("a"); a != nil && string(y) == "q" {
			ev["hasA"] = true
			ev["ih"] = sim.Hex(make([]byte, 20))
			if tok, ok := a.Str("token"); ok {
				ev["tok"] = sim.Hex(tok)
			}
			if ih, ok := a.Str("info_hash"); ok {
				ev["ih"] = sim.Hex(ih)
			}
			if p, ok := a.Int("port"); ok {
				ev["port"] = int(p)
			}
			if ip, ok := a.Int("implied_port"); ok && ip != 0 {
				ev["implied"] = true
			}
			if wl, ok := a.List("want"); ok && len(wl) > 0 {
				w4, w6 := false, false
				for _, w := range wl {
					if s, ok := w.([]byte); ok {
						w4 = w4 || string(s) == "n4"
						w6 = w6 || string(s) == "n6"
					}
				}
				ev["want4"], ev["want6"] = w4, w6
			}
			h.mu.Lock()
			h.ins[src.String()+"|"+string(t)] = inInfo{string(q), ev["ih"].(string), ev["want4"].(bool), ev["want6"].(bool)}
			if string(q) == "put" {
				h.lastPut = src
			}
			h.mu.Unlock()
		}
	}
	h.tr.Emit(ev)
}

func scenNet(rng *rand.Rand, tr *sim.Trace, seg int, events int) {
	n := 3 + rng.Intn(2)
	var nodes []*netNode
	byAddr := map[string]*netNode{}
	for i := 0; i < n; i++ {
		a := v4(60, 0, 0, byte(1+i), 6881)
		if i == n-1 && rng.Intn(2) == 0 {
			a = v6(50+i, 6881)
		}
		first := v4(60, 0, 0, 1, 6881)
		o := opts{burst: -1, peerstore: true, announcecb: rng.Intn(2) == 0,
			resend:        func() time.Duration { return time.Hour },
			startingNodes: func() ([]dht.Addr, error) { return []dht.Addr{dht.NewAddr(first)}, nil }}
		if i == 0 {
			o.startingNodes = func() ([]dht.Addr, error) { return nil, nil }
		}
		h := newHAt(rng, tr, seg, o, a.String(), string(rune('A'+i)))
		nd := &netNode{h, a, string(rune('A' + i))}
		nodes = append(nodes, nd)
		byAddr[a.String()] = nd
	}
	defer func() {
		for _, nd := range nodes {
			nd.h.close()
		}
	}()
	// the wire: one datagram at a time, in a seeded order among the nodes that have something to send
	pump := func(done <-chan struct{}) {
		idle := 0
		for idle < 60 {
			moved := false
			order := rng.Perm(len(nodes))
			for _, i := range order {
				nd := nodes[i]
				for _, of := range nd.h.conn.TakeAll() {
					nd.h.node = nd.name
					nd.h.logOut(of.Out, of.Failed)
					if dst, ok := byAddr[of.To.String()]; ok && !of.Failed {
						dst.h.inFromBytes(dst.name, nd.addr, of.B)
						if !dst.h.conn.Inject(of.B, nd.addr, 60*time.Second) {
							fail("node %s did not take a datagram", dst.name)
						}
						if bytes.Contains(of.B, []byte("13:announce_peer")) || bytes.Contains(of.B, []byte("1:q3:put")) {
							// store effects happen from goroutines: let them finish and log them before anything
							// else is delivered, so that the observer's view of the stores is never behind
							if !sim.WaitQuiet(60 * time.Second) {
								fail("store callbacks did not finish")
							}
							for _, c := range dst.h.takeCbs() {
								dst.h.node = dst.name
								dst.h.emitCb(c)
							}
						}
					}
					moved = true
				}
			}
			if moved {
				idle = 0
				continue
			}
			select {
			case <-done:
				idle++
			default:
			}
			time.Sleep(300 * time.Microsecond)
		}
		if !sim.WaitQuiet(60 * time.Second) {
			fail("network did not become quiet")
		}
		for _, nd := range nodes {
			for _, c := range nd.h.takeCbs() {
				nd.h.node = nd.name
				nd.h.emitCb(c)
			}
			tr.Emit(sim.M{"seg": seg, "node": nd.name, "e": "Forget"})
		}
	}
	run := func(f func()) {
		done := make(chan struct{})
		go func() { defer close(done); f() }()
		pump(done)
	}
	_, priv, _ := ed25519.GenerateKey(rng)
	var pub [32]byte
	copy(pub[:], priv.Public().(ed25519.PublicKey))
	ih := randID(rng)
	// everybody joins through A; A then pings everybody, so that its table holds good contacts to hand out
	for _, nd := range nodes[1:] {
		nd := nd
		run(func() { nd.h.srv.Bootstrap() })
	}
	run(func() {
		for _, nd := range nodes[1:] {
			nodes[0].h.srv.Ping(nd.addr)
		}
	})
	for step := 0; step < events/6+3; step++ {
		nd := nodes[1+rng.Intn(len(nodes)-1)]
		switch step % 5 {
		case 0:
			run(func() { nd.h.srv.Bootstrap() })
		case 1:
			run(func() {
				a, err := nd.h.srv.AnnounceTraversal(ih, dht.AnnouncePeer(dht.AnnouncePeerOpts{Port: 1000 + rng.Intn(5000), ImpliedPort: rng.Intn(3) == 0}))
				if err != nil {
					return
				}
				for range a.Peers {
				}
				a.Close()
			})
		case 2:
			run(func() {
				a, err := nd.h.srv.AnnounceTraversal(ih)
				if err != nil {
					return
				}
				for range a.Peers {
				}
				a.Close()
			})
		case 3:
			run(func() {
				ctx, cancel := context.WithTimeout(context.Background(), 10*time.Second)
				defer cancel()
				getput.Put(ctx, bep44.MakeMutableTarget(pub, nil), nd.h.srv, nil, func(seq int64) bep44.Put {
					p := bep44.Put{V: "v", K: &pub, Seq: seq + 1}
					p.Sign(priv)
					return p
				})
			})
		case 4:
			run(func() {
				ctx, cancel := context.WithTimeout(context.Background(), 10*time.Second)
				defer cancel()
				getput.Get(ctx, bep44.MakeMutableTarget(pub, nil), nd.h.srv, nil, nil)
			})
		}
	}
	_ = krpc.ID{}
}
