// Command srv drives a real dht.Server at its boundaries (socket, callbacks, query API, token
// clock, send limiter) through seeded scenarios and records every boundary event as ndjson for
// Trace_KrpcServer.tla (the observer KrpcServer!Step judges them).
package main

import (
	"context"
	"errors"
	"fmt"
	"math/rand"
	"net"
	"os"
	"runtime"
	"strings"
	"sync"
	"sync/atomic"
	"syscall"
	"time"

	"github.com/anacrolix/dht/v2"
	"github.com/anacrolix/dht/v2/bep44"
	"github.com/anacrolix/dht/v2/krpc"
	peer_store "github.com/anacrolix/dht/v2/peer-store"
	"github.com/anacrolix/log"
	"github.com/anacrolix/torrent/metainfo"
	"golang.org/x/time/rate"

	"verifharness/sim"
)

type addrJ struct {
	Ip   string `json:"ip"`
	Ipn  string `json:"ipn"`
	Port int    `json:"port"`
	Fam  int    `json:"fam"`
}

func famOf(ip net.IP) int {
	if ip.To4() != nil {
		return 4
	}
	return 6
}

func aj(a *net.UDPAddr) addrJ {
	return addrJ{Ip: sim.Hex(a.IP), Ipn: sim.Hex(a.IP.To16()), Port: a.Port, Fam: famOf(a.IP)}
}

// ajOf: the source as the node gets to see it. A transport that hands out some other net.Addr type has no byte form
// of the IP to pass on: the node parses the textual form, which yields 16 bytes for every address
func (h *H) ajOf(a *net.UDPAddr) addrJ {
	j := aj(a)
	if h.o.customAddr {
		j.Ip = j.Ipn
	}
	return j
}

type inInfo struct {
	q     string
	ih    string
	want4 bool
	want6 bool
}

type cbRec struct {
	kind   string
	ih     string
	ip     net.IP
	port   int
	portOk bool
}

type opts struct {
	passive, hook, peerstore, announcecb, wait bool
	burst                                      int // -1: unlimited, not accounted
	ratePerSec                                 int // 0 with burst >= 0: negligible refill
	block                                      sim.BlockSet
	resend                                     func() time.Duration
	startingNodes                              func() ([]dht.Addr, error)
	nosec                                      bool
	secure                                     bool // enforce the BEP 42 security extension
	slowRate                                   bool // with burst >= 0: one token every 4 s (C01: waiting replies must not stop the node)
	defaultLimiter                             bool // hand-written config without a limiter: the package default is the budget
	zones                                      bool // some sources are IPv6 link-local addresses with a zone
	customAddr                                 bool // the transport hands out sources as some other net.Addr than *net.UDPAddr
}

type H struct {
	rng   *rand.Rand
	tr    *sim.Trace
	seg   int
	srv   *dht.Server
	conn  *sim.Conn
	own   krpc.ID
	o     opts
	lim   *rate.Limiter
	clock int64 // seconds offset of the token clock
	base  time.Time
	t0    time.Time

	mu        sync.Mutex
	cbs       []cbRec
	ins       map[string]inInfo // dst|t -> the query it answers
	lastPut   *net.UDPAddr
	calls     map[string][]int // dst -> call ids whose rate-limiting applies
	rated     map[int]dht.QueryRateLimiting
	writesOf  map[string]int // dst|t -> number of writes seen (for rated-ness of retries)
	keyRL     map[string]dht.QueryRateLimiting
	failNext  int32 // inject a write failure on the next n writes
	failKind  int32 // counts injected failures; picks the error they report
	shortNext int32 // the next n writes are reported short (n-1 bytes, no error) although the datagram leaves
	tn        int
	node      string // name of this node in multi-node traces ("" otherwise)
	resendNs  int64  // when non-zero, the resend delay of queries (default one hour)
}

func fail(format string, a ...any) {
	fmt.Fprintf(os.Stderr, "DRIVER-ERROR: "+format+"\n", a...)
	os.Exit(3)
}

type recStore struct {
	h     *H
	inner peer_store.Interface
}

func (r *recStore) AddPeer(ih peer_store.InfoHash, na krpc.NodeAddr) {
	r.inner.AddPeer(ih, na)
	r.h.mu.Lock()
	r.h.cbs = append(r.h.cbs, cbRec{"AddPeer", sim.Hex(ih[:]), append(net.IP{}, na.IP...), na.Port, true})
	r.h.mu.Unlock()
}
func (r *recStore) GetPeers(ih peer_store.InfoHash) []krpc.NodeAddr { return r.inner.GetPeers(ih) }

type recB44 struct {
	h     *H
	inner bep44.Store
}

// calledFrom reports whether a function whose name contains sub is on the caller's stack.
func calledFrom(sub string) bool {
	pc := make([]uintptr, 32)
	n := runtime.Callers(2, pc)
	fr := runtime.CallersFrames(pc[:n])
	for {
		f, more := fr.Next()
		if strings.Contains(f.Function, sub) {
			return true
		}
		if !more {
			return false
		}
	}
}

func (r *recB44) Put(i *bep44.Item) error {
	err := r.inner.Put(i)
	if !calledFrom("(*Server).handleQuery") {
		return err // a store through the local API (Server.Put), not the effect of a datagram
	}
	r.h.mu.Lock()
	t := i.Target()
	var ip net.IP
	if r.h.lastPut != nil {
		ip = r.h.lastPut.IP
		if r.h.o.customAddr {
			ip = ip.To16() // the form in which the source of this put was logged (ajOf)
		}
	}
	r.h.cbs = append(r.h.cbs, cbRec{"StorePut", sim.Hex(t[:]), ip, 0, true})
	r.h.mu.Unlock()
	return err
}
func (r *recB44) Get(t bep44.Target) (*bep44.Item, error) { return r.inner.Get(t) }
func (r *recB44) Del(t bep44.Target) error                { return r.inner.Del(t) }

func newH(rng *rand.Rand, tr *sim.Trace, seg int, o opts) *H {
	return newHAt(rng, tr, seg, o, "45.9.9.9:4000", "")
}

// newQuietH: a second, independent server whose events are not recorded (e.g. to obtain another node's tokens).
func newQuietH(rng *rand.Rand, o opts, local string) *H {
	tr, err := sim.NewTrace(os.DevNull)
	if err != nil {
		panic(err)
	}
	return newHAt(rng, tr, 0, o, local, "")
}

func newHAt(rng *rand.Rand, tr *sim.Trace, seg int, o opts, local string, node string) *H {
	h := &H{rng: rng, tr: tr, seg: seg, o: o, node: node, ins: map[string]inInfo{}, calls: map[string][]int{},
		rated: map[int]dht.QueryRateLimiting{}, writesOf: map[string]int{}, keyRL: map[string]dht.QueryRateLimiting{}}
	rng.Read(h.own[:])
	h.conn = sim.NewConn(local)
	h.conn.Custom = o.customAddr
	h.conn.OnWrite = func(b []byte, to net.Addr) error {
		if atomic.LoadInt32(&h.failNext) > 0 && atomic.AddInt32(&h.failNext, -1) >= 0 {
			h.conn.Failed(b, to)
			// what a real UDP socket reports: every other failure is "no buffer space" / "try again", the kind a
			// well-meant retry would go round for (the budget is spent per datagram that leaves, whatever the error)
			switch atomic.AddInt32(&h.failKind, 1) % 4 {
			case 1:
				return &net.OpError{Op: "write", Net: "udp", Addr: to, Err: os.NewSyscallError("sendto", syscall.ENOBUFS)}
			case 3:
				return &net.OpError{Op: "write", Net: "udp", Addr: to, Err: os.NewSyscallError("sendto", syscall.EAGAIN)}
			}
			return sim.ErrInjected
		}
		if atomic.LoadInt32(&h.shortNext) > 0 && atomic.AddInt32(&h.shortNext, -1) >= 0 {
			return sim.ErrShort
		}
		return nil
	}
	cfg := dht.NewDefaultServerConfig()
	if o.defaultLimiter {
		cfg = &dht.ServerConfig{DefaultWant: []krpc.Want{krpc.WantNodes, krpc.WantNodes6}, Exp: 2 * time.Hour}
	}
	cfg.NodeId = h.own
	cfg.Conn = h.conn
	cfg.NoSecurity = !o.secure
	cfg.Passive = o.passive
	cfg.WaitToReply = o.wait
	cfg.StartingNodes = o.startingNodes
	if cfg.StartingNodes == nil {
		cfg.StartingNodes = func() ([]dht.Addr, error) { return nil, nil }
	}
	cfg.QueryResendDelay = o.resend
	if cfg.QueryResendDelay == nil {
		cfg.QueryResendDelay = func() time.Duration {
			if d := atomic.LoadInt64(&h.resendNs); d != 0 {
				return time.Duration(d)
			}
			return time.Hour
		}
	}
	// the clock of the budget check starts before the limiter exists and is read in whole milliseconds, rounded up:
	// the elapsed time the observer works with is never less than the limiter's own
	h.t0 = time.Now()
	switch {
	case o.burst < 0:
		h.lim = rate.NewLimiter(rate.Inf, 1)
	case o.slowRate:
		h.lim = rate.NewLimiter(0.25, o.burst)
	case o.ratePerSec == 0:
		h.lim = rate.NewLimiter(1e-9, o.burst)
	default:
		h.lim = rate.NewLimiter(rate.Limit(o.ratePerSec), o.burst)
	}
	cfg.SendLimiter = h.lim
	if o.defaultLimiter {
		cfg.SendLimiter = nil
		defer func(l *rate.Limiter) { dht.DefaultSendLimiter = l }(dht.DefaultSendLimiter)
		dht.DefaultSendLimiter = h.lim
	}
	cfg.Logger = log.Default.FilterLevel(log.Critical)
	if o.block != nil {
		cfg.IPBlocklist = o.block.Clone()
	}
	if o.peerstore {
		cfg.PeerStore = &recStore{h, &peer_store.InMemory{}}
	}
	cfg.Store = &recB44{h, bep44.NewMemory()}
	if o.announcecb {
		cfg.OnAnnouncePeer = func(ih metainfo.Hash, ip net.IP, port int, portOk bool) {
			h.mu.Lock()
			h.cbs = append(h.cbs, cbRec{"OnAnnounce", sim.Hex(ih[:]), append(net.IP{}, ip...), port, portOk})
			h.mu.Unlock()
		}
	}
	if o.hook {
		cfg.OnQuery = func(m *krpc.Msg, _ net.Addr) bool { return !(len(m.T) > 0 && m.T[0] == 'V') }
	}
	srv, err := dht.NewServer(cfg)
	if err != nil {
		panic(err)
	}
	h.srv = srv
	h.base = time.Unix(1_700_000_100, 0) // a multiple of 300 s + 200 s into a rotation interval
	srv.VerifSetTokenClock(func() time.Time { return h.base.Add(time.Duration(atomic.LoadInt64(&h.clock)) * time.Second) })
	bl := []string{}
	for k := range o.block {
		bl = append(bl, sim.Hex([]byte(k)))
	}
	rateJ := o.ratePerSec
	tr.Emit(sim.M{"seg": seg, "node": node, "e": "Start", "passive": o.passive, "peerstore": o.peerstore, "announcecb": o.announcecb,
		"own": sim.Hex(h.own[:]), "blocked": bl, "burst": o.burst, "rate": rateJ, "wait": o.wait, "hook": o.hook})
	return h
}

func (h *H) close() { h.srv.Close() }

func (h *H) dropped(a *net.UDPAddr) bool {
	return a.Port == 0 || (h.o.block != nil && h.o.block.Has(a.IP))
}

// query describes an inbound query to build and log.
type query struct {
	method  string
	noQ     bool
	t       []byte
	hasA    bool
	id      krpc.ID
	ih      *krpc.ID
	target  *krpc.ID
	tok     []byte
	hasTok  bool
	port    int // -1: absent
	implied bool
	want    []string
	ro      bool
	extra   map[string]sim.Value
	y       string // default "q"
}

func (h *H) nextT() []byte {
	h.tn++
	n := h.rng.Intn(7)
	t := []byte{byte('a' + h.tn%26), byte(h.tn >> 8), byte(h.tn)}
	for i := 0; i < n; i++ {
		t = append(t, byte(h.rng.Intn(256)))
	}
	return t
}

func (q *query) encode() []byte {
	m := sim.NewDict()
	m.Set("t", q.t)
	y := q.y
	if y == "" {
		y = "q"
	}
	m.Set("y", []byte(y))
	if !q.noQ {
		m.Set("q", []byte(q.method))
	}
	if q.ro {
		m.Set("ro", int64(1))
	}
	if q.hasA {
		a := sim.NewDict()
		a.Set("id", q.id[:])
		if q.ih != nil {
			a.Set("info_hash", q.ih[:])
		}
		if q.target != nil {
			a.Set("target", q.target[:])
		}
		if q.hasTok {
			a.Set("token", q.tok)
		}
		if q.port >= 0 {
			a.Set("port", int64(q.port))
		}
		if q.implied {
			a.Set("implied_port", int64(1))
		}
		if q.want != nil {
			wl := []sim.Value{}
			for _, w := range q.want {
				wl = append(wl, []byte(w))
			}
			a.Set("want", wl)
		}
		for k, v := range q.extra {
			a.Set(k, v)
		}
		if y == "q" {
			m.Set("a", a)
		} else {
			m.Set("r", a)
		}
	}
	return sim.Encode(m)
}

// in injects one datagram (synchronously) and logs it.
func (h *H) in(src *net.UDPAddr, q *query) {
	b := q.encode()
	w4, w6 := famOf(src.IP) == 4, famOf(src.IP) == 6
	if len(q.want) != 0 {
		w4, w6 = false, false
		for _, w := range q.want {
			w4 = w4 || w == "n4"
			w6 = w6 || w == "n6"
		}
	}
	ih := ""
	if q.hasA {
		// an absent info_hash decodes to the all-zero ID
		ih = sim.Hex(make([]byte, 20))
		if q.ih != nil {
			ih = sim.Hex(q.ih[:])
		}
	}
	method := q.method
	if q.noQ {
		method = ""
	}
	y := q.y
	if y == "" {
		y = "q"
	}
	veto := h.o.hook && len(q.t) > 0 && q.t[0] == 'V'
	port := q.port
	if !q.hasA {
		port = -1
	}
	h.mu.Lock()
	h.ins[src.String()+"|"+string(q.t)] = inInfo{method, ih, w4, w6}
	if method == "put" {
		h.lastPut = src
	}
	h.mu.Unlock()
	h.tr.Emit(sim.M{"seg": h.seg, "e": "In", "src": h.ajOf(src), "drop": h.dropped(src), "dec": true, "y": y, "q": method,
		"t": sim.Hex(q.t), "hasA": q.hasA, "veto": veto, "tok": sim.Hex(q.tok), "ih": ih, "port": port,
		"implied": q.implied && q.hasA, "want4": w4, "want6": w6, "ro": q.ro})
	if !h.conn.Inject(b, src, 10*time.Second) {
		fail("server read loop did not come back after a datagram from %v: %q", src, b)
	}
}

var knownErr = map[int64]bool{201: true, 202: true, 203: true, 204: true, 205: true, 206: true, 207: true, 301: true, 302: true}

// logOut decodes one captured write with the independent reader and logs it.
func (h *H) logOut(o sim.Out, failed bool) *sim.Dict {
	d, err := sim.DecodeDict(o.B)
	if err != nil {
		fail("the node wrote a datagram that is not a bencoded dictionary: %q", o.B)
	}
	y, _ := d.Str("y")
	t, _ := d.Str("t")
	dst := o.To
	m := sim.M{"seg": h.seg, "node": h.node, "e": "Out", "dst": sim.M{"ipn": sim.Hex(dst.IP.To16()), "port": dst.Port}, "y": string(y),
		"t": sim.Hex(t), "kind": "", "idOk": false, "ipOk": false, "token": "", "hasToken": false, "values": [][]any{},
		"ro": false, "q": "", "rated": true, "failed": failed, "ms": int((o.When.Sub(h.t0) + time.Millisecond - 1) / time.Millisecond), "ih": "",
		"want4": false, "want6": false}
	if ro, ok := d.Int("ro"); ok && ro == 1 {
		m["ro"] = true
	}
	if o.Foreign && (string(y) == "r" || string(y) == "e") {
		// (queries go to whatever address object the caller or a reply's node list supplied; replies go back to
		// the object the transport handed out with the query)
		m["foreign"] = true
	}
	switch string(y) {
	case "r":
		m["kind"] = "r"
		r := d.Dict("r")
		if id, ok := r.Str("id"); ok && string(id) == string(h.own[:]) {
			m["idOk"] = true
		}
		if ip, ok := d.Str("ip"); ok && len(ip) >= 6 {
			m["ipOk"] = net.IP(ip[:len(ip)-2]).Equal(dst.IP) && int(ip[len(ip)-2])<<8|int(ip[len(ip)-1]) == dst.Port
		}
		if tok, ok := r.Str("token"); ok {
			m["token"] = sim.Hex(tok)
			m["hasToken"] = true
		}
		if vs, ok := r.List("values"); ok {
			vl := [][]any{}
			for _, v := range vs {
				b, _ := v.([]byte)
				if len(b) != 6 && len(b) != 18 {
					vl = append(vl, []any{"", 0, len(b)})
					continue
				}
				vl = append(vl, []any{sim.Hex(net.IP(b[:len(b)-2]).To16()), int(b[len(b)-2])<<8 | int(b[len(b)-1]), len(b)})
			}
			m["values"] = vl
		}
	case "e":
		m["kind"] = "eX"
		if e, ok := d.List("e"); ok && len(e) >= 1 {
			if c, ok := e[0].(int64); ok && knownErr[c] {
				m["kind"] = fmt.Sprintf("e%d", c)
			}
		}
	case "q":
		q, _ := d.Str("q")
		m["q"] = string(q)
		key := dst.String() + "|" + string(t)
		h.mu.Lock()
		n := h.writesOf[key]
		h.writesOf[key] = n + 1
		var rl dht.QueryRateLimiting
		if n == 0 {
			if ids := h.calls[dst.String()]; len(ids) > 0 {
				rl = h.rated[ids[0]]
				h.calls[dst.String()] = ids[1:]
				h.keyRL[key] = rl
			}
		} else {
			rl = h.keyRL[key]
		}
		h.mu.Unlock()
		m["rated"] = !rl.NotAny && !(n == 0 && rl.NotFirst)
	}
	if string(y) != "q" {
		h.mu.Lock()
		if ii, ok := h.ins[dst.String()+"|"+string(t)]; ok {
			m["q"], m["ih"], m["want4"], m["want6"] = ii.q, ii.ih, ii.want4, ii.want6
		}
		h.mu.Unlock()
	}
	h.tr.Emit(m)
	return d
}

// settle waits until everything the injected datagrams caused has happened, then logs callbacks,
// written datagrams and a Quiesce line. Returns the decoded datagrams.
func (h *H) settle() []*sim.Dict {
	if !sim.WaitQuiet(60 * time.Second) {
		fail("reply/callback goroutines did not finish: %v", sim.Goroutines())
	}
	return h.flush(true)
}

func (h *H) flush(quiesce bool) (res []*sim.Dict) {
	for _, c := range h.takeCbs() {
		h.emitCb(c)
	}
	for _, o := range h.conn.TakeAll() {
		res = append(res, h.logOut(o.Out, o.Failed))
	}
	if quiesce {
		h.tr.Emit(sim.M{"seg": h.seg, "e": "Quiesce", "txns": h.srv.Stats().OutstandingTransactions})
	}
	return
}

func (h *H) takeCbs() []cbRec {
	h.mu.Lock()
	defer h.mu.Unlock()
	cbs := h.cbs
	h.cbs = nil
	return cbs
}

func (h *H) emitCb(c cbRec) {
	ip := c.ip
	h.tr.Emit(sim.M{"seg": h.seg, "node": h.node, "e": "Cb", "kind": c.kind, "ih": c.ih, "ip": sim.Hex(ip), "ipn": sim.Hex(ip.To16()),
		"port": c.port, "portOk": c.portOk, "fam": famOf(ip)})
}

func (h *H) setClock(sec int64) {
	atomic.StoreInt64(&h.clock, sec)
	h.tr.Emit(sim.M{"seg": h.seg, "e": "Clock", "sec": sec})
}

func (h *H) setBlock(b sim.BlockSet) {
	old := h.o.block
	h.o.block = b
	h.srv.SetIPBlockList(b.Clone())
	// The blocklist check and the write it guards are not one step, and datagrams are logged when they are collected,
	// not when they are written. What has been written by the time nobody is inside writeToNode any more is placed
	// where its check must have happened: a datagram to an address the old list covered can only have passed under
	// the new list (after the SetBlock line), everything else passed under the old one or does not care (before it)
	for deadline := time.Now().Add(5 * time.Second); sim.CountGoroutines("(*Server).writeToNode") != 0 && time.Now().Before(deadline); {
		time.Sleep(100 * time.Microsecond)
	}
	for _, c := range h.takeCbs() {
		h.emitCb(c)
	}
	var after []sim.OutF
	for _, o := range h.conn.TakeAll() {
		if old != nil && o.To != nil && old.Has(o.To.IP) {
			after = append(after, o)
		} else {
			h.logOut(o.Out, o.Failed)
		}
	}
	defer func() {
		for _, o := range after {
			h.logOut(o.Out, o.Failed)
		}
	}()
	bl := []string{}
	for k := range b {
		bl = append(bl, sim.Hex([]byte(k)))
	}
	h.tr.Emit(sim.M{"seg": h.seg, "e": "SetBlock", "blocked": bl})
}

// call starts an own query in a goroutine and logs Call; the returned channel yields when it returned
// (the Ret line is logged by ret()).
type call struct {
	t      []byte
	k      int
	dst    *net.UDPAddr
	cancel context.CancelFunc
	done   chan dht.QueryResult
}

var callSeq int

func (h *H) call(dst *net.UDPAddr, method string, in dht.QueryInput) *call {
	return h.callT(dst, method, in, 0)
}

// callT: like call; with a deadline on the query's context when d > 0.
func (h *H) callT(dst *net.UDPAddr, method string, in dht.QueryInput, d time.Duration) *call {
	callSeq++
	c := &call{k: callSeq, dst: dst, done: make(chan dht.QueryResult, 1)}
	ctx, cancel := context.WithCancel(context.Background())
	if d > 0 {
		ctx, cancel = context.WithTimeout(context.Background(), d)
	}
	c.cancel = cancel
	h.mu.Lock()
	h.calls[dst.String()] = append(h.calls[dst.String()], c.k)
	h.rated[c.k] = in.RateLimiting
	h.mu.Unlock()
	h.tr.Emit(sim.M{"seg": h.seg, "e": "Call", "k": c.k, "dst": sim.M{"ipn": sim.Hex(dst.IP.To16()), "port": dst.Port}, "api": method})
	go func() { c.done <- h.srv.Query(ctx, dht.NewAddr(dst), method, in) }()
	return c
}

func (h *H) cancelCall(c *call) {
	h.tr.Emit(sim.M{"seg": h.seg, "e": "Cancel", "k": c.k})
	c.cancel()
}

// ret logs the return of a call (must have happened: waits up to d).
func (h *H) ret(c *call, d time.Duration) bool {
	select {
	case r := <-c.done:
		class := "other"
		switch {
		case r.Err == nil:
			class = "reply"
		case errors.Is(r.Err, context.Canceled), errors.Is(r.Err, context.DeadlineExceeded):
			class = "ctx"
		case errors.Is(r.Err, dht.TransactionTimeout):
			class = "timeout"
		}
		h.tr.Emit(sim.M{"seg": h.seg, "e": "Ret", "k": c.k, "class": class, "t": sim.Hex([]byte(r.Reply.T)), "writes": int(r.Writes)})
		c.cancel()
		return true
	case <-time.After(d):
		return false
	}
}

func randID(rng *rand.Rand) (id krpc.ID) { rng.Read(id[:]); return }

func v4(a, b, c, d byte, port int) *net.UDPAddr {
	return &net.UDPAddr{IP: net.IPv4(a, b, c, d).To4(), Port: port}
}
func v4m(a, b, c, d byte, port int) *net.UDPAddr {
	return &net.UDPAddr{IP: net.IPv4(a, b, c, d).To16(), Port: port}
}
func v6(n int, port int) *net.UDPAddr {
	return &net.UDPAddr{IP: net.ParseIP(fmt.Sprintf("2001:db8::%x", n)), Port: port}
}

func (h *H) randSrc() *net.UDPAddr {
	port := 1024 + h.rng.Intn(60000)
	if h.o.zones && h.rng.Intn(5) == 0 {
		return &net.UDPAddr{IP: net.ParseIP(fmt.Sprintf("fe80::%x", 1+h.rng.Intn(4))), Port: port, Zone: "eth0"}
	}
	switch h.rng.Intn(6) {
	case 0:
		return v6(1+h.rng.Intn(6), port)
	case 1:
		return v4m(46, 1, 1, byte(1+h.rng.Intn(6)), port)
	default:
		return v4(46, 1, 1, byte(1+h.rng.Intn(6)), port)
	}
}
