// Command recs drives the "pure function" parts of the repository under test (properties C15, C17,
// C18): it calls the REAL functions on structured, seeded inputs and writes one ndjson record per
// call, {"seg":n,"e":"<op>",...arguments...,...results...,"panic":false}, which TLC then validates
// against the TLA+ reference definitions (spec/Trace_Kademlia.tla, Trace_Bep42.tla,
// Trace_KrpcCodec.tla).
//
// Every call is described by its arguments alone (a JSON object); generation produces argument
// objects, execution turns an argument object into a record. -replay <file> re-executes exactly the
// calls of a stored trace (results in the file are ignored and recomputed on the current tree).
package main

import (
	"bufio"
	"encoding/json"
	"flag"
	"fmt"
	"math/rand"
	"os"
	"path/filepath"
	"sort"

	"verifharness/sim"
)

type M = sim.M

// family is one of the three record families.
type family interface {
	// generate emits argument objects (without "seg") grouped in segments.
	generate(rng *rand.Rand, n int, out *emitter)
	// exec performs the call described by c on the real code and returns the record.
	exec(c M) M
}

type emitter struct {
	fam    family
	tr     *sim.Trace
	seg    int
	open   bool
	n      int
	panics int
	byOp   map[string]int
}

// segment starts a new segment; the calls emitted until the next segment() share its number.
func (e *emitter) segment() {
	e.seg++
	e.open = true
}

// call executes one call and writes its record. The argument object is passed through JSON first,
// so that generated and replayed calls take exactly the same path.
func (e *emitter) call(c M) M {
	if !e.open {
		e.segment()
	}
	b, err := json.Marshal(c)
	if err != nil {
		panic(err)
	}
	var norm M
	if err := json.Unmarshal(b, &norm); err != nil {
		panic(err)
	}
	return e.run(norm)
}

func (e *emitter) run(c M) M {
	r := e.fam.exec(c)
	r["seg"] = e.seg
	if p, _ := r["panic"].(bool); p {
		e.panics++
	}
	op, _ := r["e"].(string)
	e.byOp[op]++
	e.n++
	e.tr.Emit(r)
	return r
}

func fatal(f string, a ...any) {
	fmt.Fprintf(os.Stderr, f+"\n", a...)
	os.Exit(3)
}

func main() {
	famName := flag.String("fam", "", "kademlia | bep42 | codec")
	seed := flag.Int64("seed", 1, "seed of every random choice")
	n := flag.Int("n", 1000, "size parameter: number of seeded random input tuples on top of the structured enumeration")
	out := flag.String("out", "trace.ndjson", "ndjson output")
	replay := flag.String("replay", "", "re-execute the calls of this ndjson file instead of generating")
	flag.Parse()
	var fam family
	switch *famName {
	case "kademlia":
		fam = &kadFam{}
	case "bep42":
		fam = &bepFam{}
	case "codec":
		fam = newCodecFam()
	default:
		fatal("unknown -fam %q", *famName)
	}
	outDir = filepath.Dir(*out)
	tr, err := sim.NewTrace(*out)
	if err != nil {
		fatal("%v", err)
	}
	em := &emitter{fam: fam, tr: tr, byOp: map[string]int{}}
	if *replay != "" {
		f, err := os.Open(*replay)
		if err != nil {
			fatal("%v", err)
		}
		sc := bufio.NewScanner(f)
		sc.Buffer(make([]byte, 1<<20), 1<<28)
		last := -1 << 31
		for sc.Scan() {
			if len(sc.Bytes()) == 0 {
				continue
			}
			var c M
			if err := json.Unmarshal(sc.Bytes(), &c); err != nil {
				fatal("replay file: %v", err)
			}
			s := int(num(c["seg"]))
			if s != last || !em.open {
				em.segment()
				last = s
			}
			em.run(c)
		}
		f.Close()
	} else {
		fam.generate(rand.New(rand.NewSource(*seed)), *n, em)
	}
	if err := tr.Close(); err != nil {
		fatal("%v", err)
	}
	ops := make([]string, 0, len(em.byOp))
	for k := range em.byOp {
		ops = append(ops, k)
	}
	sort.Strings(ops)
	st := M{"records": em.n, "segments": em.seg, "panics": em.panics, "ops": em.byOp, "fam": *famName, "seed": *seed}
	b, _ := json.Marshal(st)
	fmt.Println(string(b))
}

// ---- access to JSON-decoded argument objects

func num(v any) float64 {
	switch x := v.(type) {
	case float64:
		return x
	case int:
		return float64(x)
	case int64:
		return float64(x)
	case json.Number:
		f, _ := x.Float64()
		return f
	}
	panic(fmt.Sprintf("not a number: %#v", v))
}

func integer(v any) int { return int(num(v)) }

func boolean(v any) bool {
	b, ok := v.(bool)
	if !ok {
		panic(fmt.Sprintf("not a bool: %#v", v))
	}
	return b
}

func str(v any) string {
	s, ok := v.(string)
	if !ok {
		panic(fmt.Sprintf("not a string: %#v", v))
	}
	return s
}

func list(v any) []any {
	if v == nil {
		return nil
	}
	l, ok := v.([]any)
	if !ok {
		panic(fmt.Sprintf("not a list: %#v", v))
	}
	return l
}

func obj(v any) M {
	switch x := v.(type) {
	case map[string]any:
		return x
	}
	panic(fmt.Sprintf("not an object: %#v", v))
}

// byteList converts a JSON array of numbers into bytes.
func byteList(v any) []byte {
	l := list(v)
	b := make([]byte, len(l))
	for i, x := range l {
		n := integer(x)
		if n < 0 || n > 255 {
			panic(fmt.Sprintf("not a byte: %v", x))
		}
		b[i] = byte(n)
	}
	return b
}

// ints renders bytes as a JSON array of numbers (never null).
func ints(b []byte) []int {
	r := make([]int, len(b))
	for i, x := range b {
		r[i] = int(x)
	}
	return r
}

func id20(v any) (id [20]byte) {
	b := byteList(v)
	if len(b) != 20 {
		panic(fmt.Sprintf("ID of %d bytes", len(b)))
	}
	copy(id[:], b)
	return
}

// guard runs f; a panic of the code under test is reported, not propagated.
func guard(f func()) (panicked bool, msg string) {
	defer func() {
		if r := recover(); r != nil {
			panicked = true
			msg = fmt.Sprint(r)
			if len(msg) > 200 {
				msg = msg[:200]
			}
		}
	}()
	f()
	return
}

func cp(c M) M {
	r := make(M, len(c)+4)
	for k, v := range c {
		r[k] = v
	}
	return r
}
