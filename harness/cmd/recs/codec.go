package main

// C15: the KRPC wire codec = the Marshal/Unmarshal methods of package krpc together with
// github.com/anacrolix/torrent/bencode as the server uses them, and the nodes file. Records are
// validated by spec/Trace_KrpcCodec.tla.
//
// A message is described by its "shape" (see the header of spec/KrpcCodec.tla): a JSON object with
// one entry per bencode key in a representation where equal representation = equal Go value. The
// shape is turned into a krpc.Msg (msgOf), and a krpc.Msg back into a shape (shapeOf); both are
// harness code that only reads and writes struct fields.

import (
	"bytes"
	"encoding/hex"
	"fmt"
	"math/big"
	"net"
	"os"
	"path/filepath"
	"sort"
	"strconv"

	dht "github.com/anacrolix/dht/v2"
	"github.com/anacrolix/dht/v2/krpc"
	"github.com/anacrolix/torrent/bencode"

	"verifharness/sim"
)

type codecFam struct {
	dir      string
	nf       int
	lastWire []byte // encoding produced by the last MsgRT call (input of the mutation stage)
}

func newCodecFam() *codecFam { return &codecFam{} }

// ---------------------------------------------------------------------------------- shape <-> Msg

func hx(b []byte) string { return hex.EncodeToString(b) }

func unhx(v any) []byte {
	b, err := hex.DecodeString(str(v))
	if err != nil {
		panic(fmt.Sprintf("bad hex %q", v))
	}
	return b
}

// hexz: arrays are written as hex, all-zero as ""
func hexz(b []byte) string {
	for _, x := range b {
		if x != 0 {
			return hx(b)
		}
	}
	return ""
}

func fillArr(dst []byte, v any) {
	b := unhx(v)
	if len(b) == 0 {
		return
	}
	if len(b) != len(dst) {
		panic(fmt.Sprintf("array of %d bytes given %d", len(dst), len(b)))
	}
	copy(dst, b)
}

func dec(v any) int64 {
	n, err := strconv.ParseInt(str(v), 10, 64)
	if err != nil {
		panic(err)
	}
	return n
}

func optInt64(v any) *int64 {
	o := obj(v)
	if !boolean(o["p"]) {
		return nil
	}
	n := dec(o["d"])
	return &n
}

func optInt64Shape(p *int64) M {
	if p == nil {
		return M{"p": false, "d": "0"}
	}
	return M{"p": true, "d": strconv.FormatInt(*p, 10)}
}

// any <-> canonical Go value of bencode decoding, through the independent bencode of package sim
func anyFromSim(v sim.Value) any {
	switch x := v.(type) {
	case []byte:
		return string(x)
	case int64:
		return x
	case []sim.Value:
		l := make([]any, len(x))
		for i := range x {
			l[i] = anyFromSim(x[i])
		}
		return l
	case *sim.Dict:
		m := make(map[string]any, len(x.Keys))
		for _, k := range x.Keys {
			m[k] = anyFromSim(x.Vals[k])
		}
		return m
	}
	panic(fmt.Sprintf("anyFromSim %T", v))
}

func simFromAny(v any) sim.Value {
	switch x := v.(type) {
	case string:
		return []byte(x)
	case []byte:
		return x
	case int64:
		return x
	case int:
		return int64(x)
	case *big.Int:
		return []byte("bigint:" + x.String())
	case []any:
		l := make([]sim.Value, len(x))
		for i := range x {
			l[i] = simFromAny(x[i])
		}
		return l
	case map[string]any:
		d := sim.NewDict()
		ks := make([]string, 0, len(x))
		for k := range x {
			ks = append(ks, k)
		}
		sort.Strings(ks)
		for _, k := range ks {
			d.Set(k, simFromAny(x[k]))
		}
		return d
	}
	return []byte(fmt.Sprintf("unrepresentable:%T:%v", v, v))
}

func nodeOf(v any) krpc.NodeInfo {
	o := obj(v)
	var ni krpc.NodeInfo
	fillArr(ni.ID[:], o["id"])
	ni.Addr.IP = net.IP(byteList(o["ip"]))
	ni.Addr.Port = integer(o["port"])
	return ni
}

func nodeShape(ni krpc.NodeInfo) M {
	return M{"id": hexz(ni.ID[:]), "ip": ints(ni.Addr.IP), "port": ni.Addr.Port}
}

func nodesOf(v any) []krpc.NodeInfo {
	o := obj(v)
	if !boolean(o["p"]) {
		return nil
	}
	r := []krpc.NodeInfo{}
	for _, e := range list(o["l"]) {
		r = append(r, nodeOf(e))
	}
	return r
}

func nodesShape(ns []krpc.NodeInfo) M {
	l := []M{}
	for _, n := range ns {
		l = append(l, nodeShape(n))
	}
	return M{"p": ns != nil, "l": l}
}

func bloomOf(v any) *krpc.ScrapeBloomFilter {
	o := obj(v)
	if !boolean(o["p"]) {
		return nil
	}
	var b krpc.ScrapeBloomFilter
	fillArr(b[:], o["h"])
	return &b
}

func bloomShape(b *krpc.ScrapeBloomFilter) M {
	if b == nil {
		return M{"p": false, "h": ""}
	}
	return M{"p": true, "h": hexz(b[:])}
}

func argsOf(f M) *krpc.MsgArgs {
	a := &krpc.MsgArgs{}
	fillArr(a.ID[:], f["id"])
	fillArr(a.InfoHash[:], f["info_hash"])
	fillArr(a.Target[:], f["target"])
	a.Token = string(unhx(f["token"]))
	if p := optInt64(f["port"]); p != nil {
		n := int(*p)
		a.Port = &n
	}
	a.ImpliedPort = boolean(f["implied_port"])
	if w := obj(f["want"]); boolean(w["p"]) {
		a.Want = []krpc.Want{}
		for _, x := range list(w["l"]) {
			a.Want = append(a.Want, krpc.Want(unhx(x)))
		}
	}
	a.NoSeed = int(dec(f["noseed"]))
	a.Scrape = int(dec(f["scrape"]))
	if v := obj(f["v"]); boolean(v["p"]) {
		sv, n, err := sim.Decode(unhx(v["s"]))
		if err != nil || n != len(unhx(v["s"])) {
			panic("shape: args.v is not bencode")
		}
		a.V = anyFromSim(sv)
	}
	a.Seq = optInt64(f["seq"])
	a.Cas = dec(f["cas"])
	fillArr(a.K[:], f["k"])
	if s := obj(f["salt"]); boolean(s["p"]) {
		a.Salt = append([]byte{}, unhx(s["h"])...)
	}
	fillArr(a.Sig[:], f["sig"])
	return a
}

func argsShape(a *krpc.MsgArgs) M {
	f := M{
		"id": hexz(a.ID[:]), "info_hash": hexz(a.InfoHash[:]), "target": hexz(a.Target[:]),
		"token": hx([]byte(a.Token)), "implied_port": a.ImpliedPort,
		"noseed": strconv.Itoa(a.NoSeed), "scrape": strconv.Itoa(a.Scrape),
		"seq": optInt64Shape(a.Seq), "cas": strconv.FormatInt(a.Cas, 10),
		"k": hexz(a.K[:]), "sig": hexz(a.Sig[:]),
		"salt": M{"p": a.Salt != nil, "h": hx(a.Salt)},
	}
	if a.Port == nil {
		f["port"] = M{"p": false, "d": "0"}
	} else {
		f["port"] = M{"p": true, "d": strconv.Itoa(*a.Port)}
	}
	wl := []string{}
	for _, w := range a.Want {
		wl = append(wl, hx([]byte(w)))
	}
	f["want"] = M{"p": a.Want != nil, "l": wl}
	if a.V == nil {
		f["v"] = M{"p": false, "s": ""}
	} else {
		f["v"] = M{"p": true, "s": hx(sim.Encode(simFromAny(a.V)))}
	}
	return f
}

func retOf(f M) *krpc.Return {
	r := &krpc.Return{}
	fillArr(r.ID[:], f["id"])
	r.Nodes = nodesOf(f["nodes"])
	r.Nodes6 = nodesOf(f["nodes6"])
	if t := obj(f["token"]); boolean(t["p"]) {
		s := string(unhx(t["h"]))
		r.Token = &s
	}
	if v := obj(f["values"]); boolean(v["p"]) {
		r.Values = []krpc.NodeAddr{}
		for _, e := range list(v["l"]) {
			o := obj(e)
			r.Values = append(r.Values, krpc.NodeAddr{IP: net.IP(byteList(o["ip"])), Port: integer(o["port"])})
		}
	}
	r.BFsd = bloomOf(f["BFsd"])
	r.BFpe = bloomOf(f["BFpe"])
	r.Interval = optInt64(f["interval"])
	r.Num = optInt64(f["num"])
	if s := obj(f["samples"]); boolean(s["p"]) {
		var ci krpc.CompactInfohashes
		if boolean(s["q"]) {
			ci = krpc.CompactInfohashes{}
		}
		for _, x := range list(s["l"]) {
			var h [20]byte
			fillArr(h[:], x)
			ci = append(ci, h)
		}
		r.Samples = &ci
	}
	if v := obj(f["v"]); boolean(v["p"]) {
		r.Bep44Return.V = bencode.Bytes(append([]byte{}, unhx(v["h"])...))
	}
	fillArr(r.Bep44Return.K[:], f["k"])
	fillArr(r.Bep44Return.Sig[:], f["sig"])
	r.Bep44Return.Seq = optInt64(f["seq"])
	return r
}

func retShape(r *krpc.Return) M {
	f := M{
		"id": hexz(r.ID[:]), "nodes": nodesShape(r.Nodes), "nodes6": nodesShape(r.Nodes6),
		"BFsd": bloomShape(r.BFsd), "BFpe": bloomShape(r.BFpe),
		"interval": optInt64Shape(r.Interval), "num": optInt64Shape(r.Num),
		"v": M{"p": r.Bep44Return.V != nil, "h": hx(r.Bep44Return.V)},
		"k": hexz(r.Bep44Return.K[:]), "sig": hexz(r.Bep44Return.Sig[:]), "seq": optInt64Shape(r.Bep44Return.Seq),
	}
	if r.Token == nil {
		f["token"] = M{"p": false, "h": ""}
	} else {
		f["token"] = M{"p": true, "h": hx([]byte(*r.Token))}
	}
	vl := []M{}
	for _, a := range r.Values {
		vl = append(vl, M{"ip": ints(a.IP), "port": a.Port})
	}
	f["values"] = M{"p": r.Values != nil, "l": vl}
	if r.Samples == nil {
		f["samples"] = M{"p": false, "q": false, "l": []string{}}
	} else {
		l := []string{}
		for _, h := range *r.Samples {
			l = append(l, hexz(h[:]))
		}
		f["samples"] = M{"p": true, "q": *r.Samples != nil, "l": l}
	}
	return f
}

func msgOf(s M) krpc.Msg {
	var m krpc.Msg
	m.Q = string(unhx(s["q"]))
	m.T = string(unhx(s["t"]))
	m.Y = string(unhx(s["y"]))
	m.ClientId = string(unhx(s["v"]))
	m.ReadOnly = boolean(s["ro"])
	ip := obj(s["ip"])
	if boolean(ip["p"]) {
		m.IP.IP = net.IP(append([]byte{}, byteList(ip["ip"])...))
	} else if len(byteList(ip["ip"])) != 0 {
		panic("shape: nil IP with bytes")
	}
	m.IP.Port = integer(ip["port"])
	if a := obj(s["a"]); boolean(a["p"]) {
		m.A = argsOf(obj(a["f"]))
	}
	if r := obj(s["r"]); boolean(r["p"]) {
		m.R = retOf(obj(r["f"]))
	}
	if e := obj(s["e"]); boolean(e["p"]) {
		m.E = &krpc.Error{Code: int(dec(e["code"])), Msg: string(unhx(e["msg"]))}
	}
	return m
}

func shapeOf(m krpc.Msg) M {
	s := M{
		"q": hx([]byte(m.Q)), "t": hx([]byte(m.T)), "y": hx([]byte(m.Y)), "v": hx([]byte(m.ClientId)), "ro": m.ReadOnly,
		"ip": M{"p": m.IP.IP != nil, "ip": ints(m.IP.IP), "port": m.IP.Port},
	}
	if m.A == nil {
		s["a"] = M{"p": false}
	} else {
		s["a"] = M{"p": true, "f": argsShape(m.A)}
	}
	if m.R == nil {
		s["r"] = M{"p": false}
	} else {
		s["r"] = M{"p": true, "f": retShape(m.R)}
	}
	if m.E == nil {
		s["e"] = M{"p": false, "code": "0", "msg": ""}
	} else {
		s["e"] = M{"p": true, "code": strconv.Itoa(m.E.Code), "msg": hx([]byte(m.E.Msg))}
	}
	return s
}

// ---------------------------------------------------------------------------------- execution

func keyList(d *sim.Dict) []string {
	if d == nil {
		return []string{}
	}
	ks := append([]string{}, d.Keys...)
	sort.Strings(ks)
	return ks
}

// decodes b into a Msg the way the server does; a trailing-bytes error leaves a valid value
func decodeMsg(b []byte) (m krpc.Msg, ok, trail bool, emsg string) {
	err := bencode.Unmarshal(b, &m)
	if err == nil {
		return m, true, false, ""
	}
	if _, is := err.(bencode.ErrUnusedTrailingBytes); is {
		return m, false, true, err.Error()
	}
	return m, false, false, err.Error()
}

// re-encodes a decoded message and checks that decoding and encoding once more reproduces the bytes
func reencode(m krpc.Msg) (b2 []byte, reOk, fix bool) {
	b2, err := bencode.Marshal(m)
	if err != nil {
		return nil, false, false
	}
	var m3 krpc.Msg
	if err := bencode.Unmarshal(b2, &m3); err != nil {
		return b2, true, false
	}
	b3, err := bencode.Marshal(m3)
	return b2, true, err == nil && bytes.Equal(b2, b3)
}

func (f *codecFam) exec(c M) M {
	switch op := str(c["e"]); op {
	case "MsgRT":
		return f.execMsgRT(c)
	case "MsgDec":
		r := args(c, "src", "hex")
		b := unhx(c["hex"])
		r["len"] = len(b)
		r["decOk"], r["trail"], r["reOk"], r["fix"] = false, false, false, false
		if p, msg := guard(func() {
			m, ok, trail, _ := decodeMsg(b)
			r["decOk"], r["trail"] = ok, trail
			if ok || trail {
				_, r["reOk"], r["fix"] = reencode(m)
			}
		}); p {
			r["panic"], r["pmsg"] = true, msg
		}
		return r
	case "Compact":
		return f.execCompact(c)
	case "Direct":
		return f.execDirect(c)
	case "NodesFile":
		r := args(c, "in")
		var ns []krpc.NodeInfo
		for _, e := range list(c["in"]) {
			ns = append(ns, nodeOf(e))
		}
		r["wok"], r["rok"], r["out"] = false, false, []M{}
		fn := f.tmp()
		defer os.Remove(fn)
		if pre, ok := c["pre"]; ok && dec(pre) > 0 {
			// the file already exists and holds an older, longer list: saving replaces it
			r["pre"] = pre
			if err := os.WriteFile(fn, bytes.Repeat([]byte{0xab}, int(dec(pre))), 0o644); err != nil {
				panic(err)
			}
		}
		if p, msg := guard(func() {
			if err := dht.WriteNodesToFile(ns, fn); err != nil {
				return
			}
			r["wok"] = true
			got, err := dht.ReadNodesFromFile(fn)
			if err != nil {
				return
			}
			r["rok"] = true
			out := []M{}
			for _, n := range got {
				out = append(out, nodeShape(n))
			}
			r["out"] = out
		}); p {
			r["panic"], r["pmsg"] = true, msg
		}
		return r
	case "NodesFileRaw":
		r := args(c, "hex")
		b := unhx(c["hex"])
		r["len"] = len(b)
		r["ok"], r["n"] = false, 0
		fn := f.tmp()
		defer os.Remove(fn)
		if err := os.WriteFile(fn, b, 0o600); err != nil {
			panic(err)
		}
		if p, msg := guard(func() {
			got, err := dht.ReadNodesFromFile(fn)
			r["ok"] = err == nil
			if err == nil {
				r["n"] = len(got)
			}
		}); p {
			r["panic"], r["pmsg"] = true, msg
		}
		return r
	default:
		panic("unknown codec op " + op)
	}
}

func (f *codecFam) tmp() string {
	if f.dir == "" {
		d, err := os.MkdirTemp(outDir, "nodes-")
		if err != nil {
			panic(err)
		}
		f.dir = d
	}
	f.nf++
	return filepath.Join(f.dir, fmt.Sprintf("n%d.dat", f.nf))
}

func (f *codecFam) execMsgRT(c M) M {
	r := args(c, "in")
	in := obj(c["in"])
	m := msgOf(in)
	r["out"] = in
	r["encOk"], r["encPanic"], r["decOk"], r["decPanic"], r["reOk"], r["fix"], r["same"] = false, false, false, false, false, false, false
	r["keys"] = M{"top": []string{}, "a": []string{}, "r": []string{}}
	r["len"] = 0
	var b1 []byte
	if p, msg := guard(func() {
		var err error
		b1, err = bencode.Marshal(m)
		r["encOk"] = err == nil
	}); p {
		r["encPanic"], r["pmsg"] = true, msg
	}
	f.lastWire = nil
	if r["encOk"] == true {
		f.lastWire = b1
		r["len"] = len(b1)
		if d, err := sim.DecodeDict(b1); err == nil {
			r["keys"] = M{"top": keyList(d), "a": keyList(d.Dict("a")), "r": keyList(d.Dict("r"))}
		}
		if p, msg := guard(func() {
			m2, ok, _, _ := decodeMsg(b1)
			r["decOk"] = ok
			if !ok {
				return
			}
			r["out"] = shapeOf(m2)
			var b2 []byte
			b2, r["reOk"], r["fix"] = reencode(m2)
			r["same"] = bytes.Equal(b1, b2)
		}); p {
			r["decPanic"], r["pmsg"] = true, msg
		}
	}
	r["panic"] = r["encPanic"] == true || r["decPanic"] == true
	return r
}

type compactCodec struct {
	size   int
	unBin  func([]byte) (int, error)
	unBenc func([]byte) (int, error)
	bin    func() ([]byte, error)
	benc   func() ([]byte, error)
}

func compactOf(ty string) compactCodec {
	switch ty {
	case "nodes4":
		var x krpc.CompactIPv4NodeInfo
		return compactCodec{26, func(b []byte) (int, error) { e := x.UnmarshalBinary(b); return len(x), e },
			func(b []byte) (int, error) { e := x.UnmarshalBencode(b); return len(x), e },
			func() ([]byte, error) { return x.MarshalBinary() }, func() ([]byte, error) { return x.MarshalBencode() }}
	case "nodes6":
		var x krpc.CompactIPv6NodeInfo
		return compactCodec{38, func(b []byte) (int, error) { e := x.UnmarshalBinary(b); return len(x), e },
			func(b []byte) (int, error) { e := x.UnmarshalBencode(b); return len(x), e },
			func() ([]byte, error) { return x.MarshalBinary() }, func() ([]byte, error) { return x.MarshalBencode() }}
	case "addrs4":
		var x krpc.CompactIPv4NodeAddrs
		return compactCodec{6, func(b []byte) (int, error) { e := x.UnmarshalBinary(b); return len(x), e },
			func(b []byte) (int, error) { e := x.UnmarshalBencode(b); return len(x), e },
			func() ([]byte, error) { return x.MarshalBinary() }, func() ([]byte, error) { return x.MarshalBencode() }}
	case "addrs6":
		var x krpc.CompactIPv6NodeAddrs
		return compactCodec{18, func(b []byte) (int, error) { e := x.UnmarshalBinary(b); return len(x), e },
			func(b []byte) (int, error) { e := x.UnmarshalBencode(b); return len(x), e },
			func() ([]byte, error) { return x.MarshalBinary() }, func() ([]byte, error) { return x.MarshalBencode() }}
	case "hashes":
		var x krpc.CompactInfohashes
		return compactCodec{20, func(b []byte) (int, error) { e := x.UnmarshalBinary(b); return len(x), e },
			func(b []byte) (int, error) { e := x.UnmarshalBencode(b); return len(x), e },
			func() ([]byte, error) { return x.MarshalBinary() }, func() ([]byte, error) { return x.MarshalBencode() }}
	}
	panic("unknown compact type " + ty)
}

// Compact: the payload "in" is given to UnmarshalBinary (via = "bin") or, wrapped as a bencode
// string by the independent encoder, to UnmarshalBencode (via = "benc"); on success the value is
// marshalled back the same way and the payload of the result is recorded as "out".
func (f *codecFam) execCompact(c M) M {
	r := args(c, "ty", "via", "in")
	cc := compactOf(str(c["ty"]))
	in := byteList(c["in"])
	r["size"] = cc.size
	r["ok"], r["n"], r["reOk"], r["out"] = false, 0, false, []int{}
	if p, msg := guard(func() {
		var n int
		var err error
		var out []byte
		if str(c["via"]) == "bin" {
			n, err = cc.unBin(in)
			if err == nil {
				out, err = cc.bin()
				r["reOk"] = err == nil
			} else {
				return
			}
		} else {
			n, err = cc.unBenc(sim.Encode(in))
			if err != nil {
				return
			}
			var w []byte
			w, err = cc.benc()
			r["reOk"] = err == nil
			if v, k, derr := sim.Decode(w); derr == nil && k == len(w) {
				if pl, isStr := v.([]byte); isStr {
					out = pl
				} else {
					r["reOk"] = false
				}
			} else {
				r["reOk"] = false
			}
		}
		r["ok"], r["n"], r["out"] = true, n, ints(out)
	}); p {
		r["panic"], r["pmsg"] = true, msg
	}
	return r
}

// Direct: one exported decoder of package krpc on one input. cls tells what the input is:
// "raw" n bytes for a binary decoder, "str" a well-formed bencode string with a payload of n
// bytes, "hex" n hexadecimal digits, "junk" anything else.
func (f *codecFam) execDirect(c M) M {
	r := args(c, "fn", "cls", "n", "hex")
	b := unhx(c["hex"])
	r["ok"] = false
	var call func() error
	switch fn := str(c["fn"]); fn {
	case "ID.UnmarshalBencode":
		call = func() error { var x krpc.ID; return x.UnmarshalBencode(b) }
	case "ID.UnmarshalText":
		call = func() error { var x krpc.ID; return x.UnmarshalText(b) }
	case "Error.UnmarshalBencode":
		call = func() error { var x krpc.Error; return x.UnmarshalBencode(b) }
	case "NodeAddr.UnmarshalBinary":
		call = func() error { var x krpc.NodeAddr; return x.UnmarshalBinary(b) }
	case "NodeAddr.UnmarshalBencode":
		call = func() error { var x krpc.NodeAddr; return x.UnmarshalBencode(b) }
	case "NodeInfo.UnmarshalBinary":
		call = func() error { var x krpc.NodeInfo; return x.UnmarshalBinary(b) }
	case "CompactIPv4NodeInfo.UnmarshalBencode":
		call = func() error { var x krpc.CompactIPv4NodeInfo; return x.UnmarshalBencode(b) }
	case "CompactIPv6NodeInfo.UnmarshalBencode":
		call = func() error { var x krpc.CompactIPv6NodeInfo; return x.UnmarshalBencode(b) }
	case "CompactIPv4NodeAddrs.UnmarshalBencode":
		call = func() error { var x krpc.CompactIPv4NodeAddrs; return x.UnmarshalBencode(b) }
	case "CompactIPv6NodeAddrs.UnmarshalBencode":
		call = func() error { var x krpc.CompactIPv6NodeAddrs; return x.UnmarshalBencode(b) }
	case "CompactInfohashes.UnmarshalBencode":
		call = func() error { var x krpc.CompactInfohashes; return x.UnmarshalBencode(b) }
	case "Msg.Return":
		call = func() error { var x krpc.Return; return bencode.Unmarshal(b, &x) }
	case "Msg.Args":
		call = func() error { var x krpc.MsgArgs; return bencode.Unmarshal(b, &x) }
	default:
		panic("unknown decoder " + fn)
	}
	if p, msg := guard(func() { r["ok"] = call() == nil }); p {
		r["panic"], r["pmsg"] = true, msg
	}
	return r
}

var directFns = []string{"ID.UnmarshalBencode", "ID.UnmarshalText", "Error.UnmarshalBencode", "NodeAddr.UnmarshalBinary",
	"NodeAddr.UnmarshalBencode", "NodeInfo.UnmarshalBinary", "CompactIPv4NodeInfo.UnmarshalBencode",
	"CompactIPv6NodeInfo.UnmarshalBencode", "CompactIPv4NodeAddrs.UnmarshalBencode", "CompactIPv6NodeAddrs.UnmarshalBencode",
	"CompactInfohashes.UnmarshalBencode", "Msg.Return", "Msg.Args"}

var outDir = os.TempDir()
