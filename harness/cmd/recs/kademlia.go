package main

// C18: int160, bucket index helpers, AddrMaybeId.CloserThan, the sorted candidate set and the
// K-nearest container, called on 20-byte IDs. Records are validated by spec/Trace_Kademlia.tla.

import (
	"fmt"
	"math/rand"
	"net/netip"

	dht "github.com/anacrolix/dht/v2"
	"github.com/anacrolix/dht/v2/containers"
	"github.com/anacrolix/dht/v2/int160"
	k_nearest_nodes "github.com/anacrolix/dht/v2/k-nearest-nodes"
	"github.com/anacrolix/dht/v2/krpc"
	"github.com/anacrolix/dht/v2/types"
	"github.com/anacrolix/generics"

	"verifharness/sim"
)

type kadFam struct {
	set    containers.AddrMaybeIdsByDistance
	knn    k_nearest_nodes.Type
	knnSet bool
	pushes int
}

// ---------------------------------------------------------------------------------- execution

func addrOf(ip []byte, port int) netip.AddrPort {
	var a netip.Addr
	switch len(ip) {
	case 0:
	case 4:
		a = netip.AddrFrom4([4]byte(ip))
	case 16:
		a = netip.AddrFrom16([16]byte(ip))
	default:
		panic(fmt.Sprintf("ip of %d bytes", len(ip)))
	}
	return netip.AddrPortFrom(a, uint16(port))
}

// candidate {"hasId":b,"id":[20],"ip":[0|4|16],"port":p}; the id of a candidate without ID is put
// into the (ignored) Value of the option all the same
func candOf(v any) types.AddrMaybeId {
	c := obj(v)
	r := types.AddrMaybeId{Addr: krpc.NodeAddrPort{AddrPort: addrOf(byteList(c["ip"]), integer(c["port"]))}}
	r.Id = generics.Option[int160.T]{Ok: boolean(c["hasId"]), Value: int160.FromByteArray(id20(c["id"]))}
	return r
}

func candJSON(a types.AddrMaybeId) M {
	return M{"hasId": a.Id.Ok, "id": sim.IDBytes(a.Id.Value.AsByteArray()), "ip": ints(a.Addr.Addr().AsSlice()), "port": int(a.Addr.Port())}
}

func elemOf(v any) k_nearest_nodes.Key {
	c := obj(v)
	return krpc.NodeInfoAddrPort{ID: id20(c["id"]), Addr: krpc.NodeAddrPort{AddrPort: addrOf(byteList(c["ip"]), integer(c["port"]))}}
}

func elemJSON(k k_nearest_nodes.Key) M {
	return M{"id": sim.IDBytes(k.ID), "ip": ints(k.Addr.Addr().AsSlice()), "port": int(k.Addr.Port())}
}

func args(c M, keys ...string) M {
	r := M{"e": c["e"], "panic": false}
	for _, k := range keys {
		v, ok := c[k]
		if !ok {
			panic(fmt.Sprintf("call %v lacks argument %q", c["e"], k))
		}
		r[k] = v
	}
	return r
}

func (f *kadFam) exec(c M) M {
	var r M
	var body func()
	switch op := str(c["e"]); op {
	case "Dist":
		r = args(c, "a", "b", "via")
		a, b, via := int160.FromByteArray(id20(c["a"])), int160.FromByteArray(id20(c["b"])), integer(c["via"])
		body = func() {
			var d int160.T
			switch via {
			case 0:
				d = int160.Distance(a, b)
			case 1:
				d = a.Distance(b)
			default:
				d.Xor(&a, &b)
			}
			r["res"] = sim.IDBytes(d.AsByteArray())
		}
	case "Cmp":
		r = args(c, "a", "b")
		a, b := int160.FromByteArray(id20(c["a"])), int160.FromByteArray(id20(c["b"]))
		body = func() { r["res"] = a.Cmp(b) }
	case "BitLen":
		r = args(c, "a")
		a := int160.FromByteArray(id20(c["a"]))
		body = func() { r["res"] = a.BitLen() }
	case "IsZero":
		r = args(c, "a")
		a := int160.FromByteArray(id20(c["a"]))
		body = func() { r["res"] = a.IsZero() }
	case "GetBit":
		r = args(c, "a", "i")
		a, i := int160.FromByteArray(id20(c["a"])), integer(c["i"])
		body = func() {
			r["res"] = 0
			if a.GetBit(i) {
				r["res"] = 1
			}
		}
	case "SetBit":
		r = args(c, "a", "i", "v")
		a, i, v := int160.FromByteArray(id20(c["a"])), integer(c["i"]), integer(c["v"])
		body = func() {
			a.SetBit(i, v != 0)
			r["res"] = sim.IDBytes(a.AsByteArray())
		}
	case "Bucket":
		r = args(c, "root", "id")
		root, id := int160.FromByteArray(id20(c["root"])), int160.FromByteArray(id20(c["id"]))
		r["res"] = -1
		body = func() { r["res"] = dht.VerifBucketIndex(root, id) }
	case "RandBucket":
		r = args(c, "root", "i")
		root, i := int160.FromByteArray(id20(c["root"])), integer(c["i"])
		body = func() {
			x := dht.VerifRandomIdInBucket(root, i)
			r["res"] = sim.IDBytes(x.AsByteArray())
		}
	case "Closer":
		r = args(c, "l", "r", "t")
		l, rr, t := candOf(c["l"]), candOf(c["r"]), int160.FromByteArray(id20(c["t"]))
		body = func() {
			r["lr"] = l.CloserThan(rr, t)
			r["rl"] = rr.CloserThan(l, t)
		}
	case "Order":
		r = args(c, "c", "t")
		var cs []types.AddrMaybeId
		for _, x := range list(c["c"]) {
			cs = append(cs, candOf(x))
		}
		t := int160.FromByteArray(id20(c["t"]))
		body = func() {
			m := make([][]bool, len(cs))
			for i := range cs {
				m[i] = make([]bool, len(cs))
				for j := range cs {
					m[i][j] = cs[i].CloserThan(cs[j], t)
				}
			}
			r["m"] = m
		}
	case "SetNew":
		r = args(c, "t")
		t := int160.FromByteArray(id20(c["t"]))
		body = func() {
			f.set = containers.NewImmutableAddrMaybeIdsByDistance(t)
			r["len"] = f.set.Len()
		}
	case "SetAdd", "SetDelete":
		r = args(c, "c")
		x := candOf(c["c"])
		f.needSet()
		body = func() {
			if op == "SetAdd" {
				f.set = f.set.Add(x)
			} else {
				f.set = f.set.Delete(x)
			}
			r["len"] = f.set.Len()
		}
	case "SetLen":
		r = args(c)
		f.needSet()
		body = func() { r["res"] = f.set.Len() }
	case "SetNext":
		r = args(c)
		f.needSet()
		body = func() { r["res"] = candJSON(f.set.Next()) }
	case "KnnNew":
		r = args(c, "t", "k")
		t, k := int160.FromByteArray(id20(c["t"])), integer(c["k"])
		body = func() {
			f.knn = k_nearest_nodes.New(t, k)
			f.knnSet = true
			f.pushes = 0
			r["len"] = f.knn.Len()
			r["full"] = f.knn.Full()
		}
	case "KnnPush":
		r = args(c, "c")
		key := elemOf(c["c"])
		if !f.knnSet {
			panic("KnnPush before KnnNew")
		}
		body = func() {
			f.pushes++
			f.knn = f.knn.Push(k_nearest_nodes.Elem{Key: key, Data: f.pushes})
			rng := []M{}
			f.knn.Range(func(e k_nearest_nodes.Elem) { rng = append(rng, elemJSON(e.Key)) })
			r["range"] = rng
			r["len"] = f.knn.Len()
			r["full"] = f.knn.Full()
			far := []M{}
			if f.knn.Len() > 0 {
				far = append(far, elemJSON(f.knn.Farthest().Key))
			}
			r["far"] = far
		}
	default:
		panic("unknown kademlia op " + op)
	}
	if p, msg := guard(body); p {
		r["panic"] = true
		r["pmsg"] = msg
	}
	return r
}

func (f *kadFam) needSet() {
	if f.set == nil {
		panic("Set operation before SetNew")
	}
}

// ---------------------------------------------------------------------------------- generation

func randID(rng *rand.Rand) (id krpc.ID) {
	rng.Read(id[:])
	return
}

func flip(id krpc.ID, i int) krpc.ID {
	id[i/8] ^= 1 << (7 - uint(i%8))
	return id
}

func extremes() []krpc.ID {
	var zero, max, one, top, ntop, alt krpc.ID
	for i := range max {
		max[i] = 0xff
		ntop[i] = 0xff
		alt[i] = 0xaa
	}
	one[19] = 1
	top[0] = 0x80
	ntop[0] = 0x7f
	return []krpc.ID{zero, max, one, top, ntop, alt}
}

func idj(id krpc.ID) []int { return sim.IDBytes(id) }

func (f *kadFam) pairOps(out *emitter, rng *rand.Rand, a, b krpc.ID) {
	out.call(M{"e": "Dist", "a": idj(a), "b": idj(b), "via": rng.Intn(3)})
	out.call(M{"e": "Dist", "a": idj(b), "b": idj(a), "via": rng.Intn(3)})
	out.call(M{"e": "Cmp", "a": idj(a), "b": idj(b)})
	out.call(M{"e": "Cmp", "a": idj(b), "b": idj(a)})
	out.call(M{"e": "Bucket", "root": idj(a), "id": idj(b)})
}

func (f *kadFam) unaryOps(out *emitter, rng *rand.Rand, a krpc.ID, allBits bool) {
	out.call(M{"e": "BitLen", "a": idj(a)})
	out.call(M{"e": "IsZero", "a": idj(a)})
	if allBits {
		for i := 0; i < 160; i++ {
			out.call(M{"e": "GetBit", "a": idj(a), "i": i})
			out.call(M{"e": "SetBit", "a": idj(a), "i": i, "v": i % 2})
			out.call(M{"e": "SetBit", "a": idj(a), "i": i, "v": 1 - i%2})
		}
	} else {
		i := rng.Intn(160)
		out.call(M{"e": "GetBit", "a": idj(a), "i": i})
		out.call(M{"e": "SetBit", "a": idj(a), "i": i, "v": rng.Intn(2)})
	}
}

var kadIPs = [][]byte{
	{},
	{10, 0, 0, 1},
	{10, 0, 0, 2},
	{200, 1, 2, 3},
	{0, 0, 0, 0, 0, 0, 0, 0, 0, 0, 0xff, 0xff, 10, 0, 0, 1},
	{0x20, 0x01, 0x0d, 0xb8, 0, 0, 0, 0, 0, 0, 0, 0, 0, 0, 0, 1},
}
var kadPorts = []int{1, 2, 65535}

// candidate universe of a segment: few IDs (so that equal-ID ties abound), ID-less entries with
// arbitrary ignored id values, all address forms
func candUniverse(rng *rand.Rand, emb sim.Embedding, n int) []M {
	var u []M
	for len(u) < n {
		c := M{"hasId": rng.Intn(4) != 0, "id": idj(emb.Conc(rng.Intn(1 << emb.W))), "ip": ints(kadIPs[rng.Intn(len(kadIPs))]), "port": kadPorts[rng.Intn(len(kadPorts))]}
		if len(u) > 0 && rng.Intn(3) == 0 {
			// a near-duplicate of an earlier one: same ID other address, same address other ID, or identical
			p := u[rng.Intn(len(u))]
			c = M{"hasId": p["hasId"], "id": p["id"], "ip": p["ip"], "port": p["port"]}
			switch rng.Intn(4) {
			case 0:
				c["ip"] = ints(kadIPs[rng.Intn(len(kadIPs))])
			case 1:
				c["port"] = kadPorts[rng.Intn(len(kadPorts))]
			case 2:
				c["id"] = idj(emb.Conc(rng.Intn(1 << emb.W)))
			}
		}
		u = append(u, c)
	}
	return u
}

func elemUniverse(rng *rand.Rand, emb sim.Embedding, n int) []M {
	var u []M
	for len(u) < n {
		e := M{"id": idj(emb.Conc(rng.Intn(1 << emb.W))), "ip": ints(kadIPs[1+rng.Intn(len(kadIPs)-1)]), "port": kadPorts[rng.Intn(len(kadPorts))]}
		if len(u) > 0 && rng.Intn(2) == 0 {
			p := u[rng.Intn(len(u))]
			e["id"] = p["id"] // same distance, other address: the tie the container breaks by hash
		}
		u = append(u, e)
	}
	return u
}

func (f *kadFam) generate(rng *rand.Rand, n int, out *emitter) {
	// (1) a small universe embedded at every bit offset: all pairs
	for _, w := range []int{2, 3} {
		for off := 0; off+w <= 160; off++ {
			if w == 3 && n < 4000 && off%4 != int(rng.Int31n(4)) {
				continue
			}
			emb := sim.Embedding{W: w, Off: off}
			rng.Read(emb.Filler[:])
			switch rng.Intn(4) {
			case 0:
				emb.Filler = krpc.ID{}
			case 1:
				for i := range emb.Filler {
					emb.Filler[i] = 0xff
				}
			}
			out.segment()
			for a := 0; a < 1<<w; a++ {
				for b := a; b < 1<<w; b++ {
					f.pairOps(out, rng, emb.Conc(a), emb.Conc(b))
				}
			}
		}
	}
	// (2) single-bit differences and every shared-prefix length, with and without a random tail
	out.segment()
	for i := 0; i < 160; i++ {
		a := randID(rng)
		f.pairOps(out, rng, a, flip(a, i))
		b := randID(rng)
		for j := 0; j < i; j++ {
			sb := (a[j/8] >> (7 - uint(j%8))) & 1
			b[j/8] = b[j/8]&^(1<<(7-uint(j%8))) | sb<<(7-uint(j%8))
		}
		if (b[i/8]>>(7-uint(i%8)))&1 == (a[i/8]>>(7-uint(i%8)))&1 {
			b = flip(b, i)
		}
		f.pairOps(out, rng, a, b)
	}
	// (3) extremes: all pairs, all bits
	out.segment()
	ex := extremes()
	for _, a := range ex {
		f.unaryOps(out, rng, a, true)
		for _, b := range ex {
			f.pairOps(out, rng, a, b)
		}
	}
	// (4) one-hot, prefix-ones and random IDs
	out.segment()
	for i := 0; i < 160; i++ {
		var oh, po krpc.ID
		oh = flip(oh, i)
		for j := 0; j <= i; j++ {
			po = flip(po, j)
		}
		f.unaryOps(out, rng, oh, false)
		f.unaryOps(out, rng, po, false)
		out.call(M{"e": "GetBit", "a": idj(oh), "i": i})
		out.call(M{"e": "GetBit", "a": idj(po), "i": i})
	}
	f.unaryOps(out, rng, randID(rng), true)
	for i := 0; i < n; i++ {
		if i%64 == 0 {
			out.segment()
		}
		a, b := randID(rng), randID(rng)
		if i%3 == 0 { // long common prefix
			k := rng.Intn(20)
			copy(b[:k], a[:k])
		}
		f.unaryOps(out, rng, a, false)
		f.pairOps(out, rng, a, b)
	}
	// (5) random ID for a bucket: every bucket of several roots
	roots := append(extremes()[:3], randID(rng), randID(rng))
	for _, root := range roots {
		out.segment()
		for i := 0; i < 160; i++ {
			out.call(M{"e": "RandBucket", "root": idj(root), "i": i})
		}
	}
	// (6) CloserThan on all triples of small candidate universes (ID-less entries, equal-ID ties,
	// every address form), several targets
	nu := 6 + n/1500
	if nu > 40 {
		nu = 40
	}
	for s := 0; s < nu; s++ {
		emb := sim.NewEmbedding(rng, 2)
		u := candUniverse(rng, emb, 5)
		out.segment()
		for _, t := range []krpc.ID{emb.Conc(rng.Intn(4)), randID(rng)} {
			for _, x := range u {
				for _, y := range u {
					out.call(M{"e": "Closer", "l": x, "r": y, "t": idj(t)})
					for _, z := range u {
						out.call(M{"e": "Order", "c": []M{x, y, z}, "t": idj(t)})
					}
				}
			}
		}
		// and one larger tuple
		big := candUniverse(rng, emb, 7)
		out.call(M{"e": "Order", "c": big, "t": idj(emb.Conc(rng.Intn(4)))})
	}
	// (7) the sorted candidate set, replayed step by step
	ns := 30 + n/100
	for s := 0; s < ns; s++ {
		emb := sim.NewEmbedding(rng, 2)
		u := candUniverse(rng, emb, 4+rng.Intn(6))
		t := emb.Conc(rng.Intn(4))
		if rng.Intn(4) == 0 {
			t = randID(rng)
		}
		out.segment()
		out.call(M{"e": "SetNew", "t": idj(t)})
		size := 0
		steps := 10 + rng.Intn(30)
		for i := 0; i < steps; i++ {
			var r M
			switch k := rng.Intn(10); {
			case k < 4 || size == 0 && k < 8:
				r = out.call(M{"e": "SetAdd", "c": u[rng.Intn(len(u))]})
			case k < 6:
				r = out.call(M{"e": "SetDelete", "c": u[rng.Intn(len(u))]})
			case k < 9:
				if size > 0 {
					r = out.call(M{"e": "SetNext"})
					if rng.Intn(2) == 0 { // pop it, as the traversal does
						if c, ok := r["res"].(M); ok {
							r = out.call(M{"e": "SetDelete", "c": c})
						}
					}
				}
			default:
				out.call(M{"e": "SetLen"})
			}
			if r != nil {
				if l, ok := r["len"].(int); ok {
					size = l
				}
			}
		}
		// drain: Next/Delete until empty gives the whole order
		for size > 0 {
			r := out.call(M{"e": "SetNext"})
			c, ok := r["res"].(M)
			if !ok {
				break
			}
			r = out.call(M{"e": "SetDelete", "c": c})
			l, ok := r["len"].(int)
			if !ok || l >= size {
				break
			}
			size = l
		}
	}
	// (8) the K-nearest container: all push sequences of length 3 over a universe of 5 (with ties),
	// then seeded longer sequences
	{
		emb := sim.NewEmbedding(rng, 2)
		u := elemUniverse(rng, emb, 5)
		t := emb.Conc(rng.Intn(4))
		for _, k := range []int{1, 2} {
			for a := range u {
				for b := range u {
					for c := range u {
						out.segment()
						out.call(M{"e": "KnnNew", "t": idj(t), "k": k})
						out.call(M{"e": "KnnPush", "c": u[a]})
						out.call(M{"e": "KnnPush", "c": u[b]})
						out.call(M{"e": "KnnPush", "c": u[c]})
					}
				}
			}
		}
	}
	nk := 60 + n/50
	for s := 0; s < nk; s++ {
		w := 2 + rng.Intn(3)
		emb := sim.NewEmbedding(rng, w)
		u := elemUniverse(rng, emb, 4+rng.Intn(12))
		t := emb.Conc(rng.Intn(1 << w))
		if rng.Intn(4) == 0 {
			t = randID(rng)
		}
		k := []int{0, 1, 2, 3, 8, 8}[rng.Intn(6)]
		out.segment()
		out.call(M{"e": "KnnNew", "t": idj(t), "k": k})
		steps := 4 + rng.Intn(20)
		for i := 0; i < steps; i++ {
			out.call(M{"e": "KnnPush", "c": u[rng.Intn(len(u))]})
		}
	}
}
