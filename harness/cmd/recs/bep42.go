package main

// C17: BEP 42 node-ID security. Calls dht.SecureNodeId, dht.NodeIdSecure,
// dht.MakeDeterministicNodeID, ServerConfig.InitNodeId and NewServer(...).ID() of the repository;
// records are validated by spec/Trace_Bep42.tla (which has its own CRC32-C).

import (
	"fmt"
	"math/rand"
	"net"
	"sync"

	dht "github.com/anacrolix/dht/v2"
	"github.com/anacrolix/dht/v2/krpc"

	"verifharness/sim"
)

type bepFam struct {
	port int
}

// ---------------------------------------------------------------------------------- execution

func ipOf(v any) net.IP {
	b := byteList(v)
	if len(b) != 4 && len(b) != 16 {
		panic(fmt.Sprintf("address of %d bytes", len(b)))
	}
	return net.IP(b)
}

func (f *bepFam) conn() *sim.Conn {
	f.port++
	return sim.NewConn(fmt.Sprintf("192.0.2.1:%d", 10000+f.port%50000))
}

func (f *bepFam) exec(c M) M {
	var r M
	var body func()
	var compute func() M // Secure, Verify: the pure call, so that it can also be made from several goroutines at once
	switch op := str(c["e"]); op {
	case "Secure":
		r = args(c, "id", "ip")
		id, ip := krpc.ID(id20(c["id"])), ipOf(c["ip"])
		compute = func() M {
			a := id
			dht.SecureNodeId(&a, append(net.IP{}, ip...))
			b := a
			dht.SecureNodeId(&b, append(net.IP{}, ip...))
			return M{"res": sim.IDBytes(a), "res2": sim.IDBytes(b), "ver": dht.NodeIdSecure(a, append(net.IP{}, ip...))}
		}
	case "Verify":
		r = args(c, "id", "ip")
		id, ip := id20(c["id"]), ipOf(c["ip"])
		compute = func() M { return M{"res": dht.NodeIdSecure(id, ip)} }
	case "DetId":
		r = args(c, "ip", "port")
		ip, port := ipOf(c["ip"]), integer(c["port"])
		body = func() {
			r["res"] = sim.IDBytes(dht.MakeDeterministicNodeID(&net.UDPAddr{IP: ip, Port: port}))
		}
	case "InitId":
		r = args(c, "conn", "nosec", "preset", "pid", "ip")
		cfg := dht.ServerConfig{PublicIP: ipOf(c["ip"]), NoSecurity: boolean(c["nosec"])}
		if boolean(c["conn"]) {
			cfg.Conn = f.conn()
		}
		if boolean(c["preset"]) {
			cfg.NodeId = id20(c["pid"])
		}
		body = func() {
			r["det"] = cfg.InitNodeId()
			r["res"] = sim.IDBytes(cfg.NodeId)
		}
	case "ServerId":
		r = args(c, "ip", "nosec", "conn")
		cfg := dht.ServerConfig{PublicIP: ipOf(c["ip"]), NoSecurity: boolean(c["nosec"])}
		if boolean(c["conn"]) {
			cfg.Conn = f.conn()
		} // else NewServer opens its own UDP socket
		r["err"] = false
		r["res"] = sim.IDBytes(krpc.ID{})
		body = func() {
			s, err := dht.NewServer(&cfg)
			if err != nil {
				r["err"] = true
				r["emsg"] = err.Error()
				return
			}
			r["res"] = sim.IDBytes(s.ID())
			s.Close()
		}
	default:
		panic("unknown bep42 op " + op)
	}
	if compute != nil {
		body = func() {
			for k, v := range compute() {
				r[k] = v
			}
		}
		if par, ok := c["par"]; ok && integer(par) > 0 {
			// the same call from several goroutines at once, many times: these functions are used from lookups, the
			// table and the API concurrently. They are functions of their arguments, so every result must be the same;
			// if one is not, that one is recorded (and judged by the reference like any other)
			r["par"] = par
			body = func() {
				for k, v := range concurrently(integer(par), 300, compute) {
					r[k] = v
				}
			}
		}
	}
	if p, msg := guard(body); p {
		r["panic"] = true
		r["pmsg"] = msg
	}
	return r
}

func concurrently(g, iters int, compute func() M) M {
	type tally struct {
		m M
		n int
	}
	var mu sync.Mutex
	seen := map[string]*tally{}
	start := make(chan struct{})
	var wg sync.WaitGroup
	for i := 0; i < g; i++ {
		wg.Add(1)
		go func() {
			defer wg.Done()
			local := map[string]*tally{}
			<-start
			for j := 0; j < iters; j++ {
				m := compute()
				k := fmt.Sprint(m)
				if t := local[k]; t != nil {
					t.n++
				} else {
					local[k] = &tally{m, 1}
				}
			}
			mu.Lock()
			for k, t := range local {
				if s := seen[k]; s != nil {
					s.n += t.n
				} else {
					seen[k] = t
				}
			}
			mu.Unlock()
		}()
	}
	close(start)
	wg.Wait()
	var pick *tally
	for _, t := range seen { // the rarest outcome
		if pick == nil || t.n < pick.n {
			pick = t
		}
	}
	return pick.m
}

// ---------------------------------------------------------------------------------- generation

func mapped(ip4 []byte) []byte {
	return append([]byte{0, 0, 0, 0, 0, 0, 0, 0, 0, 0, 0xff, 0xff}, ip4...)
}

func u32ip(x uint32) []byte { return []byte{byte(x >> 24), byte(x >> 16), byte(x >> 8), byte(x)} }

// one address with one ID: secure it, verify the outcome and its near misses
func (f *bepFam) probe(out *emitter, rng *rand.Rand, id krpc.ID, ip []byte, near bool) {
	r := out.call(M{"e": "Secure", "id": idj(id), "ip": ints(ip)})
	out.call(M{"e": "Verify", "id": idj(id), "ip": ints(ip)})
	res, ok := r["res"].([]int)
	if !ok || len(res) != 20 {
		return
	}
	var s krpc.ID
	for i, x := range res {
		s[i] = byte(x)
	}
	out.call(M{"e": "Verify", "id": idj(s), "ip": ints(ip)})
	if !near {
		return
	}
	out.call(M{"e": "Verify", "id": idj(flip(s, rng.Intn(21))), "ip": ints(ip)}) // one of the 21 bits wrong
	out.call(M{"e": "Verify", "id": idj(flip(s, 21)), "ip": ints(ip)})           // bit 22 must not matter
	t := s
	t[19] = t[19]&^7 | (t[19]+1+byte(rng.Intn(7)))&7 // another r: the prefix no longer fits
	out.call(M{"e": "Verify", "id": idj(t), "ip": ints(ip)})
	t = s
	t[19] ^= byte(8 << uint(rng.Intn(5))) // upper bits of the last byte are not part of r
	t[3+rng.Intn(16)] ^= byte(1 + rng.Intn(255))
	out.call(M{"e": "Verify", "id": idj(t), "ip": ints(ip)})
}

func idWithSeed(rng *rand.Rand, seed int) krpc.ID {
	id := randID(rng)
	id[19] = id[19]&^7 | byte(seed&7)
	return id
}

var bepVectors = []struct {
	ip [4]byte
	id string
}{
	{[4]byte{124, 31, 75, 21}, "5fbfbff10c5d6a4ec8a88e4c6ab4c28b95eee401"},
	{[4]byte{21, 75, 31, 124}, "5a3ce9c14e7a08645677bbd1cfe7d8f956d53256"},
	{[4]byte{65, 23, 51, 170}, "a5d43220bc8f112a3d426c84764f8c2a1150e616"},
	{[4]byte{84, 124, 73, 14}, "1b0321dd1bb1fe518101ceef99462b947a01ff41"},
	{[4]byte{43, 213, 53, 83}, "e56f6cbf5b7c4be0237986d5243b87aa6d51305a"},
}

// first and last address of every exempt network and their outside neighbours
var bepEdges = [][]byte{
	{9, 255, 255, 255}, {10, 0, 0, 0}, {10, 255, 255, 255}, {11, 0, 0, 0},
	{172, 15, 255, 255}, {172, 16, 0, 0}, {172, 31, 255, 255}, {172, 32, 0, 0}, {172, 20, 1, 2},
	{192, 167, 255, 255}, {192, 168, 0, 0}, {192, 168, 255, 255}, {192, 169, 0, 0},
	{169, 253, 255, 255}, {169, 254, 0, 0}, {169, 254, 255, 255}, {169, 255, 0, 0},
	{126, 255, 255, 255}, {127, 0, 0, 0}, {127, 0, 0, 1}, {127, 255, 255, 255}, {128, 0, 0, 0},
	{0, 0, 0, 0}, {255, 255, 255, 255}, {1, 1, 1, 1}, {8, 8, 8, 8},
}

func v6(s string) []byte { return []byte(net.ParseIP(s).To16()) }

var bepV6 = [][]byte{
	v6("2001:db8::1"), v6("2a00:1450:4001:81b::200e"), v6("::"), v6("::1"), v6("::2"),
	v6("fe80::"), v6("fe80::1234"), v6("febf:ffff:ffff:ffff:ffff:ffff:ffff:ffff"), v6("fec0::"), v6("fe7f:ffff::1"),
	v6("ffff:ffff:ffff:ffff:ffff:ffff:ffff:ffff"), v6("fc00::1"), v6("fd12:3456::1"), v6("64:ff9b::102:304"),
	v6("::1.2.3.4"), v6("0:0:0:0:0:1:102:304"),
}

func (f *bepFam) generate(rng *rand.Rand, n int, out *emitter) {
	// (1) the BEP's vectors, as 4-byte and as IPv4-mapped addresses
	out.segment()
	for _, v := range bepVectors {
		var id krpc.ID
		if err := id.UnmarshalText([]byte(v.id)); err != nil {
			panic(err)
		}
		for _, ip := range [][]byte{v.ip[:], mapped(v.ip[:])} {
			out.call(M{"e": "Verify", "id": idj(id), "ip": ints(ip)})
			out.call(M{"e": "Verify", "id": idj(flip(id, 20)), "ip": ints(ip)})
			out.call(M{"e": "Verify", "id": idj(flip(id, 22)), "ip": ints(ip)})
			scr := randID(rng) // only the last byte of the published ID, everything else random
			scr[19] = id[19]
			f.probe(out, rng, scr, ip, true)
		}
	}
	// (2) every IPv4 address with at most one bit set x all eight values of r
	var sparse []uint32
	sparse = append(sparse, 0)
	for i := 0; i < 32; i++ {
		sparse = append(sparse, 1<<uint(i))
	}
	for _, a := range sparse {
		out.segment()
		for s := 0; s < 8; s++ {
			f.probe(out, rng, idWithSeed(rng, s), u32ip(a), s == int(a%8))
		}
	}
	// (3) every IPv4 address with two bits set: all eight r when the budget allows, one otherwise
	k := 0
	for i := 0; i < 32; i++ {
		out.segment()
		for j := i + 1; j < 32; j++ {
			a := uint32(1)<<uint(i) | uint32(1)<<uint(j)
			k++
			for s := 0; s < 8; s++ {
				if n < 8000 && s != k%8 {
					continue
				}
				f.probe(out, rng, idWithSeed(rng, s), u32ip(a), false)
			}
		}
	}
	// (4) edges of the exempt networks, both address forms, several IDs; IPv6 samples
	for _, e := range bepEdges {
		out.segment()
		for _, ip := range [][]byte{e, mapped(e)} {
			for s := 0; s < 3; s++ {
				f.probe(out, rng, idWithSeed(rng, rng.Intn(8)), ip, s == 0)
			}
		}
	}
	for _, ip := range bepV6 {
		out.segment()
		for s := 0; s < 4; s++ {
			f.probe(out, rng, idWithSeed(rng, s*2+rng.Intn(2)), ip, s == 0)
		}
	}
	// (5) seeded random (ID, address) pairs
	for i := 0; i < n; i++ {
		if i%32 == 0 {
			out.segment()
		}
		var ip []byte
		switch rng.Intn(8) {
		case 0:
			ip = make([]byte, 16)
			rng.Read(ip)
		case 1:
			ip = make([]byte, 16)
			rng.Read(ip[:8+rng.Intn(9)]) // sparse low half
		case 2:
			ip = mapped(u32ip(rng.Uint32()))
		case 3: // inside or next to an exempt range
			e := bepEdges[rng.Intn(len(bepEdges))]
			ip = []byte{e[0], e[1], byte(rng.Intn(256)), byte(rng.Intn(256))}
		default:
			ip = u32ip(rng.Uint32())
		}
		f.probe(out, rng, randID(rng), ip, i%4 == 0)
	}
	// (6) IDs the node generates for itself
	var pool [][]byte
	for _, v := range bepVectors {
		pool = append(pool, v.ip[:], mapped(v.ip[:]))
	}
	pool = append(pool, bepEdges...)
	pool = append(pool, bepV6...)
	nc := 16 + n/20
	for i := 0; i < nc; i++ {
		if i%16 == 0 {
			out.segment()
		}
		var ip []byte
		if i < len(pool) {
			ip = pool[i]
		} else if rng.Intn(3) == 0 {
			ip = make([]byte, 16)
			rng.Read(ip)
		} else {
			ip = u32ip(rng.Uint32())
		}
		out.call(M{"e": "DetId", "ip": ints(ip), "port": 1 + rng.Intn(65535)})
		for _, conn := range []bool{true, false} {
			for _, nosec := range []bool{false, true} {
				out.call(M{"e": "InitId", "conn": conn, "nosec": nosec, "preset": false, "pid": idj(krpc.ID{}), "ip": ints(ip)})
			}
		}
		if i%4 == 0 {
			out.call(M{"e": "InitId", "conn": rng.Intn(2) == 0, "nosec": rng.Intn(2) == 0, "preset": true, "pid": idj(randID(rng)), "ip": ints(ip)})
		}
		if i%8 == 0 {
			pip := ip
			if i%16 == 0 {
				pip = bepVectors[(i/16)%len(bepVectors)].ip[:] // certainly not an exempt address
			}
			for j := 0; j < 24; j++ {
				out.call(M{"e": "Secure", "id": idj(randID(rng)), "ip": ints(pip), "par": 8})
			}
			out.call(M{"e": "Verify", "id": idj(randID(rng)), "ip": ints(pip), "par": 8})
		}
		if i%2 == 0 || i < len(pool) {
			out.call(M{"e": "ServerId", "ip": ints(ip), "nosec": i%4 < 2, "conn": i%3 != 0})
		}
	}
}
