package main

// Input generation for C15: message shapes (presence subsets x value variants per field), mutated
// and hand-made datagrams, compact strings of every length 0..4*size+1, inputs of the directly
// callable decoders, node files.

import (
	"fmt"
	"math/rand"
	"strconv"

	"verifharness/sim"
)

func rbytes(rng *rand.Rand, n int) []byte {
	b := make([]byte, n)
	rng.Read(b)
	return b
}

func pick[T any](rng *rand.Rand, xs ...T) T { return xs[rng.Intn(len(xs))] }

var (
	ip4s = [][]byte{{1, 2, 3, 4}, {0, 0, 0, 0}, {255, 255, 255, 255}, {10, 0, 0, 1}, {203, 0, 113, 77}}
	ip4m = [][]byte{mapped([]byte{1, 2, 3, 4}), mapped([]byte{203, 0, 113, 77})}
	ip6s = [][]byte{v6("2001:db8::1"), v6("::"), v6("ffff:ffff:ffff:ffff:ffff:ffff:ffff:ffff"), v6("fe80::1"), mapped([]byte{9, 9, 9, 9})}
)

func genPort(rng *rand.Rand) int { return pick(rng, 0, 1, 80, 6881, 65535, rng.Intn(65536)) }

func genInt(rng *rand.Rand) string {
	return pick(rng, "1", "-1", "2", "255", "65536", "2147483647", "-2147483648", "9223372036854775807", "-9223372036854775808",
		strconv.FormatInt(rng.Int63()-rng.Int63(), 10))
}

func genStr(rng *rand.Rand) string {
	switch rng.Intn(6) {
	case 0:
		return hx([]byte("aa"))
	case 1:
		return hx([]byte{0})
	case 2:
		return hx([]byte("0:e")) // looks like bencode
	case 3:
		return hx(rbytes(rng, 1+rng.Intn(8)))
	case 4:
		return hx(rbytes(rng, 20))
	default:
		return hx([]byte(pick(rng, "ping", "find_node", "get_peers", "announce_peer", "get", "put", "sample_infohashes", "q", "r", "e")))
	}
}

func genNode(rng *rand.Rand, fam int) M {
	var ip []byte
	switch fam {
	case 4:
		if rng.Intn(4) == 0 {
			ip = pick(rng, ip4m...)
		} else if rng.Intn(2) == 0 {
			ip = pick(rng, ip4s...)
		} else {
			ip = rbytes(rng, 4)
		}
	default:
		if rng.Intn(2) == 0 {
			ip = pick(rng, ip6s...)
		} else {
			ip = rbytes(rng, 16)
		}
	}
	id := rbytes(rng, 20)
	if rng.Intn(8) == 0 {
		id = make([]byte, 20)
	}
	return M{"id": hexz(id), "ip": ints(ip), "port": genPort(rng)}
}

func genNodes(rng *rand.Rand, fam int) M {
	switch rng.Intn(5) {
	case 0:
		return M{"p": true, "l": []M{}} // empty, not nil
	case 1:
		return M{"p": true, "l": []M{genNode(rng, fam)}}
	default:
		n := 1 + rng.Intn(8)
		l := make([]M, n)
		for i := range l {
			l[i] = genNode(rng, fam)
		}
		return M{"p": true, "l": l}
	}
}

// canonical bencode values for the BEP 44 "v" argument
func genAny(rng *rand.Rand, depth int) sim.Value {
	switch k := rng.Intn(8); {
	case k < 2:
		return int64(pick(rng, 0, 1, -1, 1<<31, -(1 << 40), rng.Intn(1000)))
	case k < 5 || depth > 2:
		return pick(rng, []byte(""), []byte("x"), []byte("Hello World!"), rbytes(rng, rng.Intn(40)))
	case k < 6:
		l := []sim.Value{}
		for i := rng.Intn(3); i > 0; i-- {
			l = append(l, genAny(rng, depth+1))
		}
		return l
	default:
		d := sim.NewDict()
		for i := rng.Intn(3); i > 0; i-- {
			d.Set(pick(rng, "a", "b", "zz", "", "k"), genAny(rng, depth+1))
		}
		return d
	}
}

func zeroArgs() M {
	return M{"id": "", "info_hash": "", "target": "", "token": "", "port": M{"p": false, "d": "0"}, "implied_port": false,
		"want": M{"p": false, "l": []string{}}, "noseed": "0", "scrape": "0", "v": M{"p": false, "s": ""},
		"seq": M{"p": false, "d": "0"}, "cas": "0", "k": "", "salt": M{"p": false, "h": ""}, "sig": ""}
}

func zeroRet() M {
	return M{"id": "", "nodes": M{"p": false, "l": []M{}}, "nodes6": M{"p": false, "l": []M{}}, "token": M{"p": false, "h": ""},
		"values": M{"p": false, "l": []M{}}, "BFsd": M{"p": false, "h": ""}, "BFpe": M{"p": false, "h": ""},
		"interval": M{"p": false, "d": "0"}, "num": M{"p": false, "d": "0"}, "samples": M{"p": false, "q": false, "l": []string{}},
		"v": M{"p": false, "h": ""}, "k": "", "sig": "", "seq": M{"p": false, "d": "0"}}
}

func zeroMsg() M {
	return M{"q": "", "t": "", "y": "", "v": "", "ro": false, "ip": M{"p": false, "ip": []int{}, "port": 0},
		"a": M{"p": false}, "r": M{"p": false}, "e": M{"p": false, "code": "0", "msg": ""}}
}

var argsKeys = []string{"id", "info_hash", "target", "token", "port", "implied_port", "want", "noseed", "scrape", "v", "seq", "cas", "k", "salt", "sig"}
var retKeys = []string{"id", "nodes", "nodes6", "token", "values", "BFsd", "BFpe", "interval", "num", "samples", "v", "k", "sig", "seq"}
var msgKeys = []string{"q", "a", "t", "y", "r", "e", "ip", "ro", "v"}

// a present value for one args field; variant 0 is the "present but as empty as possible" form
func genArgsField(rng *rand.Rand, k string, variant int) any {
	switch k {
	case "id", "info_hash", "target":
		return hx(rbytes(rng, 20))
	case "token":
		return genStr(rng)
	case "port":
		if variant == 0 {
			return M{"p": true, "d": "0"}
		}
		return M{"p": true, "d": pick(rng, "6881", "1", "65535", "-1", "70000")}
	case "implied_port":
		return true
	case "want":
		if variant == 0 {
			return M{"p": true, "l": []string{}}
		}
		return M{"p": true, "l": pick(rng, []string{hx([]byte("n4"))}, []string{hx([]byte("n4")), hx([]byte("n6"))}, []string{hx([]byte("n6")), "", hx([]byte("zz"))})}
	case "noseed", "scrape", "cas":
		return genInt(rng)
	case "v":
		return M{"p": true, "s": hx(sim.Encode(genAny(rng, 0)))}
	case "seq":
		if variant == 0 {
			return M{"p": true, "d": "0"}
		}
		return M{"p": true, "d": genInt(rng)}
	case "k":
		return hx(rbytes(rng, 32))
	case "sig":
		return hx(rbytes(rng, 64))
	case "salt":
		if variant == 0 {
			return M{"p": true, "h": ""}
		}
		return M{"p": true, "h": hx(rbytes(rng, 1+rng.Intn(64)))}
	}
	panic(k)
}

func genRetField(rng *rand.Rand, k string, variant int) any {
	switch k {
	case "id":
		return hx(rbytes(rng, 20))
	case "nodes":
		if variant == 0 {
			return M{"p": true, "l": []M{}}
		}
		return genNodes(rng, 4)
	case "nodes6":
		if variant == 0 {
			return M{"p": true, "l": []M{}}
		}
		return genNodes(rng, 6)
	case "token":
		if variant == 0 {
			return M{"p": true, "h": ""}
		}
		return M{"p": true, "h": genStr(rng)}
	case "values":
		if variant == 0 {
			return M{"p": true, "l": []M{}}
		}
		n := 1 + rng.Intn(5)
		l := make([]M, n)
		for i := range l {
			ip := pick(rng, pick(rng, ip4s...), pick(rng, ip6s...), rbytes(rng, 4), rbytes(rng, 16))
			if rng.Intn(12) == 0 {
				ip = rbytes(rng, pick(rng, 0, 1, 5, 17)) // BEP 5 does not forbid it and the codec carries any length
			}
			l[i] = M{"ip": ints(ip), "port": genPort(rng)}
		}
		return M{"p": true, "l": l}
	case "BFsd", "BFpe":
		if variant == 0 {
			return M{"p": true, "h": ""}
		}
		return M{"p": true, "h": hx(rbytes(rng, 256))}
	case "interval", "num", "seq":
		if variant == 0 {
			return M{"p": true, "d": "0"}
		}
		return M{"p": true, "d": genInt(rng)}
	case "samples":
		switch {
		case variant == 0:
			return M{"p": true, "q": false, "l": []string{}}
		case rng.Intn(4) == 0:
			return M{"p": true, "q": true, "l": []string{}}
		}
		n := 1 + rng.Intn(4)
		l := make([]string, n)
		for i := range l {
			l[i] = hexz(rbytes(rng, 20))
		}
		return M{"p": true, "q": true, "l": l}
	case "v":
		return M{"p": true, "h": hx(sim.Encode(genAny(rng, 0)))}
	case "k":
		return hx(rbytes(rng, 32))
	case "sig":
		return hx(rbytes(rng, 64))
	}
	panic(k)
}

func genTopField(rng *rand.Rand, k string, variant int) any {
	switch k {
	case "q", "t", "v":
		return genStr(rng)
	case "y":
		return hx([]byte(pick(rng, "q", "r", "e", "x")))
	case "ro":
		return true
	case "ip":
		switch {
		case variant == 0:
			return M{"p": true, "ip": []int{}, "port": 0} // empty, not nil
		case rng.Intn(6) == 0:
			return M{"p": false, "ip": []int{}, "port": genPort(rng)} // port only
		case rng.Intn(2) == 0:
			return M{"p": true, "ip": ints(pick(rng, ip4s...)), "port": genPort(rng)}
		}
		return M{"p": true, "ip": ints(pick(rng, ip6s...)), "port": genPort(rng)}
	case "e":
		if variant == 0 {
			return M{"p": true, "code": "0", "msg": ""}
		}
		return M{"p": true, "code": pick(rng, "201", "202", "203", "204", "205", "301", "302", "-1", "2147483647"), "msg": genStr(rng)}
	case "a":
		if variant == 0 {
			return M{"p": true, "f": zeroArgs()}
		}
		return M{"p": true, "f": genArgs(rng, 0.4)}
	case "r":
		if variant == 0 {
			return M{"p": true, "f": zeroRet()}
		}
		return M{"p": true, "f": genRet(rng, 0.4)}
	}
	panic(k)
}

// every field present with probability pr
func genArgs(rng *rand.Rand, pr float64) M {
	a := zeroArgs()
	for _, k := range argsKeys {
		if rng.Float64() < pr {
			a[k] = genArgsField(rng, k, rng.Intn(3))
		}
	}
	return a
}

func genRet(rng *rand.Rand, pr float64) M {
	r := zeroRet()
	for _, k := range retKeys {
		if rng.Float64() < pr {
			r[k] = genRetField(rng, k, rng.Intn(3))
		}
	}
	return r
}

func genMsg(rng *rand.Rand, pr float64) M {
	m := zeroMsg()
	for _, k := range msgKeys {
		if rng.Float64() < pr {
			m[k] = genTopField(rng, k, rng.Intn(3))
		}
	}
	return m
}

func withField(base M, k string, v any) M {
	r := cp(base)
	r[k] = v
	return r
}

func queryMsg(rng *rand.Rand, q string, a M) M {
	m := zeroMsg()
	m["q"], m["y"], m["t"] = hx([]byte(q)), hx([]byte("q")), hx(rbytes(rng, 1+rng.Intn(4)))
	a["id"] = hx(rbytes(rng, 20))
	m["a"] = M{"p": true, "f": a}
	if rng.Intn(4) == 0 {
		m["ro"] = true
	}
	if rng.Intn(4) == 0 {
		m["v"] = hx([]byte("UT\x00\x01"))
	}
	return m
}

func replyMsg(rng *rand.Rand, r M) M {
	m := zeroMsg()
	m["y"], m["t"] = hx([]byte("r")), hx(rbytes(rng, 1+rng.Intn(4)))
	r["id"] = hx(rbytes(rng, 20))
	m["r"] = M{"p": true, "f": r}
	if rng.Intn(2) == 0 {
		m["ip"] = M{"p": true, "ip": ints(pick(rng, ip4s...)), "port": genPort(rng)}
	}
	return m
}

// mutation operators on a valid encoding
func mutate(rng *rand.Rand, b []byte) []byte {
	b = append([]byte{}, b...)
	if len(b) == 0 {
		return []byte{byte(rng.Intn(256))}
	}
	switch rng.Intn(9) {
	case 0: // truncate
		return b[:rng.Intn(len(b))]
	case 1: // flip one byte
		b[rng.Intn(len(b))] ^= byte(1 + rng.Intn(255))
	case 2: // delete one byte
		i := rng.Intn(len(b))
		return append(b[:i], b[i+1:]...)
	case 3: // insert one byte
		i := rng.Intn(len(b) + 1)
		return append(b[:i], append([]byte{pick(rng, byte('e'), byte('d'), byte('l'), byte('i'), byte('0'), byte('1'), byte(':'), byte(rng.Intn(256)))}, b[i:]...)...)
	case 4: // trailing bytes
		return append(b, pick(rng, []byte("e"), []byte("de"), []byte{0}, rbytes(rng, 3))...)
	case 5: // change a digit (lengths, numbers)
		for tries := 0; tries < 20; tries++ {
			i := rng.Intn(len(b))
			if b[i] >= '0' && b[i] <= '9' {
				b[i] = byte('0' + rng.Intn(10))
				break
			}
		}
	case 6: // swap a type letter
		for tries := 0; tries < 20; tries++ {
			i := rng.Intn(len(b))
			if b[i] == 'd' || b[i] == 'l' || b[i] == 'i' || b[i] == 'e' {
				b[i] = pick(rng, byte('d'), byte('l'), byte('i'), byte('e'))
				break
			}
		}
	case 7: // duplicate a slice of the message in place
		i := rng.Intn(len(b))
		j := i + rng.Intn(len(b)-i)
		return append(b[:j], append(append([]byte{}, b[i:j]...), b[j:]...)...)
	default: // overwrite a run with random bytes
		i := rng.Intn(len(b))
		n := 1 + rng.Intn(6)
		for k := i; k < len(b) && k < i+n; k++ {
			b[k] = byte(rng.Intn(256))
		}
	}
	return b
}

// hand-made datagrams around the decoders' special cases
// errorLists: KRPC error lists whose first two (and an optional third) elements take every bencode kind,
// bare (for Error.UnmarshalBencode) or wrapped in a datagram (pre ... post).
func errorLists(pre, post string) (out [][]byte) {
	kinds := []string{"i201e", "i-7e", "1:x", "0:", "le", "li1ee", "de", "d1:ai1ee"}
	for _, a := range kinds {
		for _, b := range kinds {
			out = append(out, []byte(pre+"l"+a+b+"e"+post), []byte(pre+"l"+a+b+"i3ee"+post))
		}
		out = append(out, []byte(pre+"l"+a+"e"+post))
	}
	return
}

func handMade() [][]byte {
	id := "abcdefghij0123456789"
	s := []string{
		"", "d", "e", "de", "le", "i0e", "0:", "d1:t0:1:y0:e", "d1:t1:a1:y1:qe",
		"d1:ad2:id20:" + id + "e1:q4:ping1:t2:aa1:y1:qe",
		"d1:ad2:id19:" + id[:19] + "e1:q4:ping1:t2:aa1:y1:qe",
		"d1:ad2:id21:" + id + "xe1:q4:ping1:t2:aa1:y1:qe",
		"d1:ai5e1:q4:ping1:t2:aa1:y1:qe", "d1:ale1:t1:x1:y1:qe", "d1:a0:1:t1:x1:y1:qe",
		"d1:ald2:id20:" + id + "ee1:t1:x1:y1:qe", // singleton list where a dict is expected
		"d1:eli201e1:xe1:t1:x1:y1:ee", "d1:eli201ee1:t1:x1:y1:ee", "d1:ele1:t1:x1:y1:ee", "d1:e5:hello1:t1:x1:y1:ee",
		"d1:el1:xi201ee1:t1:x1:y1:ee", "d1:ei5e1:t1:x1:y1:ee", "d1:ede1:t1:x1:y1:ee", "d1:eli201e1:xi7ee1:t1:x1:y1:ee",
		"d1:eli99999999999999999999e1:xe1:t1:x1:y1:ee",
		"d2:ip6:\x01\x02\x03\x04\x1a\xe11:t1:x1:y1:re", "d2:ip1:x1:t1:x1:y1:re", "d2:ip0:1:t1:x1:y1:re", "d2:ip2:\x00\x001:t1:x1:y1:re",
		"d2:ipi1e1:t1:x1:y1:re", "d2:roi1e1:t1:x1:y1:qe", "d2:roi0e1:t1:x1:y1:qe", "d2:roi-7e1:t1:x1:y1:qe", "d2:ro1:11:t1:x1:y1:qe",
		"d1:rd2:id20:" + id + "5:nodes0:e1:t1:x1:y1:re", "d1:rd2:id20:" + id + "5:nodes25:" + id + "12345e1:t1:x1:y1:re",
		"d1:rd2:id20:" + id + "5:nodes26:" + id + "123456e1:t1:x1:y1:re", "d1:rd2:id20:" + id + "6:nodes638:" + id + "123456789012345678e1:t1:x1:y1:re",
		"d1:rd2:id20:" + id + "6:nodes637:" + id + "12345678901234567e1:t1:x1:y1:re",
		"d1:rd2:id20:" + id + "6:valuesl6:abcdef18:abcdefghijklmnopqree1:t1:x1:y1:re",
		"d1:rd2:id20:" + id + "6:valuesl1:aee1:t1:x1:y1:re", "d1:rd2:id20:" + id + "6:valuesl2:abee1:t1:x1:y1:re",
		"d1:rd2:id20:" + id + "6:valuesli5eee1:t1:x1:y1:re", "d1:rd2:id20:" + id + "6:values6:abcdefe1:t1:x1:y1:re",
		"d1:rd2:id20:" + id + "7:samples0:e1:t1:x1:y1:re", "d1:rd2:id20:" + id + "7:samples19:" + id[:19] + "e1:t1:x1:y1:re",
		"d1:rd2:id20:" + id + "4:BFsd3:abce1:t1:x1:y1:re", "d1:rd2:id20:" + id + "1:k3:abc3:seqi-1e1:vi5ee1:t1:x1:y1:re",
		"d1:rd2:id20:" + id + "1:v0:e1:t1:x1:y1:re", "d1:rd2:id20:" + id + "1:vd1:ai1eee1:t1:x1:y1:re",
		"d1:rd2:id20:" + id + "5:token0:e1:t1:x1:y1:re", "d1:rd2:id20:" + id + "5:tokeni5ee1:t1:x1:y1:re",
		"d1:ad2:id20:" + id + "4:wantl2:n42:n6ee1:q9:find_node1:t1:x1:y1:qe", "d1:ad2:id20:" + id + "4:wantlee1:q9:find_node1:t1:x1:y1:qe",
		"d1:ad2:id20:" + id + "4:want2:n4e1:q9:find_node1:t1:x1:y1:qe", "d1:ad2:id20:" + id + "4:wantli4eee1:q9:find_node1:t1:x1:y1:qe",
		"d1:ad2:id20:" + id + "4:porti-1ee1:q13:announce_peer1:t1:x1:y1:qe", "d1:ad2:id20:" + id + "4:porti99999999999999999999ee1:q1:x1:t1:x1:y1:qe",
		"d1:ad2:id20:" + id + "1:vi99999999999999999999ee1:q3:put1:t1:x1:y1:qe", "d1:ad2:id20:" + id + "1:vlee1:q3:put1:t1:x1:y1:qe",
		"d1:ad2:id20:" + id + "1:vd1:b1:x1:a1:yee1:q3:put1:t1:x1:y1:qe", // unsorted keys inside v
		"d1:ad2:id20:" + id + "3:seqi1e3:seqi2ee1:q3:put1:t1:x1:y1:qe",  // duplicate key
		"d1:ad2:id20:" + id + "4:salt0:e1:q3:put1:t1:x1:y1:qe", "d1:ad2:id20:" + id + "1:k32:" + id + "abcdefghijkle1:q3:put1:t1:x1:y1:qe",
		"d1:ad2:id20:" + id + "1:k33:" + id + "abcdefghijklme1:q3:put1:t1:x1:y1:qe", "d1:ad2:id20:" + id + "1:k0:e1:q3:put1:t1:x1:y1:qe",
		"d1:y1:q1:t1:x1:ad2:id20:" + id + "ee", // unsorted top level
		"d1:t1:x1:y1:q", "d1:t1:x1:y1:qee", "d1:t1:x1:y1:qe1:z", "d1:t1:x1:yi5ee", "d1:tle1:y1:qe", "d1:tl1:xe1:y1:qe", "di1e1:xe", "d1:t", "d1:t5:ab",
		"d1:t-1:1:y1:qe", "d1:t01:x1:y1:qe", "d1:t99999999999:x1:y1:qe", "d1:t134217728:x1:y1:qe", "d1:ti-0e1:y1:qe", "d1:ad2:idi03eee",
		"llllllllllllllllllllllllllllllllleeeeeeeeeeeeeeeeeeeeeeeeeeeeeeeee", "d1:adddddddddddddddddddddddd",
		"d1:zd1:zd1:zd1:zd1:zdeeeee1:t1:x1:y1:qe", "d4:xxxxi5e1:t1:x1:y1:qe", "d1:t1:x1:y1:q1:zlllleeeee",
	}
	r := make([][]byte, len(s))
	for i := range s {
		r[i] = []byte(s[i])
	}
	return append(r, errorLists("d1:e", "1:t1:x1:y1:ee")...)
}

var compactTypes = []struct {
	ty   string
	size int
}{{"nodes4", 26}, {"nodes6", 38}, {"addrs4", 6}, {"addrs6", 18}, {"hashes", 20}}

func (f *codecFam) generate(rng *rand.Rand, n int, out *emitter) {
	var encodings [][]byte
	rt := func(in M) {
		r := out.call(M{"e": "MsgRT", "in": in})
		if r["encOk"] == true && f.lastWire != nil && len(encodings) < 4000 {
			encodings = append(encodings, f.lastWire) // input of the mutation stage
		}
	}
	// (1) structured shapes: nothing, every field alone in each variant, everything, all but one
	out.segment()
	rt(zeroMsg())
	for _, k := range msgKeys {
		for v := 0; v < 3; v++ {
			rt(withField(zeroMsg(), k, genTopField(rng, k, v)))
		}
	}
	out.segment()
	for _, k := range argsKeys {
		for v := 0; v < 3; v++ {
			rt(queryMsg(rng, "x", withField(zeroArgs(), k, genArgsField(rng, k, v))))
		}
	}
	out.segment()
	for _, k := range retKeys {
		for v := 0; v < 3; v++ {
			rt(replyMsg(rng, withField(zeroRet(), k, genRetField(rng, k, v))))
		}
	}
	out.segment()
	for v := 0; v < 3; v++ {
		rt(genMsg(rng, 1))
		full := genArgs(rng, 1)
		rt(queryMsg(rng, "put", full))
		for _, k := range argsKeys {
			rt(queryMsg(rng, "put", withField(full, k, zeroArgs()[k])))
		}
		fullr := genRet(rng, 1)
		rt(replyMsg(rng, fullr))
		for _, k := range retKeys {
			rt(replyMsg(rng, withField(fullr, k, zeroRet()[k])))
		}
	}
	// (2) the message forms of BEP 5 / 32 / 33 / 43 / 44 / 51
	out.segment()
	for i := 0; i < 8+n/40; i++ {
		rt(queryMsg(rng, "ping", zeroArgs()))
		rt(queryMsg(rng, "find_node", withField(withField(zeroArgs(), "target", hx(rbytes(rng, 20))), "want", genArgsField(rng, "want", 1+rng.Intn(2)))))
		gp := withField(zeroArgs(), "info_hash", hx(rbytes(rng, 20)))
		if rng.Intn(2) == 0 {
			gp["noseed"], gp["scrape"] = "1", "1"
		}
		rt(queryMsg(rng, "get_peers", gp))
		ap := withField(withField(zeroArgs(), "info_hash", hx(rbytes(rng, 20))), "token", genStr(rng))
		ap["port"] = genArgsField(rng, "port", rng.Intn(2))
		ap["implied_port"] = rng.Intn(2) == 0
		rt(queryMsg(rng, "announce_peer", ap))
		rt(queryMsg(rng, "get", withField(withField(zeroArgs(), "target", hx(rbytes(rng, 20))), "seq", genArgsField(rng, "seq", rng.Intn(2)))))
		put := zeroArgs()
		for _, k := range []string{"token", "v", "seq", "cas", "k", "salt", "sig"} {
			if rng.Intn(4) != 0 {
				put[k] = genArgsField(rng, k, rng.Intn(3))
			}
		}
		rt(queryMsg(rng, "put", put))
		rt(queryMsg(rng, "sample_infohashes", withField(zeroArgs(), "target", hx(rbytes(rng, 20)))))
		rep := zeroRet()
		for _, k := range []string{"nodes", "nodes6", "token", "values"} {
			if rng.Intn(3) != 0 {
				rep[k] = genRetField(rng, k, rng.Intn(3))
			}
		}
		rt(replyMsg(rng, rep))
		sc := zeroRet()
		sc["BFsd"], sc["BFpe"] = genRetField(rng, "BFsd", rng.Intn(2)), genRetField(rng, "BFpe", 1)
		rt(replyMsg(rng, sc))
		b51 := zeroRet()
		for _, k := range []string{"interval", "num", "samples", "nodes"} {
			b51[k] = genRetField(rng, k, rng.Intn(3))
		}
		rt(replyMsg(rng, b51))
		b44 := zeroRet()
		for _, k := range []string{"v", "k", "sig", "seq", "token", "nodes"} {
			if rng.Intn(4) != 0 {
				b44[k] = genRetField(rng, k, rng.Intn(3))
			}
		}
		rt(replyMsg(rng, b44))
		em := zeroMsg()
		em["y"], em["t"], em["e"] = hx([]byte("e")), genStr(rng), genTopField(rng, "e", rng.Intn(2))
		rt(em)
	}
	// (3) seeded presence subsets with seeded variants
	for i := 0; i < n; i++ {
		if i%32 == 0 {
			out.segment()
		}
		switch i % 4 {
		case 0:
			rt(queryMsg(rng, "q", genArgs(rng, pick(rng, 0.2, 0.5, 0.8))))
		case 1:
			rt(replyMsg(rng, genRet(rng, pick(rng, 0.2, 0.5, 0.8))))
		default:
			rt(genMsg(rng, pick(rng, 0.3, 0.6, 0.9)))
		}
	}
	// (4) shapes outside the round-trip clause (contacts of the wrong family, ports that do not fit):
	// only "decoding never panics" is asked of them
	out.segment()
	for i := 0; i < 12; i++ {
		r := zeroRet()
		switch i % 4 {
		case 0:
			r["nodes"] = M{"p": true, "l": []M{genNode(rng, 6)}}
		case 1:
			r["nodes6"] = M{"p": true, "l": []M{{"id": "", "ip": ints(rbytes(rng, 5)), "port": 1}}}
		case 2:
			r["values"] = M{"p": true, "l": []M{{"ip": []int{1, 2, 3, 4}, "port": 70000}}}
		default:
			r["v"] = M{"p": true, "h": ""}
		}
		rt(replyMsg(rng, r))
	}
	// (5) byte strings: hand-made, mutated valid encodings, random
	out.segment()
	for _, b := range handMade() {
		out.call(M{"e": "MsgDec", "src": "hand", "hex": hx(b)})
	}
	nm := 3 * n
	for i := 0; i < nm && len(encodings) > 0; i++ {
		if i%64 == 0 {
			out.segment()
		}
		b := mutate(rng, encodings[rng.Intn(len(encodings))])
		if rng.Intn(4) == 0 {
			b = mutate(rng, b)
		}
		out.call(M{"e": "MsgDec", "src": "mut", "hex": hx(b)})
	}
	out.segment()
	for i := 0; i < 40+n/20; i++ {
		out.call(M{"e": "MsgDec", "src": "rand", "hex": hx(rbytes(rng, rng.Intn(64)))})
		out.call(M{"e": "MsgDec", "src": "rand", "hex": hx(sim.Encode(genAny(rng, 0)))})
	}
	// (6) compact formats: every length 0..4*size+1, through both entry points; then longer ones
	for _, ct := range compactTypes {
		out.segment()
		for l := 0; l <= 4*ct.size+1; l++ {
			for _, via := range []string{"bin", "benc"} {
				out.call(M{"e": "Compact", "ty": ct.ty, "via": via, "in": ints(rbytes(rng, l))})
			}
		}
		for i := 0; i < 10+n/100; i++ {
			l := ct.size*(5+rng.Intn(20)) + pick(rng, 0, 0, 0, 1, -1, ct.size/2)
			out.call(M{"e": "Compact", "ty": ct.ty, "via": pick(rng, "bin", "benc"), "in": ints(rbytes(rng, l))})
		}
		// entries with remarkable addresses (IPv4-mapped, unspecified, all ones, loopback-like) and ports 0 / 65535
		if ct.ty != "hashes" {
			pool := ip4s
			if ct.size == 18 || ct.size == 38 {
				pool = append(append([][]byte{}, ip6s...), ip4m...)
			}
			for i := 0; i < 12+n/200; i++ {
				var pl []byte
				for k := 1 + rng.Intn(4); k > 0; k-- {
					if ct.size == 26 || ct.size == 38 {
						pl = append(pl, rbytes(rng, 20)...)
					}
					pl = append(pl, pool[rng.Intn(len(pool))]...)
					port := genPort(rng)
					pl = append(pl, byte(port>>8), byte(port))
				}
				for _, via := range []string{"bin", "benc"} {
					out.call(M{"e": "Compact", "ty": ct.ty, "via": via, "in": ints(pl)})
				}
			}
		}
	}
	// (7) every exported decoder called directly: all short lengths, bencode strings of all short
	// lengths, other bencode values, damaged bencode
	junk := [][]byte{[]byte(""), []byte("e"), []byte("i5e"), []byte("i-0e"), []byte("le"), []byte("de"), []byte("l1:ae"), []byte("d1:a1:be"),
		[]byte("5:ab"), []byte("5"), []byte("5:"), []byte(":"), []byte("-1:"), []byte("01:a"), []byte("99999999999:"), []byte("134217727:x"),
		[]byte("li201e1:xe"), []byte("li201ee"), []byte("l1:xi201ee"), []byte("li201e1:xi5ee"), []byte("lli201eee"), []byte("li99999999999999999999e1:xe"),
		[]byte("1:x"), []byte("0:"), []byte("20:abcdefghij0123456789x"), []byte("lllllllllleeeeeeeeee"), []byte("i"), []byte("ie"), []byte("l"), []byte("d1:a")}
	junk = append(junk, errorLists("", "")...)
	for _, fn := range directFns {
		out.segment()
		for l := 0; l <= 4*38+1; l++ {
			pl := rbytes(rng, l)
			out.call(M{"e": "Direct", "fn": fn, "cls": "raw", "n": l, "hex": hx(pl)})
			out.call(M{"e": "Direct", "fn": fn, "cls": "str", "n": l, "hex": hx(sim.Encode(pl))})
		}
		for l := 0; l <= 44; l++ {
			out.call(M{"e": "Direct", "fn": fn, "cls": "hex", "n": l, "hex": hx([]byte(hx(rbytes(rng, (l+1)/2))[:l]))})
		}
		for _, j := range junk {
			out.call(M{"e": "Direct", "fn": fn, "cls": "junk", "n": len(j), "hex": hx(j)})
		}
		// well-formed bencode strings of the remarkable payload lengths, cut short at every point (a decoder called
		// directly - not through the bencode library, which only hands over complete values - sees these)
		for _, l := range []int{0, 1, 4, 6, 16, 18, 19, 20, 21, 26, 38, 40, 52} {
			full := sim.Encode(rbytes(rng, l))
			for cut := 0; cut < len(full); cut++ {
				out.call(M{"e": "Direct", "fn": fn, "cls": "junk", "n": cut, "hex": hx(full[:cut])})
			}
		}
		for i := 0; i < 20+n/50; i++ {
			out.call(M{"e": "Direct", "fn": fn, "cls": "junk", "n": 0, "hex": hx(mutate(rng, sim.Encode(genAny(rng, 0))))})
		}
	}
	// (8) the nodes file
	out.segment()
	for i := 0; i < 12+n/50; i++ {
		k := rng.Intn(10)
		if i == 0 {
			k = 0
		}
		ns := make([]M, k)
		for j := range ns {
			ns[j] = genNode(rng, pick(rng, 4, 6))
		}
		out.call(M{"e": "NodesFile", "in": ns})
		if rng.Intn(2) == 0 {
			out.call(M{"e": "NodesFile", "in": ns, "pre": fmt.Sprint(26*(len(ns)+1+rng.Intn(4)) + pick(rng, 0, 0, 7))})
		}
	}
	for l := 0; l <= 4*38+1; l++ {
		out.call(M{"e": "NodesFileRaw", "hex": hx(rbytes(rng, l))})
	}
	_ = fmt.Sprint
}
