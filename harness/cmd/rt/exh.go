package main

import (
	"context"
	"encoding/json"
	"fmt"
	"math/rand"
	"net"
	"sort"
	"strings"
	"time"

	"github.com/anacrolix/dht/v2"
	"github.com/anacrolix/dht/v2/krpc"
	"github.com/anacrolix/log"
	"golang.org/x/time/rate"

	"verifharness/sim"
)

// Exhaustive small-scope exploration of the REAL routing table (bucket size forced to 2 through the
// verif hook): breadth-first over the abstract states the real Server reaches under every event of a
// small alphabet; every transition (state, event, successor) is logged as its own two-line segment
// and must be a successor RoutingTable!Apply allows. This is the exhaustive model's state graph
// walked on the code instead of on the specification.

type xev struct {
	kind    string // RecvQuery RecvResp RecvErr AddNode PingFail Age
	p       int
	ro      bool
	matched bool
	drop    bool
}

func (e xev) String() string {
	return fmt.Sprintf("%s/%d/%v/%v/%v", e.kind, e.p, e.ro, e.matched, e.drop)
}

type xworld struct {
	root  krpc.ID
	nosec bool
	peers []peer
	evs   []xev
}

func newXWorld(rng *rand.Rand, nosec bool) *xworld {
	w := &xworld{nosec: nosec}
	a1 := &net.UDPAddr{IP: net.IPv4(44, 7, 1, 9).To4(), Port: 5001}
	a3 := &net.UDPAddr{IP: net.IPv4(44, 9, 2, 3).To4(), Port: 5003}
	a6 := &net.UDPAddr{IP: net.IPv4(44, 1, 1, 6).To4(), Port: 5006}
	a7 := &net.UDPAddr{IP: net.IPv4(44, 1, 1, 7).To4(), Port: 5007}
	a8 := &net.UDPAddr{IP: net.IPv4(44, 1, 1, 8).To4(), Port: 5008}
	var a, b, c krpc.ID
	rng.Read(a[:])
	rng.Read(b[:])
	// a and b live at the same address; when enforcement is on both are valid for it (same seed bits)
	b[19] = b[19]&^7 | a[19]&7
	dht.SecureNodeId(&a, a1.IP)
	dht.SecureNodeId(&b, a1.IP)
	// the root differs from a (and b, which shares a's first 21 bits) first at bit 2: both sit in bucket 2
	w.root = a
	w.root[0] ^= 0x20
	for j := 3; j < 160; j++ {
		if rng.Intn(2) == 0 {
			w.root[j/8] ^= 0x80 >> uint(j%8)
		}
	}
	// c: same bucket, but its ID is not valid for its IP
	c = a
	c[2] ^= 0x10
	rng.Read(c[3:])
	for dht.NodeIdSecure(c, a3.IP) {
		c[1]++
	}
	w.peers = []peer{{id: a, addr: a1}, {id: b, addr: a1}, {id: c, addr: a3},
		{id: w.root, addr: a6}, {id: krpc.ID{}, addr: a7}, {noId: true, addr: a8}}
	for p := range w.peers {
		for _, ro := range []bool{false, true} {
			for _, drop := range []bool{false, true} {
				w.evs = append(w.evs, xev{kind: "RecvQuery", p: p, ro: ro, drop: drop})
				for _, m := range []bool{false, true} {
					w.evs = append(w.evs, xev{kind: "RecvResp", p: p, ro: ro, matched: m, drop: drop})
				}
			}
		}
		if !w.peers[p].noId {
			w.evs = append(w.evs, xev{kind: "AddNode", p: p}, xev{kind: "PingFail", p: p})
		}
		w.evs = append(w.evs, xev{kind: "RecvErr", p: p, matched: true})
	}
	w.evs = append(w.evs, xev{kind: "Age"})
	return w
}

type xsrv struct {
	h *hist
}

func (w *xworld) newServer(tr *sim.Trace, seg int) *hist {
	h := &hist{rng: rand.New(rand.NewSource(1)), seg: seg, tr: tr, root: w.root, nosec: w.nosec, peers: w.peers,
		block: sim.BlockSet{}, lastT: map[string][]byte{}}
	h.conn = sim.NewConn("45.9.9.9:4000")
	cfg := dht.NewDefaultServerConfig()
	cfg.NodeId = h.root
	cfg.Conn = h.conn
	cfg.NoSecurity = h.nosec
	cfg.StartingNodes = func() ([]dht.Addr, error) { return nil, nil }
	cfg.QueryResendDelay = func() time.Duration { return time.Hour }
	cfg.SendLimiter = rate.NewLimiter(rate.Inf, 1)
	cfg.Logger = log.Default.FilterLevel(log.Critical)
	srv, err := dht.NewServer(cfg)
	if err != nil {
		panic(err)
	}
	srv.VerifSetTableK(2)
	h.srv = srv
	return h
}

// apply performs one event on the real server; when logIt is set the event line (with the snapshot
// after it) is written.
func (w *xworld) apply(h *hist, e xev, logIt bool) {
	emit := func(kind string, s sender, ro, matched, drop bool) {
		if logIt {
			h.emit(kind, s, ro, matched, drop, nil)
		}
	}
	if e.kind == "Age" {
		h.srv.VerifAgeTable(16 * time.Minute)
		emit("Age", noSender, false, false, false)
		return
	}
	p := w.peers[e.p]
	from := p.addr
	if e.drop {
		from = &net.UDPAddr{IP: p.addr.IP, Port: 0}
	}
	switch e.kind {
	case "RecvQuery":
		m := sim.D("t", h.nextT(), "y", "q", "q", "ping", "a", idArg(p))
		if e.ro {
			m.Set("ro", 1)
		}
		h.inject(sim.Encode(m), from)
		emit("RecvQuery", h.senderOf(p), e.ro, false, e.drop)
	case "RecvResp", "RecvErr":
		var t []byte
		var done chan struct{}
		var cancel context.CancelFunc
		if e.matched {
			h.keep = nil
			h.conn.Take()
			var ctx context.Context
			ctx, cancel = context.WithCancel(context.Background())
			done = make(chan struct{})
			go func() { defer close(done); h.srv.Query(ctx, dht.NewAddr(p.addr), "ping", dht.QueryInput{}) }()
			q, ok := h.waitOut(p.addr.String(), "q", nil, 60*time.Second)
			if !ok {
				fail("own ping never written")
			}
			t, _ = q.Str("t")
		} else {
			t = []byte(h.nextT())
		}
		var m *sim.Dict
		if e.kind == "RecvErr" {
			m = sim.D("t", t, "y", "e", "e", sim.L(201, "no"))
		} else {
			m = sim.D("t", t, "y", "r", "r", idArg(p))
			if e.ro {
				m.Set("ro", 1)
			}
		}
		h.inject(sim.Encode(m), from)
		if e.matched {
			if e.drop {
				cancel()
			}
			<-done
			cancel()
		}
		emit(e.kind, h.senderOf(p), e.ro, e.matched, e.drop)
	case "AddNode":
		h.srv.AddNode(krpc.NodeInfo{ID: p.id, Addr: krpc.NodeAddr{IP: p.addr.IP, Port: p.addr.Port}})
		if p.id == (krpc.ID{}) {
			h.waitOut(p.addr.String(), "q", nil, 60*time.Second)
		}
		emit("AddNode", h.senderOf(p), false, false, false)
	case "PingFail":
		h.keep = nil
		h.conn.Take()
		ctx, cancel := context.WithCancel(context.Background())
		done := make(chan struct{})
		go func() { defer close(done); h.srv.VerifQuestionablePing(ctx, dht.NewAddr(p.addr), p.id) }()
		if _, ok := h.waitOut(p.addr.String(), "q", nil, 60*time.Second); !ok {
			fail("questionable ping never written")
		}
		cancel()
		<-done
		emit("PingFail", h.senderOf(p), false, false, false)
	}
}

type xentry struct {
	Id, Addr, Q, R string
	Failed         bool
}

func (h *hist) stateKey() (string, []sim.M) {
	snap := h.srv.VerifTableSnapshot()
	var es []xentry
	var pre []sim.M
	for _, n := range snap {
		es = append(es, xentry{sim.Hex(n.Id[:]), n.Addr, classOf(n.QAge), classOf(n.RAge), n.Failed})
		b := sim.SharedPrefix(n.Id, h.root)
		ua := sim.MustUDP(n.Addr)
		pre = append(pre, sim.M{"id": sim.Hex(n.Id[:]), "addr": n.Addr, "ab": n.Bucket, "b": b, "q": classOf(n.QAge), "r": classOf(n.RAge),
			"failed": n.Failed, "sec": dht.NodeIdSecure(n.Id, ua.IP), "fam": fam(ua.IP)})
	}
	sort.Slice(es, func(i, j int) bool { return es[i].Id+es[i].Addr < es[j].Id+es[j].Addr })
	b, _ := json.Marshal(es)
	return string(b), pre
}

func exhaustive(tr *sim.Trace, seed int64, maxTrans int, nosec bool, maxStates int) (states, trans int) {
	rng := rand.New(rand.NewSource(seed))
	w := newXWorld(rng, nosec)
	type node struct{ path []xev }
	seen := map[string]bool{}
	queue := []node{{}}
	h0 := w.newServer(tr, 0)
	k0, _ := h0.stateKey()
	h0.srv.Close()
	seen[k0] = true
	seg := 0
	// when sampling, every state is still expanded (so the whole graph is discovered) but only a
	// seeded subset of its transitions is logged for TLC
	for len(queue) > 0 && (maxStates <= 0 || states < maxStates) {
		nd := queue[0]
		queue = queue[1:]
		states++
		for _, e := range w.evs {
			logIt := maxTrans <= 0 || rng.Intn(1000) < maxTrans
			h := w.newServer(tr, seg)
			for _, pe := range nd.path {
				w.apply(h, pe, false)
			}
			if logIt {
				_, pre := h.stateKey()
				if pre == nil {
					pre = []sim.M{}
				}
				tr.Emit(sim.M{"seg": seg, "e": "SetState", "root": sim.Hex(w.root[:]), "nosec": w.nosec, "pre": pre, "path": fmt.Sprint(nd.path), "ev": e.String()})
			}
			w.apply(h, e, logIt)
			k, _ := h.stateKey()
			h.srv.Close()
			if logIt {
				seg++
				trans++
			}
			if !seen[k] {
				seen[k] = true
				queue = append(queue, node{append(append([]xev{}, nd.path...), e)})
			}
		}
	}
	return
}

func parseXev(s string) xev {
	var e xev
	f := strings.Split(s, "/")
	if len(f) != 5 {
		fail("bad event %q", s)
	}
	e.kind = f[0]
	fmt.Sscan(f[1], &e.p)
	e.ro, e.matched, e.drop = f[2] == "true", f[3] == "true", f[4] == "true"
	return e
}

// exhReplay re-executes one transition of the exhaustive exploration: path "[e1 e2 ...]" then ev.
func exhReplay(tr *sim.Trace, seed int64, nosec bool, path, ev string) {
	w := newXWorld(rand.New(rand.NewSource(seed)), nosec)
	h := w.newServer(tr, 0)
	defer h.srv.Close()
	for _, t := range strings.Fields(strings.Trim(path, "[]")) {
		w.apply(h, parseXev(t), false)
	}
	_, pre := h.stateKey()
	if pre == nil {
		pre = []sim.M{}
	}
	tr.Emit(sim.M{"seg": 0, "e": "SetState", "root": sim.Hex(w.root[:]), "nosec": w.nosec, "pre": pre, "path": path, "ev": ev})
	w.apply(h, parseXev(ev), true)
}
