// Command rt drives the routing table of a real dht.Server through seeded histories of inbound
// queries and responses (matched, unmatched, read-only, blocked, insecure, own/zero ID), AddNode
// calls, questionable-ping time-outs and elapsed time, and logs after every event the table
// snapshot hook and the API's own reports, plus the node lists of find_node/get_peers/get replies,
// as an ndjson trace for Trace_RoutingTable.tla.
package main

import (
	"context"
	"flag"
	"fmt"
	"math/rand"
	"net"
	"os"
	"sync/atomic"
	"time"

	"github.com/anacrolix/dht/v2"
	"github.com/anacrolix/dht/v2/int160"
	"github.com/anacrolix/dht/v2/krpc"
	peer_store "github.com/anacrolix/dht/v2/peer-store"
	"github.com/anacrolix/log"
	"golang.org/x/time/rate"

	"verifharness/sim"
)

type peer struct {
	id   krpc.ID
	noId bool
	addr *net.UDPAddr
}

type sender struct {
	Id   string `json:"id"`
	Addr string `json:"addr"`
	B    int    `json:"b"`
	Sec  bool   `json:"sec"`
	Fam  int    `json:"fam"`
}

type hist struct {
	rng      *rand.Rand
	seg      int
	tr       *sim.Trace
	srv      *dht.Server
	conn     *sim.Conn
	root     krpc.ID
	nosec    bool
	peers    []peer
	block    sim.BlockSet
	tcount   int
	lastT    map[string][]byte // last matched reply datagram per address, for replays
	keep     []sim.Out
	dense    bool
	resendNs int64 // when non-zero: resend delay of own queries (default one hour)
	hook     bool  // OnQuery is set and vetoes queries whose transaction ID starts with 'V'
	ps       bool  // a peer store is configured
	ihs      []krpc.ID
}

func fam(ip net.IP) int {
	if ip.To4() != nil {
		return 4
	}
	return 6
}

func (h *hist) senderOf(p peer) sender {
	s := sender{Addr: p.addr.String(), Fam: fam(p.addr.IP)}
	if p.noId {
		s.Sec = true
		return s
	}
	s.Id = sim.Hex(p.id[:])
	s.B = sim.SharedPrefix(p.id, h.root)
	if s.B == 160 {
		s.B = -1
	}
	s.Sec = dht.NodeIdSecure(p.id, p.addr.IP)
	return s
}

func (h *hist) genPeers() {
	rng := h.rng
	n := 18 + rng.Intn(14)
	buckets := []int{0, 0, 0, 0, 1, 1, 1, 2, 2, 3, 5, 8, 20, 100, 158, 159}
	mkAddr := func() *net.UDPAddr {
		port := 1024 + rng.Intn(60000)
		switch rng.Intn(10) {
		case 0, 1:
			ip := net.ParseIP(fmt.Sprintf("2001:db8:%x::%x", rng.Intn(4), 1+rng.Intn(200)))
			return &net.UDPAddr{IP: ip, Port: port}
		case 2:
			return &net.UDPAddr{IP: net.IPv4(45, 3, byte(rng.Intn(3)), byte(1+rng.Intn(250))).To16(), Port: port} // v4-mapped form
		case 3:
			return &net.UDPAddr{IP: net.IPv4(10, 0, byte(rng.Intn(3)), byte(1+rng.Intn(250))).To4(), Port: port} // private: any ID is valid
		default:
			return &net.UDPAddr{IP: net.IPv4(byte(40+rng.Intn(5)), byte(rng.Intn(4)), byte(rng.Intn(4)), byte(1+rng.Intn(250))).To4(), Port: port}
		}
	}
	for i := 0; i < n; i++ {
		var p peer
		p.id = h.root
		b := buckets[rng.Intn(len(buckets))]
		p.id[b/8] ^= 0x80 >> uint(b%8)
		for j := b + 1; j < 160; j++ {
			if rng.Intn(2) == 0 {
				p.id[j/8] ^= 0x80 >> uint(j%8)
			}
		}
		p.addr = mkAddr()
		if !h.nosec && rng.Intn(10) < 7 {
			dht.SecureNodeId(&p.id, p.addr.IP)
		}
		switch {
		case i > 0 && rng.Intn(9) == 0: // same address, other ID
			p.addr = h.peers[rng.Intn(len(h.peers))].addr
			if !h.nosec && rng.Intn(2) == 0 {
				dht.SecureNodeId(&p.id, p.addr.IP)
			}
		case i > 0 && rng.Intn(9) == 0: // same ID, other address
			p.id = h.peers[rng.Intn(len(h.peers))].id
		}
		h.peers = append(h.peers, p)
		if rng.Intn(7) == 0 {
			// the same ID from another port of the same IP (a contact that re-bound): a second contact, the first stays what it was
			sib := p
			sib.addr = &net.UDPAddr{IP: p.addr.IP, Port: 1024 + (p.addr.Port+1+rng.Intn(50))%60000}
			h.peers = append(h.peers, sib)
		}
		if ip4 := p.addr.IP.To4(); ip4 != nil && rng.Intn(6) == 0 {
			// the same contact with its IPv4 address in the other byte form (4 vs 16 bytes): one node, not two
			twin := p
			if len(p.addr.IP) == 4 {
				twin.addr = &net.UDPAddr{IP: ip4.To16(), Port: p.addr.Port}
			} else {
				twin.addr = &net.UDPAddr{IP: ip4, Port: p.addr.Port}
			}
			h.peers = append(h.peers, twin)
		}
	}
	h.peers = append(h.peers,
		peer{id: h.root, addr: mkAddr()},                                             // claims our own ID
		peer{id: krpc.ID{}, addr: mkAddr()},                                          // all-zero ID
		peer{noId: true, addr: mkAddr()},                                             // sends no ID at all
		peer{id: h.peers[0].id, addr: &net.UDPAddr{IP: h.peers[0].addr.IP, Port: 0}}, // source port 0
	)
}

func (h *hist) dropped(a *net.UDPAddr) bool { return a.Port == 0 || h.block.Has(a.IP) }

func classOf(ms int64) string {
	switch {
	case ms < 0:
		return "never"
	case ms < 900_000:
		return "recent"
	}
	return "old"
}

// emit logs a table event with the snapshot taken after it.
func (h *hist) emit(kind string, s sender, ro, matched, drop bool, extra sim.M) []dht.VerifNode {
	snap := h.srv.VerifTableSnapshot()
	sl := []sim.M{}
	for _, n := range snap {
		e := sim.M{"id": sim.Hex(n.Id[:]), "addr": n.Addr, "ab": n.Bucket, "q": classOf(n.QAge), "r": classOf(n.RAge),
			"failed": n.Failed, "good": n.Good, "bad": n.Bad}
		b := sim.SharedPrefix(n.Id, h.root)
		if b == 160 {
			b = -1
		}
		e["b"] = b
		ua := sim.MustUDP(n.Addr)
		e["sec"] = dht.NodeIdSecure(n.Id, ua.IP)
		e["fam"] = fam(ua.IP)
		sl = append(sl, e)
	}
	nodes := [][]string{}
	for _, ni := range h.srv.Nodes() {
		nodes = append(nodes, []string{sim.Hex(ni.ID[:]), ni.Addr.UDP().String()})
	}
	st := h.srv.Stats()
	m := sim.M{"seg": h.seg, "e": kind, "s": s, "ro": ro, "matched": matched, "drop": drop, "snap": sl,
		"numNodes": h.srv.NumNodes(), "statsNodes": st.Nodes, "goodNodes": st.GoodNodes, "nodes": nodes,
		"addrIndex": h.srv.VerifAddrIndexSize(), "addrIndexBad": h.srv.VerifAddrIndexMismatch()}
	for k, v := range extra {
		m[k] = v
	}
	h.tr.Emit(m)
	return snap
}

func (h *hist) nextT() string {
	h.tcount++
	return fmt.Sprintf("h%c%c", byte(h.tcount>>8), byte(h.tcount))
}

func fail(format string, a ...any) {
	fmt.Fprintf(os.Stderr, "DRIVER-ERROR: "+format+"\n", a...)
	os.Exit(3)
}

func (h *hist) inject(b []byte, from *net.UDPAddr) {
	if !h.conn.Inject(b, from, 10*time.Second) {
		fail("server read loop did not come back after a datagram from %v", from)
	}
}

// waitOut waits for a datagram to dst whose t equals t (or any t if nil) and removes it.
func (h *hist) waitOut(dst string, y string, t []byte, timeout time.Duration) (*sim.Dict, bool) {
	deadline := time.Now().Add(timeout)
	var kept []sim.Out
	defer func() { h.keep = append(h.keep, kept...) }()
	for {
		outs := append(h.keep, h.conn.Take()...)
		h.keep = nil
		for i, o := range outs {
			d, err := sim.DecodeDict(o.B)
			if err != nil || o.To == nil || o.To.String() != dst {
				kept = append(kept, o)
				continue
			}
			yy, _ := d.Str("y")
			tt, _ := d.Str("t")
			if string(yy) == y && (t == nil || string(tt) == string(t)) {
				kept = append(kept, outs[i+1:]...)
				return d, true
			}
			kept = append(kept, o)
		}
		if time.Now().After(deadline) {
			return nil, false
		}
		time.Sleep(50 * time.Microsecond)
		h.keep = kept
		kept = nil
	}
}

func idArg(p peer) *sim.Dict {
	a := sim.NewDict()
	if !p.noId {
		a.Set("id", p.id[:])
	}
	return a
}

func (h *hist) randTarget() krpc.ID {
	rng := h.rng
	switch rng.Intn(8) {
	case 0:
		return h.root
	case 1:
		return h.peers[rng.Intn(len(h.peers))].id
	}
	t := h.root
	b := []int{0, 0, 1, 1, 2, 3, 5, 8, 20, 100, 159}[rng.Intn(11)]
	t[b/8] ^= 0x80 >> uint(b%8)
	for j := b + 1; j < 160; j++ {
		if rng.Intn(2) == 0 {
			t[j/8] ^= 0x80 >> uint(j%8)
		}
	}
	return t
}

func (h *hist) evQuery() {
	rng := h.rng
	p := h.peers[rng.Intn(len(h.peers))]
	method := []string{"ping", "find_node", "get_peers", "get", "find_node", "get_peers"}[rng.Intn(6)]
	ro := rng.Intn(7) == 0
	t := h.nextT()
	vetoed := h.hook && rng.Intn(3) == 0
	if vetoed {
		t = "V" + t
	}
	a := idArg(p)
	target, other := h.randTarget(), h.randTarget()
	if h.ps && method == "get_peers" && rng.Intn(2) == 0 {
		target = h.ihs[rng.Intn(len(h.ihs))] // a swarm this node may hold peers for
	}
	var want []string
	switch rng.Intn(8) {
	case 0:
		want = []string{"n4"}
	case 1:
		want = []string{"n6"}
	case 2:
		want = []string{"n4", "n6"}
	case 3:
		want = []string{"n9"}
	case 4:
		want = []string{"n4", "n4"} // a family named twice is still one list of at most K distinct contacts
	case 5:
		want = []string{"n6", "n4", "n9", "n6"}
	}
	if method != "ping" {
		if method == "get_peers" {
			a.Set("info_hash", target[:]).Set("target", other[:])
		} else {
			a.Set("target", target[:]).Set("info_hash", other[:])
		}
		if want != nil {
			wl := []sim.Value{}
			for _, w := range want {
				wl = append(wl, []byte(w))
			}
			a.Set("want", wl)
		}
	}
	m := sim.D("t", t, "y", "q", "q", method, "a", a)
	if p.noId && rng.Intn(2) == 0 {
		m.Del("a") // no argument dictionary at all
		method = "ping"
		m.Set("q", "ping")
	}
	if ro {
		m.Set("ro", 1)
	}
	drop := h.dropped(p.addr)
	h.inject(sim.Encode(m), p.addr)
	h.emit("RecvQuery", h.senderOf(p), ro, false, drop, sim.M{"method": method})
	if drop || vetoed {
		return
	}
	r, ok := h.waitOut(p.addr.String(), "r", []byte(t), 3*time.Second)
	if !ok {
		if _, isErr := h.waitOut(p.addr.String(), "e", []byte(t), 100*time.Millisecond); isErr {
			return
		}
		// whether queries get answered is C08's business; the table effect of the query has been logged
		h.tr.Emit(sim.M{"seg": h.seg, "e": "NoReply", "method": method})
		return
	}
	if method == "ping" {
		return
	}
	rd := r.Dict("r")
	if vals, has := rd.List("values"); has && len(vals) > 0 {
		return // peers instead of nodes (BEP 5): nothing to judge here, the values are C11's business
	}
	w4, w6 := fam(p.addr.IP) == 4, fam(p.addr.IP) == 6
	if len(want) != 0 {
		w4, w6 = false, false
		for _, w := range want {
			w4 = w4 || w == "n4"
			w6 = w6 || w == "n6"
		}
	}
	tb := sim.SharedPrefix(target, h.root)
	if tb == 160 {
		tb = 159
	}
	ans := sim.M{"seg": h.seg, "e": "Answer", "method": method, "tb": tb, "want4": w4, "want6": w6, "nodes": [][]string{}, "nodes6": [][]string{}}
	for _, f := range []struct {
		key   string
		ipLen int
		has   string
	}{{"nodes", 4, "has4"}, {"nodes6", 16, "has6"}} {
		raw, has := rd.Str(f.key)
		ans[f.has] = has
		l := [][]string{}
		if has {
			ns, ok := sim.CompactNodes(raw, f.ipLen)
			if !ok {
				l = append(l, []string{"malformed", fmt.Sprint(len(raw))})
			}
			for _, n := range ns {
				l = append(l, []string{n[0], n[1]})
			}
		}
		ans[f.key] = l
	}
	h.tr.Emit(ans)
}

// evAnnounce: a peer fetches a token and announces itself for one of the swarms (two inbound queries, both
// table events); later get_peers for that swarm from the other address family must still carry nodes
func (h *hist) evAnnounce() {
	rng := h.rng
	p := h.peers[rng.Intn(len(h.peers))]
	if p.noId || h.dropped(p.addr) {
		return
	}
	ih := h.ihs[rng.Intn(len(h.ihs))]
	t := h.nextT()
	h.inject(sim.Encode(sim.D("t", t, "y", "q", "q", "get_peers", "a", idArg(p).Set("info_hash", ih[:]))), p.addr)
	h.emit("RecvQuery", h.senderOf(p), false, false, false, sim.M{"method": "get_peers"})
	r, ok := h.waitOut(p.addr.String(), "r", []byte(t), 3*time.Second)
	if !ok {
		h.tr.Emit(sim.M{"seg": h.seg, "e": "NoReply", "method": "get_peers"})
		return
	}
	tok, ok := r.Dict("r").Str("token")
	if !ok {
		return
	}
	t = h.nextT()
	h.inject(sim.Encode(sim.D("t", t, "y", "q", "q", "announce_peer", "a",
		idArg(p).Set("info_hash", ih[:]).Set("token", tok).Set("port", 1+rng.Intn(65535)))), p.addr)
	h.emit("RecvQuery", h.senderOf(p), false, false, false, sim.M{"method": "announce_peer"})
	h.waitOut(p.addr.String(), "r", []byte(t), 3*time.Second)
}

// evResponse: our own ping to a peer, answered in one of several ways.
func (h *hist) evResponse(questionable bool) {
	rng := h.rng
	p := h.peers[rng.Intn(len(h.peers))]
	if p.addr.Port == 0 {
		return
	}
	h.keep = nil
	h.conn.Take()
	ctx, cancel := context.WithCancel(context.Background())
	done := make(chan struct{})
	ownMethod := []string{"ping", "ping", "find_node", "get_peers", "get"}[rng.Intn(5)]
	ownTarget := h.randTarget()
	go func() {
		defer close(done)
		if questionable {
			h.srv.VerifQuestionablePing(ctx, dht.NewAddr(p.addr), p.id)
		} else {
			// any of the node's own queries: what the answer does to the table does not depend on the method
			h.srv.Query(ctx, dht.NewAddr(p.addr), ownMethod, dht.QueryInput{MsgArgs: krpc.MsgArgs{Target: ownTarget, InfoHash: ownTarget}})
		}
	}()
	finish := func() { cancel(); <-done }
	if h.block.Has(p.addr.IP) {
		// the write is refused; nothing to answer
		<-done
		cancel()
		if questionable {
			h.emit("PingFail", h.senderOf(p), false, false, false, nil)
		}
		return
	}
	q, ok := h.waitOut(p.addr.String(), "q", nil, 30*time.Second)
	if !ok {
		fail("our ping to %v was never written", p.addr)
	}
	t, _ := q.Str("t")
	kind := rng.Intn(12)
	if !questionable && !h.dense {
		switch rng.Intn(12) {
		case 0:
			kind = 200 // the destination gets blocklisted between the query and its genuine answer
		case 1:
			kind = 201 // the query times out; its genuine answer arrives late
		}
	}
	if h.dense && kind > 4 && rng.Intn(4) != 0 {
		kind = rng.Intn(3)
	}
	if questionable && kind >= 6 {
		kind = 100 // let it fail
	}
	resp := func(id krpc.ID, noId bool, tt []byte) *sim.Dict {
		r := sim.NewDict()
		if !noId {
			r.Set("id", id[:])
		}
		return sim.D("t", tt, "y", "r", "r", r)
	}
	as := p // the identity the response claims
	if rng.Intn(6) == 0 {
		as.id = h.peers[rng.Intn(len(h.peers))].id // answers under another ID than expected
		as.noId = false
	}
	switch kind {
	case 200:
		h.block.Add(p.addr.IP)
		h.srv.SetIPBlockList(h.block.Clone())
		h.emit("SetBlock", noSender, false, false, false, nil)
		h.inject(sim.Encode(resp(as.id, as.noId, t)), p.addr)
		h.emit("RecvResp", h.senderOf(as), false, true, true, nil) // right address, right ID, but dropped: blocked
		finish()
		return
	case 201:
		// (the query above was started with the one-hour delay; let it go and start one that times out)
		finish()
		atomic.StoreInt64(&h.resendNs, int64(2*time.Millisecond))
		h.keep = nil
		h.conn.Take()
		res := make(chan dht.QueryResult, 1)
		go func() {
			res <- h.srv.Query(context.Background(), dht.NewAddr(p.addr), "ping", dht.QueryInput{NumTries: 1 + rng.Intn(2)})
		}()
		r := <-res
		atomic.StoreInt64(&h.resendNs, 0)
		outs := h.conn.Take()
		if r.Err == nil || len(outs) == 0 {
			return
		}
		d, err := sim.DecodeDict(outs[0].B)
		if err != nil {
			return
		}
		t2, _ := d.Str("t")
		h.inject(sim.Encode(resp(as.id, as.noId, t2)), p.addr)
		h.emit("RecvResp", h.senderOf(as), false, false, h.dropped(p.addr), nil) // too late: the transaction is gone
		return
	case 0, 1, 2, 3, 4: // the genuine reply
		m := resp(as.id, as.noId, t)
		ro := kind == 4 && rng.Intn(2) == 0
		if ro {
			m.Set("ro", 1)
		}
		if kind == 3 { // lists third parties
			var nodes []byte
			for i := 0; i < 3; i++ {
				var id krpc.ID
				rng.Read(id[:])
				nodes = append(nodes, id[:]...)
				nodes = append(nodes, sim.CompactAddr(net.IPv4(50, 1, 1, byte(1+i)).To4(), 7000+i)...)
			}
			m.Dict("r").Set("nodes", nodes)
		}
		b := sim.Encode(m)
		h.inject(b, p.addr)
		<-done
		cancel()
		h.lastT[p.addr.String()] = b
		h.emit("RecvResp", h.senderOf(as), ro, true, false, nil)
	case 5: // an error reply with the right t from the right address: consumes the transaction
		h.inject(sim.Encode(sim.D("t", t, "y", "e", "e", sim.L(201, "no"))), p.addr)
		<-done
		cancel()
		h.emit("RecvErr", h.senderOf(as), false, true, false, nil)
	case 6: // right t, other port
		o := &net.UDPAddr{IP: p.addr.IP, Port: p.addr.Port + 1}
		h.inject(sim.Encode(resp(as.id, as.noId, t)), o)
		as.addr = o
		h.emit("RecvResp", h.senderOf(as), false, false, h.dropped(o), nil)
		finish()
	case 7: // right t, other IP
		o := &net.UDPAddr{IP: net.IPv4(41, 9, 9, byte(1+rng.Intn(200))).To4(), Port: p.addr.Port}
		h.inject(sim.Encode(resp(as.id, as.noId, t)), o)
		as.addr = o
		h.emit("RecvResp", h.senderOf(as), false, false, h.dropped(o), nil)
		finish()
	case 8: // adjacent / prefix t from the right address
		tt := append([]byte{}, t...)
		if len(tt) > 0 && rng.Intn(2) == 0 {
			tt[len(tt)-1]++
		} else {
			tt = append(tt, 0)
		}
		h.inject(sim.Encode(resp(as.id, as.noId, tt)), p.addr)
		h.emit("RecvResp", h.senderOf(as), false, false, false, nil)
		finish()
	default: // silence
		finish()
	}
	if questionable && kind >= 5 {
		h.emit("PingFail", h.senderOf(p), false, false, false, nil)
	}
}

// evRevive: an entry that has failed a questionable-node ping answers one of the node's own non-ping queries
// (it is good again from then on), and then its bucket is crowded by newcomers: it may not be displaced
func (h *hist) evRevive() {
	rng := h.rng
	var failed []dht.VerifNode
	for _, n := range h.srv.VerifTableSnapshot() {
		if n.Failed && !h.block.Has(sim.MustUDP(n.Addr).IP) {
			failed = append(failed, n)
		}
	}
	if len(failed) == 0 {
		return
	}
	n := failed[rng.Intn(len(failed))]
	p := peer{id: n.Id, addr: sim.MustUDP(n.Addr)}
	h.keep = nil
	h.conn.Take()
	ctx, cancel := context.WithCancel(context.Background())
	defer cancel()
	done := make(chan struct{})
	tg := h.randTarget()
	method := []string{"find_node", "get_peers", "get"}[rng.Intn(3)]
	go func() {
		defer close(done)
		h.srv.Query(ctx, dht.NewAddr(p.addr), method, dht.QueryInput{MsgArgs: krpc.MsgArgs{Target: tg, InfoHash: tg}})
	}()
	q, ok := h.waitOut(p.addr.String(), "q", nil, 30*time.Second)
	if !ok {
		fail("own %s to %v was never written", method, p.addr)
	}
	t, _ := q.Str("t")
	h.inject(sim.Encode(sim.D("t", t, "y", "r", "r", sim.D("id", p.id[:]))), p.addr)
	<-done
	h.emit("RecvResp", h.senderOf(p), false, true, false, nil)
	// newcomers whose IDs fall into the same bucket
	for i := 0; i < 10; i++ {
		var c peer
		cid := dht.VerifRandomIdInBucket(int160.FromByteArray(h.root), n.Bucket)
		c.id = cid.AsByteArray()
		c.addr = &net.UDPAddr{IP: net.IPv4(10, 7, byte(rng.Intn(250)), byte(1+rng.Intn(250))).To4(), Port: 1024 + rng.Intn(60000)} // private: any ID is valid
		tt := h.nextT()
		h.inject(sim.Encode(sim.D("t", tt, "y", "q", "q", "ping", "a", sim.D("id", c.id[:]))), c.addr)
		h.emit("RecvQuery", h.senderOf(c), false, false, h.dropped(c.addr), sim.M{"method": "ping"})
		h.waitOut(c.addr.String(), "r", []byte(tt), 3*time.Second)
	}
}

func (h *hist) evUnsolicited() {
	rng := h.rng
	p := h.peers[rng.Intn(len(h.peers))]
	var b []byte
	if prev, ok := h.lastT[p.addr.String()]; ok && rng.Intn(2) == 0 {
		b = prev // replay of an earlier genuine reply
	} else {
		r := idArg(p)
		b = sim.Encode(sim.D("t", h.nextT(), "y", []string{"r", "r", "e", "x"}[rng.Intn(4)], "r", r))
	}
	h.inject(b, p.addr)
	h.emit("RecvResp", h.senderOf(p), false, false, h.dropped(p.addr), nil)
}

func (h *hist) evAddNode() {
	p := h.peers[h.rng.Intn(len(h.peers))]
	if p.noId || p.addr.Port == 0 || h.block.Has(p.addr.IP) {
		return
	}
	h.srv.AddNode(krpc.NodeInfo{ID: p.id, Addr: krpc.NodeAddr{IP: p.addr.IP, Port: p.addr.Port}})
	if p.id == (krpc.ID{}) {
		// a zero ID makes AddNode ping the address from a goroutine instead: consume that datagram,
		// so that it is not mistaken for one of the driver's own pings later
		if _, ok := h.waitOut(p.addr.String(), "q", nil, 30*time.Second); !ok {
			fail("AddNode with a zero ID did not ping %v", p.addr)
		}
	}
	h.emit("AddNode", h.senderOf(p), false, false, false, nil)
}

func (h *hist) evPing(snap []dht.VerifNode) {
	// questionable-node ping of an existing entry, mostly failing
	if len(snap) == 0 {
		return
	}
	n := snap[h.rng.Intn(len(snap))]
	p := peer{id: n.Id, addr: sim.MustUDP(n.Addr)}
	if h.block.Has(p.addr.IP) {
		return
	}
	h.keep = nil
	h.conn.Take()
	ctx, cancel := context.WithCancel(context.Background())
	done := make(chan struct{})
	go func() { defer close(done); h.srv.VerifQuestionablePing(ctx, dht.NewAddr(p.addr), p.id) }()
	q, ok := h.waitOut(p.addr.String(), "q", nil, 30*time.Second)
	if !ok {
		fail("questionable ping to %v was never written", p.addr)
	}
	if h.rng.Intn(4) == 0 {
		t, _ := q.Str("t")
		h.inject(sim.Encode(sim.D("t", t, "y", "r", "r", sim.D("id", p.id[:]))), p.addr)
		<-done
		cancel()
		h.emit("RecvResp", h.senderOf(p), false, true, false, nil)
		return
	}
	cancel()
	<-done
	h.emit("PingFail", h.senderOf(p), false, false, false, nil)
}

var noSender = sender{}

func (h *hist) run(events int) {
	rng := h.rng
	rng.Read(h.root[:])
	h.nosec = rng.Intn(10) < 6
	h.block = sim.BlockSet{}
	h.lastT = map[string][]byte{}
	autoId := rng.Intn(5) == 0 // let the server generate its own ID: the table must be rooted at that ID
	if !autoId {
		h.genPeers()
		if rng.Intn(3) == 0 {
			h.block.Add(h.peers[rng.Intn(len(h.peers))].addr.IP)
		}
	}
	h.conn = sim.NewConn("45.9.9.9:4000")
	cfg := dht.NewDefaultServerConfig()
	if !autoId {
		cfg.NodeId = h.root
	} else if rng.Intn(2) == 0 {
		cfg.PublicIP = net.IPv4(45, 9, 9, 9).To4()
	}
	cfg.Conn = h.conn
	cfg.NoSecurity = h.nosec
	cfg.StartingNodes = func() ([]dht.Addr, error) { return nil, nil }
	cfg.QueryResendDelay = func() time.Duration {
		if d := atomic.LoadInt64(&h.resendNs); d != 0 {
			return time.Duration(d)
		}
		return time.Hour
	}
	cfg.SendLimiter = rate.NewLimiter(rate.Inf, 1)
	cfg.Logger = log.Default.FilterLevel(log.Critical)
	cfg.IPBlocklist = h.block.Clone()
	h.ps = rng.Intn(2) == 0
	if h.ps {
		cfg.PeerStore = &peer_store.InMemory{}
	}
	h.hook = rng.Intn(3) == 0
	if h.hook {
		// a query hook that keeps some queries from being answered: the sender has queried all the same
		cfg.OnQuery = func(m *krpc.Msg, _ net.Addr) bool { return !(len(m.T) > 0 && m.T[0] == 'V') }
	}
	srv, err := dht.NewServer(cfg)
	if err != nil {
		panic(err)
	}
	h.srv = srv
	defer srv.Close()
	if autoId {
		h.root = srv.ID()
		h.genPeers()
	}
	if h.ps {
		h.ihs = []krpc.ID{h.randTarget(), h.randTarget()}
	}
	h.tr.Emit(sim.M{"seg": h.seg, "e": "Start", "root": sim.Hex(h.root[:]), "nosec": h.nosec})
	var snap []dht.VerifNode
	h.dense = rng.Intn(4) == 0
	dense := h.dense // a flavour that builds large tables of good contacts and then asks for them
	for i := 0; i < events; i++ {
		x := rng.Intn(100)
		if dense {
			if i < events*2/3 {
				x = 38 + rng.Intn(24) // own pings, mostly answered
			} else {
				x = rng.Intn(38) // inbound queries
			}
		}
		if h.ps && rng.Intn(8) == 0 {
			h.evAnnounce()
			continue
		}
		if i > events/2 && rng.Intn(12) == 0 {
			h.evRevive()
			continue
		}
		switch {
		case x < 38:
			h.evQuery()
		case x < 62:
			h.evResponse(false)
		case x < 70:
			h.evUnsolicited()
		case x < 78:
			h.evAddNode()
		case x < 90:
			snap = srv.VerifTableSnapshot()
			h.evPing(snap)
		case x < 96:
			srv.VerifAgeTable(16 * time.Minute)
			h.emit("Age", noSender, false, false, false, nil)
		default:
			if rng.Intn(2) == 0 {
				h.block.Add(h.peers[rng.Intn(len(h.peers))].addr.IP)
			} else {
				h.block = sim.BlockSet{}
			}
			srv.SetIPBlockList(h.block.Clone())
			h.emit("SetBlock", noSender, false, false, false, nil)
		}
	}
	// WriteStatus must return (no leaked lock)
	srv.WriteStatus(devNull{})
}

type devNull struct{}

func (devNull) Write(b []byte) (int, error) { return len(b), nil }

func main() {
	seed := flag.Int64("seed", 1, "")
	n := flag.Int("n", 50, "histories")
	events := flag.Int("events", 70, "events per history")
	out := flag.String("out", "trace.ndjson", "")
	only := flag.Int("only", -1, "")
	exh := flag.Int("exh", -1, "exhaustive small-scope exploration: log this many per mille of the transitions (0 = all)")
	exhmax := flag.Int("exhmax", 0, "expand at most this many states per configuration (0 = all)")
	exhPath := flag.String("exhpath", "", "replay one transition of the exhaustive exploration: event path")
	exhEv := flag.String("exhev", "", "... and the event")
	exhNosec := flag.Bool("exhnosec", true, "... under this security setting")
	flag.Parse()
	tr, err := sim.NewTrace(*out)
	if err != nil {
		panic(err)
	}
	tr.Sync = true
	sim.Watchdog(180 * time.Second)
	if *exhEv != "" {
		exhReplay(tr, *seed, *exhNosec, *exhPath, *exhEv)
		tr.Close()
		fmt.Printf("{\"histories\":1,\"events\":%d,\"states\":1,\"transitions\":1}\n", tr.Len())
		return
	}
	if *exh >= 0 {
		st, trn := 0, 0
		for _, nosec := range []bool{true, false} {
			a, b := exhaustive(tr, *seed, *exh, nosec, *exhmax)
			st += a
			trn += b
		}
		tr.Close()
		fmt.Printf("{\"histories\":%d,\"events\":%d,\"states\":%d,\"transitions\":%d}\n", trn, tr.Len(), st, trn)
		return
	}
	for i := 0; i < *n; i++ {
		if *only >= 0 && i != *only {
			continue
		}
		h := &hist{rng: rand.New(rand.NewSource(*seed*7919 + int64(i))), seg: i, tr: tr}
		h.run(*events)
	}
	tr.Close()
	fmt.Printf("{\"histories\":%d,\"events\":%d}\n", *n, tr.Len())
}
