package main

import (
	"bytes"
	"runtime"
	"strconv"
	"sync"
	"time"

	"github.com/anacrolix/dht/v2/bep44"

	"verifharness/sim"
)

// recStore is the bep44.Store handed to the code under test (bep44.NewWrapper / ServerConfig.Store).
// It delegates to a real bep44.Memory, logs every call with arguments and result, attributes the
// call to the caller ("process") by goroutine, and -- when gating -- parks every call until the
// schedule releases it.
type recStore struct {
	inner bep44.Store
	w     *world
	tr    *sim.Trace
	seg   int
	exp   time.Duration

	mu      sync.Mutex
	who     map[int64]string
	defProc string
	gating  bool
	arrive  map[string]chan *call
	ages    map[*bep44.Item]time.Duration
	quiet   bool // calls made by the harness itself (ageing) are not logged
}

type call struct {
	p       string
	kind    string
	release chan struct{}
	done    chan struct{}
}

func newRecStore(w *world, tr *sim.Trace, seg int, exp time.Duration) *recStore {
	return &recStore{inner: bep44.NewMemory(), w: w, tr: tr, seg: seg, exp: exp, who: map[int64]string{},
		defProc: "w", arrive: map[string]chan *call{}, ages: map[*bep44.Item]time.Duration{}}
}

func goid() int64 {
	var buf [64]byte
	n := runtime.Stack(buf[:], false)
	f := bytes.Fields(buf[:n])
	if len(f) < 2 {
		return -1
	}
	id, _ := strconv.ParseInt(string(f[1]), 10, 64)
	return id
}

// bind attributes the calling goroutine's store calls to process p.
func (s *recStore) bind(p string) {
	id := goid()
	s.mu.Lock()
	s.who[id] = p
	s.mu.Unlock()
}

func (s *recStore) procOf() string {
	id := goid()
	s.mu.Lock()
	defer s.mu.Unlock()
	if p, ok := s.who[id]; ok {
		return p
	}
	return s.defProc
}

func (s *recStore) arriveCh(p string) chan *call {
	s.mu.Lock()
	defer s.mu.Unlock()
	c, ok := s.arrive[p]
	if !ok {
		c = make(chan *call, 4)
		s.arrive[p] = c
	}
	return c
}

// enter parks the call when gating; the returned func is called when the call is complete.
func (s *recStore) enter(kind string) (string, func()) {
	p := s.procOf()
	s.mu.Lock()
	g := s.gating
	s.mu.Unlock()
	if !g {
		return p, func() {}
	}
	c := &call{p: p, kind: kind, release: make(chan struct{}), done: make(chan struct{})}
	s.arriveCh(p) <- c
	<-c.release
	return p, func() { close(c.done) }
}

func (s *recStore) isOld(i *bep44.Item) bool {
	s.mu.Lock()
	defer s.mu.Unlock()
	return s.ages[i] >= s.exp
}

func (s *recStore) Get(t bep44.Target) (*bep44.Item, error) {
	p, done := s.enter("get")
	defer done()
	i, err := s.inner.Get(t)
	var res sim.M = nilItem
	if err == nil && i != nil {
		res = s.w.absBepItem(i, s.isOld(i))
	}
	s.emit(sim.M{"seg": s.seg, "e": "StoreGet", "p": p, "t": s.w.tgtName(t), "res": res})
	return i, err
}

func (s *recStore) Put(i *bep44.Item) error {
	p, done := s.enter("put")
	defer done()
	err := s.inner.Put(i)
	// the target as the code under test computes it (Memory files the item under it)
	s.emit(sim.M{"seg": s.seg, "e": "StorePut", "p": p, "item": s.w.absBepItem(i, false), "t": s.w.tgtName(i.Target())})
	return err
}

func (s *recStore) Del(t bep44.Target) error {
	p, done := s.enter("del")
	defer done()
	err := s.inner.Del(t)
	s.emit(sim.M{"seg": s.seg, "e": "StoreDel", "p": p, "t": s.w.tgtName(t)})
	return err
}

// age makes d elapse for the item stored under t (hook VerifAge). Returns false if nothing is stored
// or the step would leave the age within 20 min below the expiry (wall-clock margin).
func (s *recStore) age(t bep44.Target, d time.Duration) bool {
	i, err := s.inner.Get(t)
	if err != nil || i == nil {
		return false
	}
	s.mu.Lock()
	cum := s.ages[i] + d
	if cum > s.exp-20*time.Minute && cum < s.exp {
		s.mu.Unlock()
		return false
	}
	s.ages[i] = cum
	s.mu.Unlock()
	i.VerifAge(d)
	s.tr.Emit(sim.M{"seg": s.seg, "e": "Age", "t": s.w.tgtName(t), "expired": cum >= s.exp, "d": int(d / time.Second)})
	return true
}

func (s *recStore) emit(m sim.M) {
	s.mu.Lock()
	q := s.quiet
	s.mu.Unlock()
	if !q {
		s.tr.Emit(m)
	}
}

func (s *recStore) setQuiet(q bool) {
	s.mu.Lock()
	s.quiet = q
	s.mu.Unlock()
}

func (s *recStore) setGating(g bool) {
	s.mu.Lock()
	s.gating = g
	s.mu.Unlock()
}

// goroutineStatus returns the wait reason of goroutine id ("running", "runnable", "chan receive",
// "sync.Mutex.Lock", "semacquire", ...), "" if it no longer exists.
func goroutineStatus(id int64) string {
	buf := make([]byte, 1<<18)
	for {
		n := runtime.Stack(buf, true)
		if n < len(buf) {
			buf = buf[:n]
			break
		}
		buf = make([]byte, 2*len(buf))
	}
	pre := []byte("goroutine " + strconv.FormatInt(id, 10) + " [")
	i := bytes.Index(buf, pre)
	if i < 0 {
		return ""
	}
	rest := buf[i+len(pre):]
	j := bytes.IndexByte(rest, ']')
	if j < 0 {
		return ""
	}
	st := string(rest[:j])
	if k := bytes.IndexByte([]byte(st), ','); k >= 0 {
		st = st[:k]
	}
	return st
}
