package main

import (
	"bufio"
	"encoding/json"
	"math"
	"math/rand"
	"os"

	"github.com/anacrolix/dht/v2/bep44"

	"verifharness/sim"
)

// One complete behaviour of the racy (Atomic = FALSE) concurrent model, as printed by MC_Bep44's
// EmitSchedules: the initial item, the operation of every process, the order of store calls.
type schedItem struct {
	Nil bool   `json:"nil"`
	Seq int    `json:"seq"`
	Cas int    `json:"cas"`
	Val string `json:"val"`
	Old bool   `json:"old"`
}

type schedOp struct {
	Op   string    `json:"op"`
	Item schedItem `json:"item"`
}

type schedule struct {
	Init  schedItem          `json:"init"`
	Ops   map[string]schedOp `json:"ops"`
	Order []string           `json:"order"`
	Bad   []string           `json:"bad"`
}

func readSchedules(path string) ([]schedule, []string, error) {
	f, err := os.Open(path)
	if err != nil {
		return nil, nil, err
	}
	defer f.Close()
	var out []schedule
	var raw []string
	sc := bufio.NewScanner(f)
	sc.Buffer(make([]byte, 1<<20), 1<<24)
	for sc.Scan() {
		if len(sc.Bytes()) == 0 {
			continue
		}
		var s schedule
		if err := json.Unmarshal(sc.Bytes(), &s); err != nil {
			return nil, nil, err
		}
		out = append(out, s)
		raw = append(raw, sc.Text())
	}
	return out, raw, sc.Err()
}

// concretisation of a schedule: which key/salt, which two values, where the sequence numbers sit
type concretion struct {
	key, salt string
	vals      map[string]sim.Value
	valOf     map[string]string // model value name -> registered value name
	base      int64
}

func concretise(w *world, rng *rand.Rand) concretion {
	c := concretion{key: []string{"k1", "k2"}[rng.Intn(2)], salt: []string{"s0", "s1", "s64", "s1b"}[rng.Intn(4)],
		vals: map[string]sim.Value{}, valOf: map[string]string{}}
	c.base = []int64{0, 0, 1 << 40, math.MaxInt64 - 5}[rng.Intn(4)]
	for i, mv := range []string{"v1", "v2"} {
		v := mkValue(rng.Intn(4), 5+rng.Intn(40), byte('a'+2*rng.Intn(10)+i))
		n := w.valName(sim.Encode(v))
		c.vals[n] = v
		c.valOf[mv] = n
	}
	return c
}

func (c concretion) spec(it schedItem) putSpec {
	ps := putSpec{Key: c.key, Salt: c.salt, Seq: c.base + int64(it.Seq), Val: c.valOf[it.Val], Class: "ok"}
	if it.Cas != 0 {
		ps.Cas = c.base + int64(it.Cas)
	}
	return ps
}

func procOrder(ops map[string]schedOp) []string {
	var r []string
	for _, n := range []string{"p1", "p2", "p3", "g"} {
		if _, ok := ops[n]; ok {
			r = append(r, n)
		}
	}
	return r
}

// wrapperConcurrent attempts one schedule on a real bep44.Wrapper.
func wrapperConcurrent(w *world, tr *sim.Trace, seed int64, seg int, idx int, s schedule) (bool, error) {
	rng := rand.New(rand.NewSource(seed*1000003 + int64(idx)))
	st := newRecStore(w, tr, seg, expiry)
	wr := bep44.NewWrapper(st, expiry)
	c := concretise(w, rng)
	tr.Emit(sim.M{"seg": seg, "e": "Reset", "mode": "conc", "seed": seed, "idx": idx})
	tgt := mutableTarget(w.key(c.key).pub[:], w.salts[c.salt])
	if !s.Init.Nil {
		b := w.build(c.spec(s.Init), c.vals)
		tr.Emit(sim.M{"seg": seg, "e": "PutBegin", "p": "w", "item": w.absBuilt(b)})
		err := wr.Put(b.item())
		tr.Emit(sim.M{"seg": seg, "e": "PutEnd", "p": "w", "code": codeOf(err)})
		if s.Init.Old {
			st.age(tgt, expiry+expiry/2)
		}
	}
	e := &engine{st: st, tr: tr, seg: seg}
	for _, name := range procOrder(s.Ops) {
		name := name
		op := s.Ops[name]
		if op.Op == "put" {
			b := w.build(c.spec(op.Item), c.vals)
			tr.Emit(sim.M{"seg": seg, "e": "PutBegin", "p": name, "item": w.absBuilt(b)})
			e.procs = append(e.procs, &sproc{name: name, run: func() sim.M {
				st.bind(name)
				err := wr.Put(b.item())
				return sim.M{"e": "PutEnd", "p": name, "code": codeOf(err)}
			}})
		} else {
			tr.Emit(sim.M{"seg": seg, "e": "GetBegin", "p": name, "t": w.tgtName(tgt), "hasseq": false, "seqarg": 0})
			e.procs = append(e.procs, &sproc{name: name, run: func() sim.M {
				st.bind(name)
				i, err := wr.Get(tgt)
				rep := sim.M{"val": false, "item": nilItem, "hasrseq": false, "rseq": 0}
				if err == nil && i != nil {
					rep = sim.M{"val": true, "item": w.absBepItem(i, st.isOld(i)), "hasrseq": true, "rseq": absSeq(i.Seq)}
				}
				return sim.M{"e": "GetEnd", "p": name, "rep": rep}
			}})
		}
	}
	return e.attempt(s.Order)
}
