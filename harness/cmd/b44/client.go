package main

import (
	"context"
	"fmt"
	"math/rand"
	"net"
	"sort"
	"strings"
	"time"

	"github.com/anacrolix/dht/v2"
	"github.com/anacrolix/dht/v2/bep44"
	"github.com/anacrolix/dht/v2/exts/getput"

	"verifharness/sim"
)

// Client side: getput.Get / getput.Put of a real server; every outgoing get query is answered by the
// harness from the queried address with a crafted reply echoing the transaction id.

var mutClasses = []string{"genuine", "genuine", "genuine", "stale", "forged", "seqbump", "wrongkey", "othersalt",
	"nokey", "nosig", "nov", "notoken", "noseqwrongkey", "imm", "empty", "error", "equalseq",
	// the shared genuine item of the case (key, seq, value, signature), and replies that REUSE its signature
	// bytes with another value or a higher seq (a verifier that remembers signatures it has seen must not be fooled)
	"shared", "shared", "replayval", "replayseq"}
var immClasses = []string{"imm", "imm", "immforged", "genuine", "wrongkey", "nov", "notoken", "empty", "error"}

type clientCase struct {
	Idx     int      `json:"idx"`
	Kind    string   `json:"kind"` // get | put
	Mut     bool     `json:"mut"`
	Classes []string `json:"classes"`
	Perm    []int    `json:"perm"`
	Chain   int      `json:"chain"` // number of responders only reachable through the first one's reply
	Seed    int64    `json:"seed"`
}

func permutations(n int) [][]int {
	var res [][]int
	var rec func(cur []int, used int)
	rec = func(cur []int, used int) {
		if len(cur) == n {
			res = append(res, append([]int{}, cur...))
			return
		}
		for i := 0; i < n; i++ {
			if used&(1<<i) == 0 {
				rec(append(cur, i), used|1<<i)
			}
		}
	}
	rec(nil, 0)
	return res
}

// genClientCases: seeded class tuples, each in every delivery order.
func genClientCases(seed int64, n int, danger bool) []clientCase {
	rng := rand.New(rand.NewSource(seed*7919 + 13))
	var cases []clientCase
	for t := 0; len(cases) < n; t++ {
		mut := rng.Intn(5) != 0
		nr := 3
		if rng.Intn(5) == 0 {
			nr = 4
		}
		pool := mutClasses
		if !mut {
			pool = immClasses
		}
		cl := make([]string, nr)
		for i := range cl {
			cl[i] = pool[rng.Intn(len(pool))]
			if danger && mut && rng.Intn(6) == 0 {
				cl[i] = "noseq"
			}
		}
		kind := "get"
		if mut && rng.Intn(6) == 0 {
			kind = "put"
		}
		chain := 0
		if rng.Intn(3) == 0 {
			chain = 1 + rng.Intn(nr-1)
		}
		cs := rng.Int63()
		for _, p := range permutations(nr) {
			cases = append(cases, clientCase{Idx: len(cases), Kind: kind, Mut: mut, Classes: cl, Perm: p, Chain: chain, Seed: cs})
		}
	}
	return cases
}

type simNode struct {
	addr *net.UDPAddr
	id   [20]byte
}

type outQ struct {
	b  []byte
	to *net.UDPAddr
}

func compactNode(n simNode) []byte {
	b := append([]byte{}, n.id[:]...)
	b = append(b, n.addr.IP.To4()...)
	return append(b, byte(n.addr.Port>>8), byte(n.addr.Port))
}

// runClientCase drives one case; the trace lines of the case go to tr.
func runClientCase(w *world, tr *sim.Trace, seg int, c clientCase) error {
	rng := rand.New(rand.NewSource(c.Seed))
	nr := len(c.Classes)
	nodes := make([]simNode, nr)
	for i := range nodes {
		nodes[i].addr = &net.UDPAddr{IP: net.IPv4(10, 3, byte(rng.Intn(250)), byte(1+i)), Port: 2000 + rng.Intn(50000)}
		rng.Read(nodes[i].id[:])
	}
	nstart := nr - c.Chain
	starting := func() ([]dht.Addr, error) {
		var r []dht.Addr
		for _, n := range nodes[:nstart] {
			r = append(r, dht.NewAddr(n.addr))
		}
		return r, nil
	}
	wn, err := newWireNode(w, tr, seg, rng, starting)
	if err != nil {
		return err
	}
	defer wn.close()
	wn.st.setQuiet(true) // the local store is not what this mode looks at
	outCh := make(chan outQ, 1024)
	wn.conn.OnWrite = func(b []byte, to net.Addr) error {
		ua, _ := to.(*net.UDPAddr)
		select {
		case outCh <- outQ{append([]byte{}, b...), ua}:
		default:
		}
		return nil
	}

	// the request and the replies
	key := w.key([]string{"k1", "k2"}[rng.Intn(2)])
	other := w.key(otherOf([]string{"k1", "k2"}, key.name))
	saltN := []string{"s0", "s1", "s64", "s1b"}[rng.Intn(4)]
	salt := w.salts[saltN]
	mk := func() (sim.Value, []byte, string) {
		v := mkValue(rng.Intn(4), 4+rng.Intn(60), byte('a'+rng.Intn(26)))
		enc := sim.Encode(v)
		return v, enc, w.valName(enc)
	}
	baseV, baseEnc, _ := mk()
	_ = baseV
	var target [20]byte
	want := sim.M{"mut": c.Mut, "key": "", "salt": "", "tgt": nil}
	if c.Mut {
		target = mutableTarget(key.pub[:], salt)
		want["key"], want["salt"] = key.name, saltN
	} else {
		target = immutableTarget(baseEnc)
		salt = nil
	}
	want["tgt"] = w.tgtName(target)
	base := []int64{0, 3, 1 << 40}[rng.Intn(3)]
	topSeq := base + 2 + int64(rng.Intn(3))

	// one genuine item every "shared"/"replay*" reply of this case refers to (ed25519 signing is deterministic)
	_, sharedEnc, sharedVn := mk()
	sharedSeq := topSeq - int64(rng.Intn(2))

	type reply struct {
		d   *sim.Dict
		abs sim.M
	}
	replies := make([]reply, nr)
	for i, cl := range c.Classes {
		r := sim.D("id", nodes[i].id[:], "token", fmt.Sprintf("tok%d", i))
		var k [32]byte
		var sig [64]byte
		var enc []byte
		var seq int64
		hasv, hask, hasseq, hassig := false, false, false, false
		signed := func(kp *keyPair, sn string, q int64) {
			_, e, vn := mk()
			enc, k, seq = e, kp.pub, q
			sig = w.sign(kp, sn, q, vn)
			hasv, hask, hasseq, hassig = true, true, true, true
		}
		switch cl {
		case "genuine":
			signed(key, saltN, topSeq-int64(rng.Intn(3)))
		case "shared":
			enc, k, seq = sharedEnc, key.pub, sharedSeq
			sig = w.sign(key, saltN, sharedSeq, sharedVn)
			hasv, hask, hasseq, hassig = true, true, true, true
		case "replayval": // the shared item's signature over another value
			_, enc, _ = mk()
			k, seq = key.pub, sharedSeq
			sig = w.sign(key, saltN, sharedSeq, sharedVn)
			hasv, hask, hasseq, hassig = true, true, true, true
		case "replayseq": // the shared item's signature and value under a higher sequence number
			enc, k, seq = sharedEnc, key.pub, topSeq+9
			sig = w.sign(key, saltN, sharedSeq, sharedVn)
			hasv, hask, hasseq, hassig = true, true, true, true
		case "equalseq":
			signed(key, saltN, topSeq)
		case "stale":
			signed(key, saltN, base+int64(rng.Intn(2)))
		case "forged":
			signed(key, saltN, topSeq+5)
			_, enc, _ = mk()
		case "seqbump":
			signed(key, saltN, topSeq-1)
			seq = topSeq + 7
		case "wrongkey":
			signed(other, saltN, topSeq+6)
		case "othersalt":
			signed(key, otherOf([]string{"s1", "s64", "s0"}, saltN), topSeq+4)
		case "nokey":
			signed(key, saltN, topSeq+3)
			hask = false
		case "nosig":
			signed(key, saltN, topSeq+3)
			hassig = false
		case "nov":
			signed(key, saltN, topSeq+3)
			hasv = false
		case "notoken":
			signed(key, saltN, topSeq-int64(rng.Intn(2)))
			r.Del("token")
		case "noseq": // anticipated finding 2 (C01): right key, no seq -> nil dereference in getput
			signed(key, saltN, topSeq)
			hasseq = false
		case "noseqwrongkey":
			signed(other, saltN, topSeq+2)
			hasseq = false
		case "imm":
			enc, hasv = baseEnc, true
			if c.Mut {
				_, enc, _ = mk()
			}
		case "immforged":
			_, enc, _ = mk()
			hasv = true
		case "empty":
		case "error":
		}
		if hasv {
			r.Set("v", sim.Raw(enc))
		}
		if hask {
			r.Set("k", k[:])
		}
		if hassig {
			r.Set("sig", sig[:])
		}
		if hasseq {
			r.Set("seq", seq)
		}
		// the rest of the network, for the chain part
		if i == 0 && c.Chain > 0 {
			var cn []byte
			for _, n := range nodes[nstart:] {
				cn = append(cn, compactNode(n)...)
			}
			r.Set("nodes", cn)
		}
		// label with the harness's own verification under the requested key's salt
		ab := sim.M{"hasv": hasv, "val": "", "haskey": hask, "key": "", "hasseq": hasseq, "seq": 0, "sig": garbageSig,
			"hastok": cl != "notoken", "class": cl, "node": i}
		if hasv {
			ab["val"] = w.valName(enc)
		}
		if hask {
			ab["key"] = w.keyName(k)
		}
		if hasseq {
			ab["seq"] = absSeq(seq)
		}
		if hassig {
			var kk [32]byte
			if hask {
				kk = k
			} else {
				kk = key.pub // an absent key cannot verify anything; label what the bytes sign anyway
			}
			var e2 []byte
			if hasv {
				e2 = enc
			}
			ab["sig"] = w.absItem(kk, salt, seq, 0, e2, sig, false)["sig"]
			if e2 == nil || !hasseq {
				if lab, ok := w.sigBy[sig]; ok {
					ab["sig"] = lab
				}
			}
		}
		d := sim.D("y", "r", "r", r)
		if cl == "error" {
			d = sim.D("y", "e", "e", sim.L(201, "no"))
		}
		replies[i] = reply{d, ab}
	}

	tr.Emit(sim.M{"seg": seg, "e": "ClientStart", "want": want, "kind": c.Kind, "classes": c.Classes, "perm": c.Perm,
		"chain": c.Chain, "idx": c.Idx})

	ctx, cancel := context.WithTimeout(context.Background(), 120*time.Second)
	defer cancel()
	resCh := make(chan sim.M, 1)
	go func() {
		if c.Kind == "get" {
			var saltArg []byte
			if c.Mut {
				saltArg = salt
			}
			ret, _, err := getput.Get(ctx, target, wn.srv, nil, saltArg)
			res := sim.M{"set": true, "kind": "get", "found": false, "mut": false, "val": "", "seq": 0}
			if err == nil {
				res["found"], res["mut"], res["val"] = true, ret.Mutable, w.valName([]byte(ret.V))
				if ret.Mutable {
					res["seq"] = absSeq(ret.Seq)
				}
			} else {
				res["err"] = err.Error()
			}
			resCh <- res
			return
		}
		handed := int64(-1)
		_, err := getput.Put(ctx, target, wn.srv, salt, func(seq int64) bep44.Put {
			handed = seq
			ns := seq + 1
			if ns < 0 {
				ns = seq
			}
			_, _, vn := mk()
			k := key.pub
			return bep44.Put{V: fromSimEnc(w.valEnc[vn]), K: &k, Salt: salt, Sig: w.sign(key, saltN, ns, vn), Seq: ns}
		})
		res := sim.M{"set": true, "kind": "put", "found": false, "mut": true, "val": "", "seq": absSeq(handed)}
		if err != nil {
			res["err"] = err.Error()
		}
		if handed < 0 {
			res["kind"] = "get" // the callback never ran: nothing was handed out
			res["mut"] = false
			res["seq"] = 0
		}
		resCh <- res
	}()

	addrIdx := map[string]int{}
	for i, n := range nodes {
		addrIdx[n.addr.String()] = i
	}
	expected := map[int]bool{}
	for i := 0; i < nstart; i++ {
		expected[i] = true
	}
	outstanding := map[int][]byte{}
	answered := map[int]bool{}
	rank := make([]int, nr)
	for pos, i := range c.Perm {
		rank[i] = pos
	}
	lastProgress := time.Now()
	var result sim.M
	handle := func(o outQ) {
		m, err := sim.DecodeDict(o.b)
		if err != nil || o.to == nil {
			return
		}
		i, ok := addrIdx[o.to.String()]
		if !ok {
			return
		}
		y, _ := m.Str("y")
		q, _ := m.Str("q")
		t, _ := m.Str("t")
		if string(y) != "q" {
			return
		}
		switch string(q) {
		case "get":
			if _, dup := outstanding[i]; !dup && !answered[i] {
				outstanding[i] = t
				lastProgress = time.Now()
			}
		case "put":
			d := sim.D("t", t, "y", "r", "r", sim.D("id", nodes[i].id[:]))
			go wn.conn.Inject(sim.Encode(d), nodes[i].addr, 10*time.Second)
		}
	}
	for result == nil {
		select {
		case o := <-outCh:
			handle(o)
			continue
		case result = <-resCh:
			continue
		default:
		}
		// deliver the next reply once every query that is due has been seen (or nothing new shows up)
		ready := len(outstanding) > 0
		for i := range expected {
			if !answered[i] {
				if _, ok := outstanding[i]; !ok {
					ready = false
				}
			}
		}
		if !ready && len(outstanding) > 0 && time.Since(lastProgress) > 2*time.Second {
			ready = true
		}
		if ready {
			var cand []int
			for i := range outstanding {
				cand = append(cand, i)
			}
			sort.Slice(cand, func(a, b int) bool { return rank[cand[a]] < rank[cand[b]] })
			i := cand[0]
			t := outstanding[i]
			delete(outstanding, i)
			answered[i] = true
			d := replies[i].d
			d.Set("t", t)
			tr.Emit(sim.M{"seg": seg, "e": "ClientReply", "r": replies[i].abs})
			if !wn.conn.Inject(sim.Encode(d), nodes[i].addr, 10*time.Second) {
				return fmt.Errorf("client case %d: the node stopped reading datagrams", c.Idx)
			}
			if i == 0 && c.Chain > 0 && c.Classes[0] != "error" {
				for j := nstart; j < nr; j++ {
					expected[j] = true
				}
			}
			lastProgress = time.Now()
			continue
		}
		if time.Since(lastProgress) > 60*time.Second {
			return fmt.Errorf("client case %d: no progress (outstanding %d, answered %d)", c.Idx, len(outstanding), len(answered))
		}
		select {
		case o := <-outCh:
			handle(o)
		case result = <-resCh:
		case <-time.After(200 * time.Microsecond):
		}
	}
	if ctx.Err() != nil {
		// the case outlived its generous deadline (overloaded machine): what the caller got is not judged
		tr.Emit(sim.M{"seg": seg, "e": "Note", "kind": "deadline"})
		return fmt.Errorf("client case %d: deadline exceeded", c.Idx)
	}
	ev := sim.M{"seg": seg, "e": "ClientResult", "err": ""}
	if e, ok := result["err"]; ok {
		ev["err"] = e
		delete(result, "err")
	}
	ev["res"] = result
	tr.Emit(ev)
	return nil
}

// fromSimEnc decodes an encoding made by the harness back into a Go value for the API.
func fromSimEnc(enc []byte) any {
	v, _, err := sim.Decode(enc)
	if err != nil {
		panic(err)
	}
	return fromSim(v)
}

func describeCase(c clientCase) string {
	return fmt.Sprintf("case %d kind=%s mut=%v classes=%s perm=%v chain=%d", c.Idx, c.Kind, c.Mut, strings.Join(c.Classes, ","), c.Perm, c.Chain)
}
