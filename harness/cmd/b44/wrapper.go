package main

import (
	"errors"
	"math"
	"math/rand"
	"time"

	"github.com/anacrolix/dht/v2/bep44"
	"github.com/anacrolix/dht/v2/krpc"

	"verifharness/sim"
)

const expiry = time.Hour

var seqPool = []int64{0, 1, 2, 3, 1 << 40, math.MaxInt64}

// sequence numbers are signed 64-bit: also the negative extremes, so that two of them can be further apart than
// the int64 range (a comparison by subtraction wraps)
var seqPoolSigned = []int64{0, 1, 2, 3, 1 << 40, math.MaxInt64, -2, -(1 << 40), math.MinInt64, math.MaxInt64 - 1, math.MinInt64 + 1}
var saltPool = []string{"s0", "s0", "s0", "s1", "s1b", "s64", "s65", "s200"}
var valSizes = []int{3, 999, 1000, 1001, 4000}
var sigClasses = []string{"ok", "ok", "ok", "ok", "osalt", "oseq", "oval", "okey", "bitflip", "zero"}

// putSpec is one put as the generator describes it; build() concretises it.
type putSpec struct {
	Key   string `json:"key"` // "" = immutable
	Salt  string `json:"salt"`
	Seq   int64  `json:"seq"`
	Cas   int64  `json:"cas"`
	Val   string `json:"val"` // name of a registered value
	Class string `json:"class"`
}

type built struct {
	k    [32]byte
	salt []byte
	seq  int64
	cas  int64
	v    sim.Value
	enc  []byte
	sig  [64]byte
}

func otherOf(pool []string, x string) string {
	for _, y := range pool {
		if y != x {
			return y
		}
	}
	return x
}

// build makes the concrete put: a real signature over what the class says.
func (w *world) build(ps putSpec, vals map[string]sim.Value) built {
	b := built{seq: ps.Seq, cas: ps.Cas, v: vals[ps.Val]}
	b.enc = sim.Encode(b.v)
	w.valName(b.enc)
	if ps.Key == "" {
		return b
	}
	kp := w.key(ps.Key)
	b.k = kp.pub
	b.salt = w.salts[ps.Salt]
	switch ps.Class {
	case "ok":
		b.sig = w.sign(kp, ps.Salt, ps.Seq, ps.Val)
	case "osalt":
		// valid for another salt -- in particular for no salt at all (salt stripping)
		var others []string
		for _, x := range []string{"s0", "s1", "s1b", "s64"} {
			if x != ps.Salt {
				others = append(others, x)
			}
		}
		b.sig = w.sign(kp, others[int(uint64(ps.Seq)%3+uint64(len(ps.Val)))%len(others)], ps.Seq, ps.Val)
	case "oseq":
		o := ps.Seq + 1
		if ps.Seq == math.MaxInt64 {
			o = ps.Seq - 1
		}
		b.sig = w.sign(kp, ps.Salt, o, ps.Val)
	case "oval":
		var ov string
		for n := range vals {
			if n != ps.Val && (ov == "" || n < ov) {
				ov = n
			}
		}
		if ov == "" {
			ov = ps.Val
			b.sig = w.sign(kp, ps.Salt, ps.Seq+1, ov)
		} else {
			w.valName(sim.Encode(vals[ov]))
			b.sig = w.sign(kp, ps.Salt, ps.Seq, ov)
		}
	case "okey":
		b.sig = w.sign(w.key(otherOf([]string{"k1", "k2", "kx"}, ps.Key)), ps.Salt, ps.Seq, ps.Val)
	case "bitflip":
		b.sig = w.sign(kp, ps.Salt, ps.Seq, ps.Val)
		b.sig[int(ps.Seq&31)+7] ^= 0x10
	case "zero":
	}
	return b
}

func (b built) item() *bep44.Item {
	return &bep44.Item{V: fromSim(b.v), K: b.k, Salt: b.salt, Sig: b.sig, Cas: b.cas, Seq: b.seq}
}

func (w *world) absBuilt(b built) sim.M {
	return w.absItem(b.k, b.salt, b.seq, b.cas, b.enc, b.sig, false)
}

func codeOf(err error) int {
	if err == nil {
		return 0
	}
	var ke krpc.Error
	if errors.As(err, &ke) {
		return ke.Code
	}
	return -2
}

func (w *world) targetOf(b built) [20]byte {
	if b.k == ([32]byte{}) {
		return immutableTarget(b.enc)
	}
	return mutableTarget(b.k[:], b.salt)
}

// segValues: the values of one history: two or three small ones of different shapes plus the sized ones.
func segValues(w *world, rng *rand.Rand) (map[string]sim.Value, []string, []string) {
	vals := map[string]sim.Value{}
	var small, sized []string
	add := func(v sim.Value) string {
		n := w.valName(sim.Encode(v))
		vals[n] = v
		return n
	}
	n := 2 + rng.Intn(2)
	for i := 0; i < n; i++ {
		shape := rng.Intn(4)
		small = append(small, add(mkValue(shape, 6+rng.Intn(30), byte('a'+rng.Intn(20)))))
	}
	for _, sz := range valSizes {
		sized = append(sized, add(mkValue(rng.Intn(3), sz, byte('A'+rng.Intn(20)))))
	}
	return vals, small, sized
}

// genPut draws a put biased towards the interesting neighbourhood of what is stored.
func genPut(rng *rand.Rand, small, sized []string, lastSeq, lastCas int64, focus [2]string) putSpec {
	ps := putSpec{Key: focus[0], Salt: focus[1], Class: "ok"}
	if rng.Intn(4) == 0 {
		ps.Key = []string{"k1", "k2", ""}[rng.Intn(3)]
		ps.Salt = saltPool[rng.Intn(len(saltPool))]
	}
	if rng.Intn(5) == 0 {
		ps.Salt = saltPool[rng.Intn(len(saltPool))]
	}
	ps.Val = small[rng.Intn(len(small))]
	if rng.Intn(6) == 0 {
		ps.Val = sized[rng.Intn(len(sized))]
	}
	switch rng.Intn(6) {
	case 0:
		ps.Seq = seqPoolSigned[rng.Intn(len(seqPoolSigned))]
	case 1:
		ps.Seq = lastSeq
	case 2:
		if lastSeq > 0 {
			ps.Seq = lastSeq - 1
		}
	default:
		ps.Seq = lastSeq + 1
		if lastSeq == math.MaxInt64 {
			ps.Seq = lastSeq
		}
	}
	switch rng.Intn(8) {
	case 0, 1, 2:
		ps.Cas = 0
	case 3, 4:
		ps.Cas = lastSeq
	case 5:
		ps.Cas = lastCas
	case 6:
		ps.Cas = seqPool[rng.Intn(len(seqPool))]
	case 7:
		ps.Cas = lastSeq + 1
		if lastSeq == math.MaxInt64 {
			ps.Cas = 1
		}
	}
	if ps.Key != "" && rng.Intn(5) == 0 {
		ps.Class = sigClasses[rng.Intn(len(sigClasses))]
	}
	if ps.Key == "" {
		ps.Cas = 0
		if rng.Intn(3) != 0 {
			ps.Seq = 0
		}
	}
	return ps
}

// no step leaves an item between 20 minutes before the expiry and the expiry itself: wall-clock time that passes
// while a history runs (milliseconds, seconds on a loaded machine) cannot change what counts as expired
var ageSteps = []time.Duration{time.Minute, expiry / 2, expiry, expiry + time.Minute, 5 * expiry}

// wrapperSequential: one seeded history of puts, gets and ageing through bep44.Wrapper.
func wrapperSequential(w *world, tr *sim.Trace, seed int64, seg int, nops int) {
	rng := rand.New(rand.NewSource(seed*1000003 + int64(seg)))
	st := newRecStore(w, tr, seg, expiry)
	wr := bep44.NewWrapper(st, expiry)
	tr.Emit(sim.M{"seg": seg, "e": "Reset", "mode": "wrapper", "seed": seed, "idx": seg})
	vals, small, sized := segValues(w, rng)
	focus := [2]string{[]string{"k1", "k2"}[rng.Intn(2)], []string{"s0", "s1", "s64"}[rng.Intn(3)]}
	var lastSeq, lastCas int64
	var targets [][20]byte
	for op := 0; op < nops; op++ {
		switch r := rng.Intn(10); {
		case r < 6:
			ps := genPut(rng, small, sized, lastSeq, lastCas, focus)
			b := w.build(ps, vals)
			tr.Emit(sim.M{"seg": seg, "e": "PutBegin", "p": "w", "item": w.absBuilt(b), "class": ps.Class})
			err := wr.Put(b.item())
			tr.Emit(sim.M{"seg": seg, "e": "PutEnd", "p": "w", "code": codeOf(err)})
			if err == nil {
				if ps.Key == focus[0] && ps.Salt == focus[1] {
					lastSeq, lastCas = ps.Seq, ps.Cas
				}
				targets = append(targets, w.targetOf(b))
			}
		case r < 9:
			var t [20]byte
			if len(targets) > 0 && rng.Intn(5) != 0 {
				t = targets[rng.Intn(len(targets))]
			} else {
				t = mutableTarget(w.key(focus[0]).pub[:], w.salts[focus[1]])
			}
			tr.Emit(sim.M{"seg": seg, "e": "GetBegin", "p": "w", "t": w.tgtName(t), "hasseq": false, "seqarg": 0})
			i, err := wr.Get(t)
			rep := sim.M{"val": false, "item": nilItem, "hasrseq": false, "rseq": 0}
			if err == nil && i != nil {
				rep = sim.M{"val": true, "item": w.absBepItem(i, st.isOld(i)), "hasrseq": true, "rseq": absSeq(i.Seq)}
			}
			tr.Emit(sim.M{"seg": seg, "e": "GetEnd", "p": "w", "rep": rep})
		default:
			if len(targets) > 0 {
				st.age(targets[rng.Intn(len(targets))], ageSteps[rng.Intn(len(ageSteps))])
			}
		}
	}
}
