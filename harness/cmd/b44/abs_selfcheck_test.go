//go:build verif

package main

import (
	"math"
	"sort"
	"testing"
)

func TestAbsSeqOrderAndInjective(t *testing.T) {
	var xs []int64
	for _, b := range []int64{0, 1 << 31, 1 << 40, 1 << 62, math.MaxInt64} {
		for d := int64(-30); d <= 30; d++ {
			x := b + d
			if b == math.MaxInt64 && d > 0 {
				continue
			}
			xs = append(xs, x)
			if x != math.MinInt64 {
				xs = append(xs, -x)
			}
		}
	}
	xs = append(xs, math.MinInt64, math.MinInt64+1, 100000, 100001, -100001)
	sort.Slice(xs, func(i, j int) bool { return xs[i] < xs[j] })
	for i := 1; i < len(xs); i++ {
		if xs[i] == xs[i-1] {
			continue
		}
		a, b := absSeq(xs[i-1]), absSeq(xs[i])
		if !(a < b) {
			t.Fatalf("absSeq(%d)=%d not below absSeq(%d)=%d", xs[i-1], a, xs[i], b)
		}
	}
}
