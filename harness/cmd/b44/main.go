// Command b44 drives the BEP 44 code of the repository under test (bep44.Wrapper, the put/get
// handlers and Server.Put of a real dht.Server, exts/getput) and records what it did as ndjson for
// Trace_Bep44.tla / Trace_Bep44Client.tla.
//
//	-mode wrapper    seeded sequential histories through bep44.Wrapper over the recording store
//	-mode conc       the schedules of -sched (complete behaviours of the racy concurrent model) attempted
//	                 on a real bep44.Wrapper over the gating store
//	-mode wire       seeded histories of put/get datagrams (and Server.Put calls) against a real server
//	-mode wireconc   two-putter schedules of -sched with an inbound put racing the local API Server.Put
//	-mode client     getput.Get / getput.Put against simulated remote nodes (in a re-exec'd child:
//	                 a panic in a traversal goroutine kills the process and is an observation)
//	-mode selftest   the harness's own BEP 44 arithmetic against the BEP's test vectors
package main

import (
	"encoding/json"
	"flag"
	"fmt"
	"io"
	"os"
	"os/exec"
	"strconv"
	"strings"

	"verifharness/sim"
)

type status struct {
	Mode         string   `json:"mode"`
	Segments     int      `json:"segments"`
	Events       int      `json:"events"`
	Attempts     int      `json:"attempts"`
	Realised     int      `json:"realised"`
	Unrealisable int      `json:"unrealisable"`
	Deaths       []string `json:"deaths"`
	Skipped      int      `json:"skipped"`
	Errors       []string `json:"errors"`
}

func main() {
	mode := flag.String("mode", "wrapper", "")
	seed := flag.Int64("seed", 1, "")
	n := flag.Int("n", 100, "histories / schedules / cases")
	nops := flag.Int("ops", 16, "operations per sequential history")
	out := flag.String("out", "trace.ndjson", "")
	schedPath := flag.String("sched", "", "schedules (ndjson, one complete model behaviour per line)")
	only := flag.Int("only", -1, "run only this history / schedule / case index")
	danger := flag.Bool("danger", false, "client: include the reply class 'right k, no seq' (anticipated finding 2, property C01)")
	base := flag.Int("base", 0, "conc/wireconc: index of the first schedule of -sched (replay of one schedule keeps its seed)")
	child := flag.Bool("child", false, "internal")
	from := flag.Int("from", 0, "internal")
	flag.Parse()

	if err := selfTest(); err != nil {
		fmt.Fprintln(os.Stderr, "self-test of the harness's BEP 44 arithmetic failed:", err)
		os.Exit(3)
	}
	st := status{Mode: *mode, Deaths: []string{}, Errors: []string{}}
	if *mode == "selftest" {
		emitStatus(st)
		return
	}
	if *mode == "client" && !*child {
		clientParent(&st, *seed, *n, *out, *only, *danger)
		emitStatus(st)
		return
	}
	w := newWorld(*seed)
	if *mode == "client" {
		clientChild(w, *seed, *n, *out, *only, *danger, *from)
		return
	}
	tr, err := sim.NewTrace(*out)
	if err != nil {
		panic(err)
	}
	switch *mode {
	case "wrapper":
		for i := 0; i < *n; i++ {
			if *only >= 0 && i != *only {
				continue
			}
			wrapperSequential(w, tr, *seed, i, *nops)
			st.Segments++
		}
	case "wire":
		for i := 0; i < *n; i++ {
			if *only >= 0 && i != *only {
				continue
			}
			if err := wireSequential(w, tr, *seed, i, *nops); err != nil {
				st.Errors = append(st.Errors, fmt.Sprintf("history %d: %v", i, err))
			}
			st.Segments++
		}
	case "conc", "wireconc":
		scheds, _, err := readSchedules(*schedPath)
		if err != nil {
			panic(err)
		}
		for j, s := range scheds {
			i := j + *base
			if (*only >= 0 && i != *only) || (*n > 0 && st.Attempts >= *n && *only < 0) {
				continue
			}
			var ok bool
			var err error
			if *mode == "conc" {
				ok, err = wrapperConcurrent(w, tr, *seed, i, i, s)
			} else {
				if _, has := s.Ops["g"]; has || len(s.Ops) != 2 {
					st.Skipped++
					continue
				}
				ok, err = wireConcurrent(w, tr, *seed, i, i, s)
			}
			st.Segments++
			st.Attempts++
			if err != nil {
				st.Errors = append(st.Errors, fmt.Sprintf("schedule %d: %v", i, err))
				break // goroutines of the attempt may be stranded at gates; stop here
			}
			if ok {
				st.Realised++
			} else {
				st.Unrealisable++
			}
		}
	default:
		fmt.Fprintln(os.Stderr, "unknown mode", *mode)
		os.Exit(3)
	}
	tr.Close()
	st.Events = tr.Len()
	emitStatus(st)
}

func emitStatus(st status) {
	b, _ := json.Marshal(st)
	fmt.Println(string(b))
}

// ---- client mode: parent / child

func clientChild(w *world, seed int64, n int, out string, only int, danger bool, from int) {
	cases := genClientCases(seed, n, danger)
	part, err := os.OpenFile(out, os.O_APPEND|os.O_CREATE|os.O_WRONLY, 0o644)
	if err != nil {
		panic(err)
	}
	defer part.Close()
	for _, c := range cases {
		if c.Idx < from || (only >= 0 && c.Idx != only) {
			continue
		}
		os.WriteFile(out+".cur", []byte(strconv.Itoa(c.Idx)+" "+describeCase(c)), 0o644)
		tmp := out + ".case"
		tr, err := sim.NewTrace(tmp)
		if err != nil {
			panic(err)
		}
		cerr := runClientCase(w, tr, c.Idx, c)
		tr.Close()
		if cerr != nil {
			fmt.Fprintln(os.Stderr, "CASEERR", cerr)
			os.Remove(tmp)
			continue
		}
		f, _ := os.Open(tmp)
		io.Copy(part, f)
		f.Close()
		os.Remove(tmp)
	}
	os.Remove(out + ".cur")
}

func clientParent(st *status, seed int64, n int, out string, only int, danger bool) {
	os.Remove(out)
	os.Remove(out + ".cur")
	total := len(genClientCases(seed, n, danger))
	from := 0
	for tries := 0; tries < 200; tries++ {
		args := []string{"-mode", "client", "-child", "-seed", fmt.Sprint(seed), "-n", fmt.Sprint(n), "-out", out,
			"-only", fmt.Sprint(only), "-from", fmt.Sprint(from)}
		if danger {
			args = append(args, "-danger")
		}
		cmd := exec.Command(os.Args[0], args...)
		var errb strings.Builder
		cmd.Stderr = &errb
		err := cmd.Run()
		for _, l := range strings.Split(errb.String(), "\n") {
			if strings.HasPrefix(l, "CASEERR ") {
				st.Errors = append(st.Errors, strings.TrimPrefix(l, "CASEERR "))
			}
		}
		if err == nil {
			break
		}
		cur, rerr := os.ReadFile(out + ".cur")
		if rerr != nil {
			st.Errors = append(st.Errors, fmt.Sprintf("client child failed outside a case: %v: %s", err, tail(errb.String(), 600)))
			break
		}
		f := strings.SplitN(string(cur), " ", 2)
		idx, _ := strconv.Atoi(f[0])
		reason := "?"
		for _, l := range strings.Split(errb.String(), "\n") {
			if strings.HasPrefix(l, "panic:") || strings.HasPrefix(l, "fatal error:") {
				reason = l
				break
			}
		}
		where := ""
		for _, l := range strings.Split(errb.String(), "\n") {
			if strings.Contains(l, "exts/getput") && strings.Contains(l, ".go:") {
				where = strings.TrimSpace(l)
				break
			}
		}
		st.Deaths = append(st.Deaths, fmt.Sprintf("%s | %s | %s", f[len(f)-1], reason, where))
		os.Remove(out + ".cur")
		os.Remove(out + ".case")
		from = idx + 1
		if only >= 0 || from >= total {
			break
		}
	}
	// count
	if b, err := os.ReadFile(out); err == nil {
		for _, l := range strings.Split(string(b), "\n") {
			if l != "" {
				st.Events++
			}
			if strings.Contains(l, `"e":"ClientStart"`) {
				st.Segments++
			}
		}
	} else {
		os.WriteFile(out, nil, 0o644)
	}
}

func tail(s string, n int) string {
	if len(s) > n {
		return s[len(s)-n:]
	}
	return s
}
