package main

import (
	"bytes"
	"crypto/ed25519"
	"crypto/sha1"
	"encoding/hex"
	"fmt"
	"math"
	"math/rand"
	"sort"
	"strconv"
	"sync"

	"github.com/anacrolix/dht/v2/bep44"

	"verifharness/sim"
)

// ---------------------------------------------------------------------------------------------
// The harness's OWN BEP 44 arithmetic: bencoding of values (sim.Encode), signing buffer, signing,
// verification, target hashes. Nothing here calls into package bep44 or the bencode package of the
// code under test; the labels written to the trace come from these functions only.

// toSim converts a Go value as handed to / stored by the code under test into the harness's
// bencode model. ok=false: a shape the harness never produces.
func toSim(v any) (sim.Value, bool) {
	switch x := v.(type) {
	case string:
		return []byte(x), true
	case []byte:
		return append([]byte{}, x...), true
	case int:
		return int64(x), true
	case int64:
		return x, true
	case []any:
		l := make([]sim.Value, len(x))
		for i := range x {
			e, ok := toSim(x[i])
			if !ok {
				return nil, false
			}
			l[i] = e
		}
		return l, true
	case map[string]any:
		d := sim.NewDict()
		keys := make([]string, 0, len(x))
		for k := range x {
			keys = append(keys, k)
		}
		sort.Strings(keys)
		for _, k := range keys {
			e, ok := toSim(x[k])
			if !ok {
				return nil, false
			}
			d.Set(k, e)
		}
		return d, true
	}
	return nil, false
}

// fromSim is the inverse direction, for handing values to the Go API.
func fromSim(v sim.Value) any {
	switch x := v.(type) {
	case []byte:
		return string(x)
	case int64:
		return x
	case []sim.Value:
		l := make([]any, len(x))
		for i := range x {
			l[i] = fromSim(x[i])
		}
		return l
	case *sim.Dict:
		m := map[string]any{}
		for _, k := range x.Keys {
			m[k] = fromSim(x.Vals[k])
		}
		return m
	}
	panic(fmt.Sprintf("fromSim %T", v))
}

// signBuffer is the byte string BEP 44 signs: ["4:salt" <bencoded salt>] "3:seqi<seq>e1:v" <bencoded value>.
func signBuffer(salt []byte, seq int64, encV []byte) []byte {
	var b bytes.Buffer
	if len(salt) > 0 {
		b.WriteString("4:salt")
		b.WriteString(strconv.Itoa(len(salt)))
		b.WriteByte(':')
		b.Write(salt)
	}
	b.WriteString("3:seqi")
	b.WriteString(strconv.FormatInt(seq, 10))
	b.WriteString("e1:v")
	b.Write(encV)
	return b.Bytes()
}

func ownSign(priv ed25519.PrivateKey, salt []byte, seq int64, encV []byte) (sig [64]byte) {
	copy(sig[:], ed25519.Sign(priv, signBuffer(salt, seq, encV)))
	return
}

func ownVerify(pub []byte, salt []byte, seq int64, encV []byte, sig []byte) bool {
	if len(pub) != ed25519.PublicKeySize || len(sig) != ed25519.SignatureSize {
		return false
	}
	return ed25519.Verify(ed25519.PublicKey(pub), signBuffer(salt, seq, encV), sig)
}

func mutableTarget(pub []byte, salt []byte) (t [20]byte) {
	return sha1.Sum(append(append([]byte{}, pub...), salt...))
}

func immutableTarget(encV []byte) [20]byte { return sha1.Sum(encV) }

// selfTest checks the arithmetic above against the test vectors published in BEP 44 (the ones
// /repo/bep44/key_test.go uses too).
func selfTest() error {
	unhex := func(s string) []byte {
		b, err := hex.DecodeString(s)
		if err != nil {
			panic(err)
		}
		return b
	}
	pub := unhex("77ff84905a91936367c01360803104f92432fcd904a43511876df5cdf3e7e548")
	encV := sim.Encode([]byte("Hello World!"))
	if string(encV) != "12:Hello World!" {
		return fmt.Errorf("own bencode: %q", encV)
	}
	if got := string(signBuffer(nil, 1, encV)); got != "3:seqi1e1:v12:Hello World!" {
		return fmt.Errorf("own signing buffer (no salt): %q", got)
	}
	if got := string(signBuffer([]byte("foobar"), 1, encV)); got != "4:salt6:foobar3:seqi1e1:v12:Hello World!" {
		return fmt.Errorf("own signing buffer (salt): %q", got)
	}
	sig1 := unhex("305ac8aeb6c9c151fa120f120ea2cfb923564e11552d06a5d856091e5e853cff" +
		"1260d3f39e4999684aa92eb73ffd136e6f4f3ecbfda0ce53a1608ecd7ae21f01")
	sig2 := unhex("6834284b6b24c3204eb2fea824d82f88883a3d95e8b4a21b8c0ded553d17d17d" +
		"df9a8a7104b1258f30bed3787e6cb896fca78c58f8e03b5f18f14951a87d9a08")
	if !ownVerify(pub, nil, 1, encV, sig1) {
		return fmt.Errorf("BEP 44 vector 1 (mutable, no salt) does not verify with the harness's own code")
	}
	if !ownVerify(pub, []byte("foobar"), 1, encV, sig2) {
		return fmt.Errorf("BEP 44 vector 2 (mutable, salt) does not verify with the harness's own code")
	}
	if ownVerify(pub, []byte("foobar"), 1, encV, sig1) || ownVerify(pub, nil, 2, encV, sig1) ||
		ownVerify(pub, nil, 1, sim.Encode([]byte("Hello World?")), sig1) {
		return fmt.Errorf("own verification accepts a signature for other fields")
	}
	t1 := mutableTarget(pub, nil)
	t2 := mutableTarget(pub, []byte("foobar"))
	if hex.EncodeToString(t1[:]) != "4a533d47ec9c7d95b1ad75f576cffc641853b750" ||
		hex.EncodeToString(t2[:]) != "411eba73b6f087ca51a3795d9c8c938d365e32c1" {
		return fmt.Errorf("own mutable target hash differs from the BEP 44 vectors")
	}
	t3 := immutableTarget(encV)
	if hex.EncodeToString(t3[:]) != "e5f96f6f38320f0f33959cb4d3d656452117aadb" {
		return fmt.Errorf("own immutable target hash differs from the BEP 44 vector")
	}
	// sign/verify round trip with a generated key
	_, priv, _ := ed25519.GenerateKey(rand.New(rand.NewSource(7)))
	s := ownSign(priv, []byte("x"), 3, encV)
	if !ownVerify(priv.Public().(ed25519.PublicKey), []byte("x"), 3, encV, s[:]) {
		return fmt.Errorf("own sign/verify round trip")
	}
	return nil
}

// ---------------------------------------------------------------------------------------------
// Abstraction: concrete keys, salts, values, targets, signatures <-> the small names of the spec.

type keyPair struct {
	name string
	pub  [32]byte
	priv ed25519.PrivateKey
}

type world struct {
	mu     sync.Mutex
	keys   []*keyPair
	keyBy  map[[32]byte]string
	salts  map[string][]byte // name -> bytes
	saltBy map[string]string // bytes -> name
	vals   map[string]string // encoded bytes -> name
	valEnc map[string][]byte // name -> encoded bytes
	tgtBy  map[[20]byte][]any
	sigBy  map[[64]byte][]any // what a signature made by the harness really signs
}

var noSig = []any{"none", "", 0, ""}
var garbageSig = []any{"garbage", "", 0, ""}

func newWorld(seed int64) *world {
	w := &world{keyBy: map[[32]byte]string{}, salts: map[string][]byte{}, saltBy: map[string]string{},
		vals: map[string]string{}, valEnc: map[string][]byte{}, tgtBy: map[[20]byte][]any{}, sigBy: map[[64]byte][]any{}}
	rng := rand.New(rand.NewSource(seed ^ 0x5eed44))
	for _, n := range []string{"k1", "k2", "kx"} {
		pub, priv, err := ed25519.GenerateKey(rng)
		if err != nil {
			panic(err)
		}
		kp := &keyPair{name: n, priv: priv}
		copy(kp.pub[:], pub)
		w.keys = append(w.keys, kp)
		w.keyBy[kp.pub] = n
	}
	w.addSalt("s0", nil)
	for _, n := range []int{1, 64, 65, 200} {
		for _, suffix := range []string{"", "b"} {
			b := make([]byte, n)
			rng.Read(b)
			b[0] = byte('A' + len(suffix))
			w.addSalt(fmt.Sprintf("s%d%s", n, suffix), b)
		}
	}
	return w
}

func (w *world) addSalt(name string, b []byte) {
	w.salts[name] = b
	w.saltBy[string(b)] = name
	for _, k := range w.keys {
		w.tgtBy[mutableTarget(k.pub[:], b)] = []any{"m", k.name, name}
	}
}

func (w *world) key(name string) *keyPair {
	for _, k := range w.keys {
		if k.name == name {
			return k
		}
	}
	panic("key " + name)
}

// valName registers (if new) and names an encoded value.
func (w *world) valName(enc []byte) string {
	w.mu.Lock()
	defer w.mu.Unlock()
	if n, ok := w.vals[string(enc)]; ok {
		return n
	}
	n := fmt.Sprintf("v%d", len(w.vals)+1)
	w.vals[string(enc)] = n
	w.valEnc[n] = append([]byte{}, enc...)
	w.tgtBy[immutableTarget(enc)] = []any{"i", n, ""}
	return n
}

func (w *world) saltName(b []byte) string {
	w.mu.Lock()
	defer w.mu.Unlock()
	if n, ok := w.saltBy[string(b)]; ok {
		return n
	}
	h := sha1.Sum(b)
	return "s?" + hex.EncodeToString(h[:4])
}

func (w *world) keyName(k [32]byte) string {
	if n, ok := w.keyBy[k]; ok {
		return n
	}
	return "k?" + hex.EncodeToString(k[:4])
}

func (w *world) tgtName(t [20]byte) []any {
	w.mu.Lock()
	defer w.mu.Unlock()
	if n, ok := w.tgtBy[t]; ok {
		return n
	}
	return []any{"?", hex.EncodeToString(t[:]), ""}
}

// absSeq maps an int64 order-preservingly into the 31-bit integers of the model; injective on the
// values the generators use: |x| <= 100000 and everything within 9999 of 2^31, 2^40, 2^62 or MaxInt64 (on
// either side, and their negatives); anything else collapses onto the gap between two such regions.
var bigBases = []int64{1 << 31, 1 << 40, 1 << 62, math.MaxInt64}

func absSeq(x int64) int {
	if x < 0 {
		if x == math.MinInt64 {
			return -2000000
		}
		return -absSeq(-x)
	}
	if x <= 100000 {
		return int(x)
	}
	r := 1000000 + 20000 // between the small values and the first region
	for i, b := range bigBases {
		switch {
		case x < b-9999:
			return r
		case x-b <= 9999: // b-9999 <= x <= b+9999 (no overflow: x >= b-9999)
			return 1000000 + (i+1)*20000 + 10000 + int(x-b)
		}
		r = 1000000 + (i+2)*20000 // above region i
	}
	return r
}

func (w *world) sign(k *keyPair, saltName string, seq int64, valName string) [64]byte {
	sig := ownSign(k.priv, w.salts[saltName], seq, w.valEnc[valName])
	w.mu.Lock()
	w.sigBy[sig] = []any{k.name, saltName, absSeq(seq), valName}
	w.mu.Unlock()
	return sig
}

var nilItem = sim.M{"nil": true, "mut": false, "key": "", "salt": "", "ssize": 0, "seq": 0, "cas": 0,
	"val": "", "vsize": 0, "sig": noSig, "old": false}

// absItem labels a concrete item. encV is the harness's own encoding of the value (nil: the value has
// a shape the harness cannot encode).
func (w *world) absItem(k [32]byte, salt []byte, seq, cas int64, encV []byte, sig [64]byte, old bool) sim.M {
	vn := "v?"
	if encV != nil {
		vn = w.valName(encV)
	}
	m := sim.M{"nil": false, "mut": false, "key": "", "salt": "", "ssize": 0, "seq": absSeq(seq), "cas": absSeq(cas),
		"val": vn, "vsize": len(encV), "sig": noSig, "old": old}
	if k == ([32]byte{}) {
		return m
	}
	kn, sn := w.keyName(k), w.saltName(salt)
	m["mut"], m["key"], m["salt"], m["ssize"] = true, kn, sn, len(salt)
	if encV != nil && ownVerify(k[:], salt, seq, encV, sig[:]) {
		m["sig"] = []any{kn, sn, absSeq(seq), vn}
		return m
	}
	w.mu.Lock()
	lab, ok := w.sigBy[sig]
	w.mu.Unlock()
	if ok && !(lab[0] == kn && lab[1] == sn && lab[2] == absSeq(seq) && lab[3] == vn) {
		m["sig"] = lab
	} else {
		m["sig"] = garbageSig
	}
	return m
}

func (w *world) absBepItem(i *bep44.Item, old bool) sim.M {
	if i == nil {
		return nilItem
	}
	var enc []byte
	if sv, ok := toSim(i.V); ok {
		enc = sim.Encode(sv)
	}
	return w.absItem(i.K, i.Salt, i.Seq, i.Cas, enc, i.Sig, old)
}

// ---------------------------------------------------------------------------------------------
// Concrete values of a given encoded size and shape.

// mkValue returns a value whose canonical encoding has exactly size bytes (size >= 2), in the given
// shape: 0 string, 1 list, 2 dict, 3 int (size ignored: small), filled from tag.
func mkValue(shape, size int, tag byte) sim.Value {
	str := func(total int) []byte { // a string whose encoding is exactly total bytes (total >= 2)
		for n := total - 2; n >= 0; n-- {
			if len(strconv.Itoa(n))+1+n == total {
				return bytes.Repeat([]byte{tag}, n)
			}
		}
		// sizes like 11 ("9:" + 9 = 11 ok) always have a solution except a few (e.g. total = 12: 9+2=11, 10+3=13)
		return nil
	}
	switch shape {
	case 3:
		return int64(tag)
	case 1: // l <string> <int> e
		for pad := 0; pad < 3; pad++ {
			inner := size - 2 - 3*pad
			if inner >= 2 {
				if s := str(inner); s != nil {
					l := []sim.Value{s}
					for j := 0; j < pad; j++ {
						l = append(l, int64(j+1))
					}
					return l
				}
			}
		}
	case 2: // d 1:a <string> [1:b i1e] e
		for pad := 0; pad < 3; pad++ {
			inner := size - 2 - 3 - 6*pad
			if inner >= 2 {
				if s := str(inner); s != nil {
					d := sim.NewDict().Set("a", s)
					for j := 0; j < pad; j++ {
						d.Set(string(rune('b'+j)), int64(j+1))
					}
					return d
				}
			}
		}
	}
	if s := str(size); s != nil {
		return s
	}
	// no string has exactly this encoded size: a list around a string one shorter in total
	return []sim.Value{str(size - 2)}
}
