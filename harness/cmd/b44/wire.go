package main

import (
	"context"
	"errors"
	"fmt"
	"math/rand"
	"net"
	"strings"
	"time"

	"github.com/anacrolix/dht/v2"
	"github.com/anacrolix/dht/v2/bep44"
	"github.com/anacrolix/log"
	"golang.org/x/time/rate"

	"verifharness/sim"
)

type wireNode struct {
	srv  *dht.Server
	conn *sim.Conn
	st   *recStore
	w    *world
	tr   *sim.Trace
	seg  int
	from *net.UDPAddr
	tok  []byte
	tid  int
	nid  [20]byte
	// goroutine of this server's read loop (inbound handlers run in it)
	serveGid int64
	// a wait for a datagram gave up although the server was still working on it: nothing observed after
	// this point may be judged
	stalled bool
}

func quietLogger() log.Logger { return log.Default.FilterLevel(log.Critical) }

func newWireNode(w *world, tr *sim.Trace, seg int, rng *rand.Rand, starting func() ([]dht.Addr, error)) (*wireNode, error) {
	n := &wireNode{w: w, tr: tr, seg: seg}
	n.conn = sim.NewConn("10.9.0.1:4444")
	n.st = newRecStore(w, tr, seg, expiry)
	cfg := dht.NewDefaultServerConfig()
	cfg.Conn = n.conn
	cfg.NoSecurity = true
	cfg.Store = n.st
	cfg.Exp = expiry
	cfg.StartingNodes = starting
	if starting == nil {
		cfg.StartingNodes = func() ([]dht.Addr, error) { return nil, nil }
	}
	cfg.SendLimiter = rate.NewLimiter(rate.Inf, 1000)
	cfg.Logger = quietLogger()
	cfg.QueryResendDelay = func() time.Duration { return time.Hour }
	rng.Read(cfg.NodeId[:])
	before := map[int64]bool{}
	for _, g := range serveGoroutines() {
		before[g] = true
	}
	srv, err := dht.NewServer(cfg)
	if err != nil {
		return nil, err
	}
	n.srv = srv
	for try := 0; try < 2000 && n.serveGid == 0; try++ {
		for _, g := range serveGoroutines() {
			if !before[g] {
				n.serveGid = g
			}
		}
		if n.serveGid == 0 {
			time.Sleep(50 * time.Microsecond)
		}
	}
	n.from = &net.UDPAddr{IP: net.IPv4(10, 1, byte(rng.Intn(200)), byte(2+rng.Intn(200))), Port: 1024 + rng.Intn(60000)}
	rng.Read(n.nid[:])
	return n, nil
}

func (n *wireNode) close() {
	n.srv.Close()
	n.conn.Close()
}

func (n *wireNode) nextTid() []byte {
	n.tid++
	return []byte(fmt.Sprintf("b%03d", n.tid))
}

// exchange injects one query datagram and returns the reply addressed to the source with that
// transaction id (nil if none arrived).
func (n *wireNode) exchange(d *sim.Dict, tid []byte) *sim.Dict {
	if !n.conn.Inject(sim.Encode(d), n.from, 120*time.Second) {
		n.stalled = true // the read loop did not come back in time: nothing to judge (C01 looks at wedged loops)
		return nil
	}
	return n.awaitReply(tid)
}

func (n *wireNode) awaitReply(tid []byte) *sim.Dict {
	start := time.Now()
	for {
		// before looking: is any reply/error goroutine of the server still on its way?
		busy := sim.CountGoroutines(sim.TransientFrames...) > 0
		for _, o := range n.conn.Take() {
			m, err := sim.DecodeDict(o.B)
			if err != nil {
				continue
			}
			if t, _ := m.Str("t"); string(t) == string(tid) && o.To != nil && o.To.Port == n.from.Port && o.To.IP.Equal(n.from.IP) {
				if y, _ := m.Str("y"); string(y) == "r" || string(y) == "e" {
					return m
				}
			}
		}
		el := time.Since(start)
		if !busy && el > 20*time.Millisecond {
			return nil // silence: the handler is done and no goroutine is left that could still answer
		}
		if el > 120*time.Second {
			// a reply goroutine exists but has not written yet: an overloaded machine, not an observation
			n.stalled = true
			return nil
		}
		time.Sleep(50 * time.Microsecond)
	}
}

// token obtains a write token for the source address with a get query.
func (n *wireNode) token() error {
	tid := n.nextTid()
	var tgt [20]byte
	q := sim.D("t", tid, "y", "q", "q", "get", "a", sim.D("id", n.nid[:], "target", tgt[:]))
	n.st.setQuiet(true)
	r := n.exchange(q, tid)
	n.st.setQuiet(false)
	if r == nil {
		return fmt.Errorf("no reply to the token get")
	}
	tok, ok := r.Dict("r").Str("token")
	if !ok {
		return fmt.Errorf("get reply without token")
	}
	n.tok = tok
	return nil
}

func (n *wireNode) putDatagram(b built, tid []byte) *sim.Dict {
	a := sim.D("id", n.nid[:], "token", n.tok, "v", b.v, "seq", b.seq)
	if b.cas != 0 {
		a.Set("cas", b.cas)
	}
	if b.k != ([32]byte{}) {
		a.Set("k", b.k[:])
		a.Set("sig", b.sig[:])
		if len(b.salt) > 0 {
			a.Set("salt", b.salt)
		}
	}
	return sim.D("t", tid, "y", "q", "q", "put", "a", a)
}

func replyCode(r *sim.Dict) int {
	if r == nil {
		return -1
	}
	if y, _ := r.Str("y"); string(y) == "r" {
		return 0
	}
	if e, ok := r.List("e"); ok && len(e) >= 1 {
		if c, ok := e[0].(int64); ok {
			return int(c)
		}
	}
	return -2
}

// wirePut: one put datagram; the store events are logged by the recording store in between.
func (n *wireNode) wirePut(b built, class string) int {
	tid := n.nextTid()
	n.tr.Emit(sim.M{"seg": n.seg, "e": "WirePut", "p": "w", "item": n.w.absBuilt(b), "class": class})
	code := replyCode(n.exchange(n.putDatagram(b, tid), tid))
	if n.stalled {
		return -1
	}
	n.tr.Emit(sim.M{"seg": n.seg, "e": "WirePutReply", "p": "w", "code": code})
	return code
}

// absReply labels what a get reply carries, for the target that was asked.
func (n *wireNode) absReply(r *sim.Dict, t [20]byte) sim.M {
	rep := sim.M{"val": false, "item": nilItem, "hasrseq": false, "rseq": 0}
	if r == nil {
		return rep
	}
	rr := r.Dict("r")
	if rr == nil {
		return rep
	}
	if q, ok := rr.Int("seq"); ok {
		rep["hasrseq"], rep["rseq"] = true, absSeq(q)
	}
	v, ok := rr.Get("v")
	if !ok {
		return rep
	}
	enc := sim.Encode(v)
	var k [32]byte
	var sig [64]byte
	if kb, ok := rr.Str("k"); ok && len(kb) == 32 {
		copy(k[:], kb)
	}
	if sb, ok := rr.Str("sig"); ok && len(sb) == 64 {
		copy(sig[:], sb)
	}
	seq, _ := rr.Int("seq")
	// the salt is the requester's: the one of the requested target if the reply's key belongs to it
	var salt []byte
	tn := n.w.tgtName(t)
	if k != ([32]byte{}) {
		if tn[0] == "m" && tn[1] == n.w.keyName(k) {
			salt = n.w.salts[tn[2].(string)]
		} else {
			salt = []byte("?unrelated?")
		}
	}
	rep["val"] = true
	rep["item"] = n.w.absItem(k, salt, seq, 0, enc, sig, false)
	return rep
}

func (n *wireNode) wireGet(t [20]byte, hasSeq bool, seqArg int64, decoy sim.Value) {
	tid := n.nextTid()
	a := sim.D("id", n.nid[:], "target", t[:])
	if hasSeq {
		a.Set("seq", seqArg)
	}
	if decoy != nil {
		// fields a get has no use for: nothing of them may come back
		a.Set("v", decoy)
		a.Set("salt", []byte("decoy"))
	}
	n.tr.Emit(sim.M{"seg": n.seg, "e": "WireGet", "p": "w", "t": n.w.tgtName(t), "hasseq": hasSeq, "seqarg": absSeq(seqArg)})
	r := n.exchange(sim.D("t", tid, "y", "q", "q", "get", "a", a), tid)
	if n.stalled {
		return
	}
	n.tr.Emit(sim.M{"seg": n.seg, "e": "WireGetReply", "p": "w", "rep": n.absReply(r, t), "answered": r != nil})
}

// wireSequential: one seeded history of put/get datagrams (and local API puts) against a real server.
func wireSequential(w *world, tr *sim.Trace, seed int64, seg int, nops int) error {
	rng := rand.New(rand.NewSource(seed*1000003 + int64(seg)))
	n, err := newWireNode(w, tr, seg, rng, nil)
	if err != nil {
		return err
	}
	defer n.close()
	tr.Emit(sim.M{"seg": seg, "e": "Reset", "mode": "wire", "seed": seed, "idx": seg})
	if err := n.token(); err != nil {
		return err
	}
	vals, small, sized := segValues(w, rng)
	focus := [2]string{[]string{"k1", "k2"}[rng.Intn(2)], []string{"s0", "s1", "s64"}[rng.Intn(3)]}
	var lastSeq, lastCas int64
	var targets [][20]byte
	for op := 0; op < nops; op++ {
		if n.stalled {
			return fmt.Errorf("gave up waiting for a reply the server was still producing (overloaded machine)")
		}
		switch r := rng.Intn(10); {
		case r < 6:
			ps := genPut(rng, small, sized, lastSeq, lastCas, focus)
			b := w.build(ps, vals)
			var code int
			if rng.Intn(5) == 0 {
				code = n.localPut(b, ps.Class, nil)
			} else {
				code = n.wirePut(b, ps.Class)
			}
			if code == 0 {
				if ps.Key == focus[0] && ps.Salt == focus[1] {
					lastSeq, lastCas = ps.Seq, ps.Cas
				}
				targets = append(targets, w.targetOf(b))
			}
		case r < 9:
			var t [20]byte
			if len(targets) > 0 && rng.Intn(5) != 0 {
				t = targets[rng.Intn(len(targets))]
			} else {
				t = mutableTarget(w.key(focus[0]).pub[:], w.salts[focus[1]])
			}
			hs := rng.Intn(2) == 0
			var sa int64
			if hs {
				switch rng.Intn(4) {
				case 0:
					sa = lastSeq
				case 1:
					sa = lastSeq - 1
				case 2:
					sa = lastSeq + 1
					if sa < 0 {
						sa = lastSeq
					}
				default:
					sa = seqPool[rng.Intn(len(seqPool))]
				}
			}
			var decoy sim.Value
			if rng.Intn(3) == 0 {
				decoy = vals[small[rng.Intn(len(small))]]
			}
			n.wireGet(t, hs, sa, decoy)
		default:
			if len(targets) > 0 {
				n.st.age(targets[rng.Intn(len(targets))], ageSteps[rng.Intn(len(ageSteps))])
			}
		}
	}
	return nil
}

// localPut: Server.Put (the local API stores first, then sends the put to a remote node). The call is
// let go once the store part is over: the query it sends is never answered, its context is cancelled.
// bound: called in the goroutine doing the call, before it (schedule engine).
func (n *wireNode) localPut(b built, class string, cancelOut *context.CancelFunc) int {
	n.tr.Emit(sim.M{"seg": n.seg, "e": "PutBegin", "p": "a", "item": n.w.absBuilt(b), "class": class, "api": "Server.Put"})
	code := n.doLocalPut(b, cancelOut)
	n.tr.Emit(sim.M{"seg": n.seg, "e": "PutEnd", "p": "a", "code": code})
	return code
}

func (n *wireNode) doLocalPut(b built, cancelOut *context.CancelFunc) int {
	n.st.bind("a")
	ctx, cancel := context.WithCancel(context.Background())
	if cancelOut != nil {
		*cancelOut = cancel
	} else {
		// sequential use: the query goes out after the store part; cancel as soon as it is on the wire
		go func() {
			deadline := time.Now().Add(10 * time.Second)
			for time.Now().Before(deadline) {
				select {
				case <-ctx.Done():
					return
				default:
				}
				for _, o := range n.conn.Take() {
					if m, err := sim.DecodeDict(o.B); err == nil {
						if q, _ := m.Str("q"); string(q) == "put" {
							cancel()
							return
						}
					}
				}
				time.Sleep(50 * time.Microsecond)
			}
			cancel()
		}()
	}
	p := bep44.Put{V: fromSim(b.v), Salt: b.salt, Sig: b.sig, Cas: b.cas, Seq: b.seq}
	if b.k != ([32]byte{}) {
		k := b.k
		p.K = &k
	}
	remote := dht.NewAddr(&net.UDPAddr{IP: net.IPv4(10, 2, 0, 9), Port: 7000})
	res := n.srv.Put(ctx, remote, p, "tok", dht.QueryRateLimiting{})
	cancel()
	if res.Err == nil {
		return 0
	}
	if c := codeOf(res.Err); c > 0 {
		return c
	}
	// not a KRPC error: the store accepted and the (unanswered) query ended with the context
	if errors.Is(res.Err, context.Canceled) {
		return 0
	}
	return -2
}

// wireConcurrent attempts one two-putter schedule with p1 = an inbound put datagram (handled under the
// server lock) and p2 = the local API Server.Put, over one gating store.
func wireConcurrent(w *world, tr *sim.Trace, seed int64, seg int, idx int, s schedule) (bool, error) {
	rng := rand.New(rand.NewSource(seed*1000003 + int64(idx)))
	n, err := newWireNode(w, tr, seg, rng, nil)
	if err != nil {
		return false, err
	}
	defer n.close()
	c := concretise(w, rng)
	tr.Emit(sim.M{"seg": seg, "e": "Reset", "mode": "wireconc", "seed": seed, "idx": idx})
	if err := n.token(); err != nil {
		return false, err
	}
	tgt := mutableTarget(w.key(c.key).pub[:], w.salts[c.salt])
	if !s.Init.Nil {
		n.wirePut(w.build(c.spec(s.Init), c.vals), "ok")
		if s.Init.Old {
			n.st.age(tgt, expiry+expiry/2)
		}
	}
	names := map[string]string{"p1": "w", "p2": "a"}
	var order []string
	for _, o := range s.Order {
		order = append(order, names[o])
	}
	e := &engine{st: n.st, tr: tr, seg: seg}
	b1 := w.build(c.spec(s.Ops["p1"].Item), c.vals)
	b2 := w.build(c.spec(s.Ops["p2"].Item), c.vals)
	tid := n.nextTid()
	tr.Emit(sim.M{"seg": seg, "e": "WirePut", "p": "w", "item": w.absBuilt(b1)})
	tr.Emit(sim.M{"seg": seg, "e": "PutBegin", "p": "a", "item": w.absBuilt(b2), "api": "Server.Put"})
	serveGid := n.serveGid
	e.procs = append(e.procs, &sproc{name: "w",
		gidFn: func() int64 { return serveGid },
		run: func() sim.M {
			code := replyCode(n.exchangeKeep(n.putDatagram(b1, tid), tid))
			if n.stalled {
				return sim.M{"e": "Note", "kind": "stalled"}
			}
			return sim.M{"e": "WirePutReply", "p": "w", "code": code}
		}})
	var cancel context.CancelFunc
	e.procs = append(e.procs, &sproc{name: "a",
		run: func() sim.M {
			return sim.M{"e": "PutEnd", "p": "a", "code": n.doLocalPut(b2, &cancel)}
		},
		pastFn: func(gid int64) bool { return strings.Contains(goroutineStack(gid), "dht/v2.(*Server).Query") },
		finish: func() {
			if cancel != nil {
				cancel()
			}
		}})
	ok, err := e.attempt(order)
	if err == nil && n.stalled {
		err = fmt.Errorf("gave up waiting for a reply the server was still producing (overloaded machine)")
	}
	return ok, err
}

// exchangeKeep is exchange for the concurrent case: other datagrams (the local put's query) stay captured.
func (n *wireNode) exchangeKeep(d *sim.Dict, tid []byte) *sim.Dict {
	if !n.conn.Inject(sim.Encode(d), n.from, 120*time.Second) {
		n.stalled = true
		return nil
	}
	return n.awaitReply(tid)
}
