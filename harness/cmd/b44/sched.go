package main

import (
	"bytes"
	"fmt"
	"runtime"
	"strconv"
	"strings"
	"sync/atomic"
	"time"

	"verifharness/sim"
)

// A schedule attempt: the processes' store calls are parked by the gating store and released in the
// order the schedule asks for. If the code under test does not get to the store call the schedule
// wants next (a lock of the code holds it back, or it decided differently from the model), the
// attempt is unrealisable; the rest is released in arrival order. Either way the recorded trace is a
// real execution and is judged by the trace validator on the outcome only.

type sproc struct {
	name   string
	run    func() sim.M  // performs the operation, returns the end event (without seg)
	gidFn  func() int64  // goroutine doing the store calls, if not the one running run()
	finish func()        // lets run() return once its store calls are over (wire: cancels the query)
	pastFn func(gid int64) bool // the process is past its store calls though run() has not returned
	gid    int64
	resCh  chan sim.M
	ended  bool
}

type engine struct {
	st      *recStore
	tr      *sim.Trace
	seg     int
	procs   []*sproc
	pending map[string]*call
}

var errStuck = fmt.Errorf("schedule engine: no progress")

func lockish(status string) bool {
	return strings.Contains(status, "Mutex") || strings.Contains(status, "semacquire") || strings.Contains(status, "Lock")
}

func (e *engine) proc(name string) *sproc {
	for _, p := range e.procs {
		if p.name == name {
			return p
		}
	}
	return nil
}

func (e *engine) poll() {
	for _, p := range e.procs {
		if p.ended {
			continue
		}
		if e.pending[p.name] == nil {
			select {
			case c := <-e.st.arriveCh(p.name):
				e.pending[p.name] = c
			default:
			}
		}
		select {
		case ev := <-p.resCh:
			ev["seg"] = e.seg
			e.tr.Emit(ev)
			p.ended = true
		default:
		}
	}
}

// settle waits until process name is parked at a store call ("gate"), has returned ("ret"), or is held
// back by the code under test ("blocked").
func (e *engine) settle(name string) (string, error) {
	p := e.proc(name)
	if p == nil {
		return "", fmt.Errorf("unknown process %q", name)
	}
	start := time.Now()
	lockSamples := 0
	for it := 0; ; it++ {
		e.poll()
		if e.pending[name] != nil {
			return "gate", nil
		}
		if p.ended {
			return "ret", nil
		}
		el := time.Since(start)
		if it > 20 {
			gid := atomic.LoadInt64(&p.gid)
			if p.gidFn != nil {
				gid = p.gidFn()
			}
			if gid > 0 && p.pastFn != nil && p.pastFn(gid) {
				e.poll()
				if e.pending[name] != nil {
					return "gate", nil
				}
				return "past", nil
			}
			if gid > 0 {
				if lockish(goroutineStatus(gid)) {
					lockSamples++
				} else {
					lockSamples = 0
				}
				if lockSamples >= 3 {
					e.poll()
					if e.pending[name] != nil {
						return "gate", nil
					}
					if p.ended {
						return "ret", nil
					}
					return "blocked", nil
				}
			}
			time.Sleep(100 * time.Microsecond)
		} else {
			runtime.Gosched()
		}
		if el > 1500*time.Millisecond {
			return "blocked", nil // some other kind of synchronisation
		}
	}
}

func (e *engine) step(name string) error {
	c := e.pending[name]
	delete(e.pending, name)
	close(c.release)
	select {
	case <-c.done:
	case <-time.After(10 * time.Second):
		return errStuck
	}
	_, err := e.settle(name)
	return err
}

// attempt runs the processes under the schedule; returns whether the schedule was realised.
func (e *engine) attempt(order []string) (bool, error) {
	e.pending = map[string]*call{}
	e.st.setGating(true)
	defer e.st.setGating(false)
	for _, p := range e.procs {
		p := p
		p.resCh = make(chan sim.M, 1)
		go func() {
			atomic.StoreInt64(&p.gid, goid())
			p.resCh <- p.run()
		}()
	}
	realised := true
	done := 0
	for _, name := range order {
		st, err := e.settle(name)
		if err != nil {
			return false, err
		}
		if st != "gate" {
			realised = false
			break
		}
		if err := e.step(name); err != nil {
			return false, err
		}
		done++
	}
	// the rest in arrival order (rank order among those parked)
	deadline := time.Now().Add(20 * time.Second)
	finished := false
	for {
		e.poll()
		all := true
		for _, p := range e.procs {
			all = all && p.ended
		}
		if all {
			break
		}
		progressed := false
		for _, p := range e.procs {
			if e.pending[p.name] != nil {
				if realised && done == len(order) {
					realised = false // the code makes a store call the model's behaviour does not contain
				}
				if err := e.step(p.name); err != nil {
					return false, err
				}
				progressed = true
				break
			}
		}
		if progressed {
			continue
		}
		if !finished {
			// nobody is parked: whoever is left is past its store calls or still on its way to one
			quiet := true
			for _, p := range e.procs {
				if !p.ended {
					st, _ := e.settle(p.name)
					quiet = quiet && (st == "blocked" || st == "past")
				}
			}
			if quiet {
				for _, p := range e.procs {
					if !p.ended && p.finish != nil {
						p.finish()
					}
				}
				finished = true
			}
			continue
		}
		if time.Now().After(deadline) {
			return false, errStuck
		}
		time.Sleep(50 * time.Microsecond)
	}
	e.tr.Emit(sim.M{"seg": e.seg, "e": "Note", "kind": "attempt", "realised": realised, "order": order})
	return realised, nil
}

// serveGoroutines returns the ids of the goroutines running a dht.Server read loop.
func serveGoroutines() (ids []int64) {
	buf := make([]byte, 1<<18)
	for {
		n := runtime.Stack(buf, true)
		if n < len(buf) {
			buf = buf[:n]
			break
		}
		buf = make([]byte, 2*len(buf))
	}
	for _, g := range bytes.Split(buf, []byte("\n\n")) {
		if bytes.Contains(g, []byte("dht/v2.(*Server).serveUntilClosed")) {
			f := bytes.Fields(g)
			if len(f) >= 2 {
				id, _ := strconv.ParseInt(string(f[1]), 10, 64)
				ids = append(ids, id)
			}
		}
	}
	return
}

// goroutineStack returns the stack text of goroutine id ("" if gone).
func goroutineStack(id int64) string {
	buf := make([]byte, 1<<18)
	for {
		n := runtime.Stack(buf, true)
		if n < len(buf) {
			buf = buf[:n]
			break
		}
		buf = make([]byte, 2*len(buf))
	}
	pre := []byte("goroutine " + strconv.FormatInt(id, 10) + " [")
	for _, g := range bytes.Split(buf, []byte("\n\n")) {
		if bytes.HasPrefix(g, pre) {
			return string(g)
		}
	}
	return ""
}
