// Command trav drives traversal.Start of the repository under test through seeded random
// response graphs with a gated DoQuery callback (the driver, not the Go scheduler, decides which
// in-flight query completes next), and records the hook events of build tag verif as an ndjson
// trace for Trace_Traversal.tla.
package main

import (
	"context"
	"encoding/json"
	"flag"
	"fmt"
	"math/rand"
	"net/netip"
	"os"
	"sort"
	"sync"
	"sync/atomic"
	"time"

	"github.com/anacrolix/dht/v2"
	k_nearest_nodes "github.com/anacrolix/dht/v2/k-nearest-nodes"
	"github.com/anacrolix/dht/v2/krpc"
	"github.com/anacrolix/dht/v2/traversal"
	"github.com/anacrolix/dht/v2/types"
	"github.com/anacrolix/generics"
	"github.com/anacrolix/log"

	"github.com/anacrolix/dht/v2/int160"
	"verifharness/sim"
)

type cand struct {
	Addr string `json:"addr"`
	Id   int    `json:"id"`
}

type nodeBehaviour struct {
	silent bool
	id     int
	data   int // 0 string token, 1 nil, 2 non-string
	nodes  []cand
}

type held struct {
	addr    string
	release chan struct{}
	ctx     context.Context
}

type lookup struct {
	emb     sim.Embedding
	k       int
	alpha   int
	target  int
	addrs   []string
	net     map[string]nodeBehaviour
	bad     map[string]bool
	badp    map[cand]bool
	srvbad  map[string]bool // addresses only the Server's own lookup filter stands between the lookup and a query
	tr      *sim.Trace
	seg     int
	mu      sync.Mutex
	counts  map[string]int
	conc    int
	maxconc int
	enter   chan *held
	done    int32 // QueryDone events seen
	exit    chan struct{}
	forms   *rand.Rand // which byte form an IPv4 address is reported in

	// scheduler gate (hook VerifGate): holds the run loop between releasing op.mu and blocking in select,
	// so that a broadcast can be placed exactly where a wake-up could be lost
	gateArmed   int32
	atGate      chan struct{}
	gateRelease chan struct{}
	gates       int
}

func (lk *lookup) gate(op *traversal.Operation, point string) {
	if atomic.CompareAndSwapInt32(&lk.gateArmed, 1, 0) {
		lk.atGate <- struct{}{}
		<-lk.gateRelease
	}
}

// holdLoop arms the gate and waits for the run loop to park in it.
func (lk *lookup) holdLoop(d time.Duration) bool {
	select {
	case <-lk.atGate:
		lk.gates++
		return true
	case <-time.After(d):
		if atomic.CompareAndSwapInt32(&lk.gateArmed, 1, 0) {
			return false // the loop did not come round; nothing is held
		}
		<-lk.atGate // it arrived just now
		lk.gates++
		return true
	}
}

func (lk *lookup) absID(id krpc.ID) int { return lk.emb.MustAbs(id) }

func (lk *lookup) candOf(a types.AddrMaybeId) cand {
	c := cand{Addr: canon(a.Addr.AddrPort), Id: -1}
	if a.Id.Ok {
		c.Id = lk.absID(a.Id.Value.AsByteArray())
	}
	return c
}

// canon is the harness's notion of an address: IP and port, whatever byte form the IP was reported in
// (an IPv4 address in 4 bytes and the same address v4-mapped in 16 bytes are one address).
func canon(ap netip.AddrPort) string {
	return netip.AddrPortFrom(ap.Addr().Unmap(), ap.Port()).String()
}

func canonNA(a krpc.NodeAddr) string { return canon(a.ToNodeAddrPort().AddrPort) }

// otherForm returns the same IPv4 address in the 16-byte v4-mapped form.
func otherForm(a krpc.NodeAddr) krpc.NodeAddr {
	if ip4 := a.IP.To4(); ip4 != nil {
		a.IP = ip4.To16()
	}
	return a
}

func parseAddr(s string) krpc.NodeAddr {
	ap := netip.MustParseAddrPort(s)
	var na krpc.NodeAddr
	na.FromAddrPort(ap)
	return na
}

func (lk *lookup) ami(c cand) types.AddrMaybeId {
	na := parseAddr(c.Addr)
	if lk.forms.Intn(4) == 0 {
		na = otherForm(na)
	}
	r := types.AddrMaybeId{Addr: na.ToNodeAddrPort()}
	if c.Id >= 0 {
		r.Id = generics.Some(int160.FromByteArray(lk.emb.Conc(c.Id)))
	}
	return r
}

func (lk *lookup) nodeInfo(c cand) krpc.NodeInfo {
	na := parseAddr(c.Addr)
	if lk.forms.Intn(4) == 0 {
		na = otherForm(na)
	}
	return krpc.NodeInfo{ID: lk.emb.Conc(c.Id), Addr: na}
}

func (lk *lookup) nodeOK(c cand) bool { return !lk.bad[c.Addr] && !lk.badp[c] }

// The filter every built-in lookup of the Server uses (port 0, 0.0.0.0/8, blocklist; BEP 42 is off here):
// in a third of the adversarial lookups the addresses it must reject are left to it alone.
var (
	filterSrv     *dht.Server
	filterSrvOnce sync.Once
)

const blockedIP = "10.9.9.9"

func serverFilter(a types.AddrMaybeId) bool {
	filterSrvOnce.Do(func() {
		cfg := dht.NewDefaultServerConfig()
		cfg.Conn = sim.NewConn("45.9.9.9:4000")
		cfg.NoSecurity = true
		cfg.StartingNodes = func() ([]dht.Addr, error) { return nil, nil }
		cfg.Logger = log.Default.FilterLevel(log.Critical)
		bl := sim.BlockSet{}
		bl.Add(netip.MustParseAddr(blockedIP).AsSlice())
		cfg.IPBlocklist = bl
		srv, err := dht.NewServer(cfg)
		if err != nil {
			panic(err)
		}
		filterSrv = srv
	})
	return filterSrv.TraversalNodeFilter(a)
}

func (lk *lookup) filter(a types.AddrMaybeId) bool {
	c := lk.candOf(a)
	if lk.srvbad[c.Addr] {
		return serverFilter(a) && !lk.badp[c]
	}
	if len(lk.srvbad) != 0 && !serverFilter(a) {
		return false
	}
	return lk.nodeOK(c)
}

func (lk *lookup) sink(op *traversal.Operation, ev traversal.VerifEvent) {
	m := sim.M{"e": ev.Kind, "seg": lk.seg}
	switch ev.Kind {
	case "AddNode":
		m["c"] = lk.candOf(*ev.Cand)
		m["res"] = ev.Res
		m["nu"] = ev.Nu
	case "StartQuery", "QueryDone":
		m["c"] = lk.candOf(*ev.Cand)
		m["out"] = ev.Out
		m["nu"] = ev.Nu
		if ev.Kind == "QueryDone" {
			atomic.AddInt32(&lk.done, 1)
		}
	case "Returned":
		m["c"] = lk.candOf(*ev.Cand)
		r := ev.Result
		m["ok"] = r.ResponseFrom != nil
		m["id"] = -1
		if r.ResponseFrom != nil {
			m["id"] = lk.absID(r.ResponseFrom.ID)
		}
		_, isStr := r.ClosestData.(string)
		m["dok"] = isStr
		ns := []cand{}
		for _, l := range [][]krpc.NodeInfo{r.Nodes, r.Nodes6} {
			for _, n := range l {
				ns = append(ns, cand{Addr: canonNA(n.Addr), Id: lk.absID(n.ID)})
			}
		}
		m["nodes"] = ns
	case "Closest":
		m["addr"] = canonNA(ev.Node.Addr)
		m["id"] = lk.absID(ev.Node.ID)
		m["nodeOk"] = ev.Flag
		m["dataOk"] = ev.Flag2
		cl := []cand{}
		for _, k := range ev.Closest {
			cl = append(cl, cand{Addr: canon(k.Addr.AddrPort), Id: lk.absID(k.ID)})
		}
		m["closest"] = cl
	case "RunEval":
		m["offer"] = ev.Flag
		m["have"] = ev.Flag2
		m["out"] = ev.Out
		m["nu"] = ev.Nu
	case "StopperDone":
		m["out"] = ev.Out
	case "RunExit":
		defer close(lk.exit)
	}
	lk.tr.Buf(ev.Seq, m)
}

func (lk *lookup) harnessEv(kind string) {
	lk.tr.Buf(traversal.VerifNextSeq(), sim.M{"e": kind, "seg": lk.seg})
}

func (lk *lookup) doQuery(ctx context.Context, addr krpc.NodeAddr) traversal.QueryResult {
	a := canonNA(addr)
	lk.mu.Lock()
	lk.counts[a]++
	lk.conc++
	if lk.conc > lk.maxconc {
		lk.maxconc = lk.conc
	}
	lk.mu.Unlock()
	h := &held{addr: a, release: make(chan struct{}), ctx: ctx}
	lk.enter <- h
	<-h.release
	lk.mu.Lock()
	lk.conc--
	lk.mu.Unlock()
	b, ok := lk.net[a]
	if !ok || b.silent {
		return traversal.QueryResult{}
	}
	res := traversal.QueryResult{ResponseFrom: &krpc.NodeInfo{ID: lk.emb.Conc(b.id), Addr: addr}}
	switch b.data {
	case 0:
		res.ClosestData = fmt.Sprintf("tok-%s", a)
	case 2:
		res.ClosestData = 42
	}
	for i, c := range b.nodes {
		// spread over both lists, as a real reply would by family; the traversal treats them alike
		if i%3 == 2 {
			res.Nodes6 = append(res.Nodes6, lk.nodeInfo(c))
		} else {
			res.Nodes = append(res.Nodes, lk.nodeInfo(c))
		}
	}
	return res
}

type hang struct {
	Seed   int64  `json:"seed"`
	Lookup int    `json:"lookup"`
	What   string `json:"what"`
	Snap   any    `json:"snap"`
	// starvation guard: how often a 1 ms sleeper of this process got to run, and over which period
	Ticks    int64 `json:"ticks"`
	WindowMs int64 `json:"window_ms"`
}

var beat int64
var beatStart = time.Now()

func init() {
	go func() {
		for {
			time.Sleep(time.Millisecond)
			atomic.AddInt64(&beat, 1)
		}
	}()
}

var errHang = fmt.Errorf("hang")

func genLookup(rng *rand.Rand, seg int, tr *sim.Trace, big bool) *lookup {
	w := 3 + rng.Intn(4)
	lk := &lookup{
		emb: sim.NewEmbedding(rng, w), seg: seg, tr: tr,
		net: map[string]nodeBehaviour{}, bad: map[string]bool{}, badp: map[cand]bool{}, srvbad: map[string]bool{},
		counts: map[string]int{}, enter: make(chan *held, 64), exit: make(chan struct{}),
		forms:  rand.New(rand.NewSource(rng.Int63())),
		atGate: make(chan struct{}, 1), gateRelease: make(chan struct{}),
	}
	lk.k = 1 + rng.Intn(3)
	if rng.Intn(8) == 0 {
		lk.k = 8
	}
	lk.alpha = 1 + rng.Intn(3)
	lk.target = rng.Intn(1 << w)
	n := 3 + rng.Intn(5)
	if big {
		n = 6 + rng.Intn(8)
	}
	for i := 0; i < n+2; i++ {
		var a string
		switch rng.Intn(6) {
		case 0:
			a = fmt.Sprintf("[2001:db8::%x]:%d", 1+rng.Intn(4), 1000+rng.Intn(3))
		case 1:
			a = fmt.Sprintf("10.0.0.1:%d", 2000+rng.Intn(6)) // same IP, several ports
		default:
			a = fmt.Sprintf("10.0.%d.%d:%d", rng.Intn(2), 2+rng.Intn(20), 6881+rng.Intn(2))
		}
		dup := false
		for _, x := range lk.addrs {
			dup = dup || x == a
		}
		if !dup {
			lk.addrs = append(lk.addrs, a)
		}
	}
	honest := rng.Intn(4) == 0
	if !honest && rng.Intn(3) == 0 {
		for _, a := range []string{"10.0.0.7:0", "0.1.2.3:6881", blockedIP + ":6881", "[2001:db8::9]:0"} {
			if rng.Intn(2) == 0 {
				lk.srvbad[a], lk.bad[a] = true, true
				lk.addrs = append([]string{a}, lk.addrs...)
			}
		}
	}
	live := lk.addrs
	if len(live) > 2 {
		live = live[:len(live)-1] // the last address is only ever mentioned, nobody is there
	}
	ids := map[string]int{}
	for _, a := range lk.addrs {
		ids[a] = rng.Intn(1 << w)
		if rng.Intn(6) == 0 && len(ids) > 1 { // duplicate ID at another address
			ids[a] = ids[lk.addrs[0]]
		}
	}
	for _, a := range live {
		b := nodeBehaviour{id: ids[a]}
		if !honest {
			b.silent = rng.Intn(5) == 0
			switch rng.Intn(7) {
			case 0:
				b.data = 1
			case 1:
				b.data = 2
			}
		}
		if honest {
			// the true k closest of the network
			all := append([]string{}, live...)
			sort.Slice(all, func(i, j int) bool { return ids[all[i]]^lk.target < ids[all[j]]^lk.target })
			for i := 0; i < len(all) && i < lk.k+1; i++ {
				b.nodes = append(b.nodes, cand{all[i], ids[all[i]]})
			}
		} else {
			m := rng.Intn(5)
			for j := 0; j < m; j++ {
				x := lk.addrs[rng.Intn(len(lk.addrs))]
				id := ids[x]
				if rng.Intn(3) == 0 { // a liar: some other ID for that address
					id = rng.Intn(1 << w)
				}
				b.nodes = append(b.nodes, cand{x, id})
				if rng.Intn(4) == 0 { // the same address again under another ID
					b.nodes = append(b.nodes, cand{x, rng.Intn(1 << w)})
				}
			}
		}
		lk.net[a] = b
	}
	if !honest {
		for _, a := range lk.addrs {
			if rng.Intn(7) == 0 {
				lk.bad[a] = true
			}
		}
		for _, b := range lk.net {
			for _, c := range b.nodes {
				if rng.Intn(8) == 0 {
					lk.badp[c] = true
				}
			}
		}
		for _, a := range live {
			if rng.Intn(8) == 0 { // passes as a candidate under the listed ID, fails as the responder it is
				lk.badp[cand{a, ids[a]}] = true
			}
		}
	}
	return lk
}

func (lk *lookup) run(rng *rand.Rand, seed int64, idx int, concurrent bool) (err error) {
	traversal.VerifSink = lk.sink
	traversal.VerifGate = lk.gate
	defer func() { traversal.VerifSink = nil; traversal.VerifGate = nil }()
	badl := []string{}
	for a := range lk.bad {
		badl = append(badl, a)
	}
	sort.Strings(badl)
	badpl := [][]any{}
	for c := range lk.badp {
		badpl = append(badpl, []any{c.Addr, c.Id})
	}
	sort.Slice(badpl, func(i, j int) bool { return fmt.Sprint(badpl[i]) < fmt.Sprint(badpl[j]) })
	lk.tr.Buf(traversal.VerifNextSeq(), sim.M{"e": "Start", "seg": lk.seg, "k": lk.k, "alpha": lk.alpha,
		"target": lk.target, "bad": badl, "badp": badpl, "addrs": lk.addrs, "seed": seed, "lookup": idx})
	firstGate := rng.Intn(2) == 0
	if firstGate {
		atomic.StoreInt32(&lk.gateArmed, 1)
	}
	op := traversal.Start(traversal.OperationInput{
		Target: lk.emb.Conc(lk.target), K: lk.k, Alpha: lk.alpha, DoQuery: lk.doQuery,
		NodeFilter: lk.filter,
		DataFilter: func(d any) bool { _, ok := d.(string); return ok },
	})
	randCands := func(n int) (r []types.AddrMaybeId) {
		for i := 0; i < n; i++ {
			a := lk.addrs[rng.Intn(len(lk.addrs))]
			c := cand{a, -1}
			if rng.Intn(3) != 0 {
				if b, ok := lk.net[a]; ok && rng.Intn(4) != 0 {
					c.Id = b.id
				} else {
					c.Id = rng.Intn(1 << lk.emb.W)
				}
			}
			r = append(r, lk.ami(c))
		}
		return
	}
	var heldQ []*held
	released := 0
	drain := func() {
		for {
			select {
			case h := <-lk.enter:
				heldQ = append(heldQ, h)
			default:
				return
			}
		}
	}
	quiesce := func() error {
		mark()
		deadline := time.Now().Add(15 * time.Second)
		for {
			drain()
			s := op.VerifSnapshot()
			if int(atomic.LoadInt32(&lk.done)) == released && s.Outstanding == len(heldQ) &&
				(s.Stopping || s.Outstanding >= lk.alpha || !s.HaveQuery) {
				return nil
			}
			if time.Now().After(deadline) {
				writeHang(hang{Seed: seed, Lookup: idx, What: "no quiescence: a query should have been started or finished", Snap: s})
				return errHang
			}
			time.Sleep(20 * time.Microsecond)
		}
	}
	consDone := make(chan struct{}, 8)
	consWaiting := false
	startCons := func() {
		consWaiting = true
		lk.harnessEv("ConsWait")
		go func() {
			<-op.Stalled()
			lk.harnessEv("ConsGot")
			consDone <- struct{}{}
		}()
	}
	if firstGate {
		// the loop's first pass (empty frontier) is held between unlock and select; the seeds arrive there
		mark()
		if !lk.holdLoop(30 * time.Second) {
			writeHang(hang{Seed: seed, Lookup: idx, What: "run loop never reached its first select", Snap: op.VerifSnapshot()})
			return errHang
		}
		op.AddNodes(randCands(1 + rng.Intn(3)))
		lk.gateRelease <- struct{}{}
	} else {
		op.AddNodes(randCands(1 + rng.Intn(3)))
	}
	lateLeft := rng.Intn(3)
	wantStop := rng.Intn(3) == 0
	stopped := false
	uncancelled := 0
	doStop := func() {
		op.Stop()
		stopped = true
		drain()
		// every query still in flight must see its context cancelled
		for _, h := range heldQ {
			select {
			case <-h.ctx.Done():
			case <-time.After(20 * time.Second):
				uncancelled++
			}
		}
	}
	for step := 0; ; step++ {
		if !concurrent || rng.Intn(2) == 0 {
			if err := quiesce(); err != nil {
				return err
			}
		} else {
			drain()
		}
		select {
		case <-consDone:
			consWaiting = false
		default:
		}
		var acts []int
		if len(heldQ) > 0 {
			acts = append(acts, 0, 0, 0)
		}
		if lateLeft > 0 && !stopped {
			acts = append(acts, 1)
		}
		if wantStop && !stopped && step > 0 {
			acts = append(acts, 2)
		}
		if !consWaiting && !stopped && rng.Intn(2) == 0 {
			acts = append(acts, 3)
		}
		if len(heldQ) > 0 && !stopped && rng.Intn(4) == 0 {
			acts = append(acts, 4)
		}
		if len(acts) == 0 {
			if concurrent {
				if err := quiesce(); err != nil {
					return err
				}
				if len(heldQ) > 0 {
					continue
				}
			}
			break
		}
		switch acts[rng.Intn(len(acts))] {
		case 0:
			i := rng.Intn(len(heldQ))
			h := heldQ[i]
			heldQ = append(heldQ[:i], heldQ[i+1:]...)
			released++
			close(h.release)
		case 1:
			lateLeft--
			op.AddNodes(randCands(1 + rng.Intn(2)))
		case 2:
			doStop()
		case 3:
			startCons()
		case 4:
			// lost-wake-up attack: a completion wakes the loop, which is then held between unlock and select
			// while a second broadcast (another completion, or a late AddNodes) happens
			atomic.StoreInt32(&lk.gateArmed, 1)
			i := rng.Intn(len(heldQ))
			h := heldQ[i]
			heldQ = append(heldQ[:i], heldQ[i+1:]...)
			released++
			close(h.release)
			if !lk.holdLoop(2 * time.Second) {
				break
			}
			drain()
			if len(heldQ) > 0 && rng.Intn(2) == 0 {
				j := rng.Intn(len(heldQ))
				h2 := heldQ[j]
				heldQ = append(heldQ[:j], heldQ[j+1:]...)
				released++
				close(h2.release)
			} else {
				op.AddNodes(randCands(1 + rng.Intn(2)))
			}
			deadline := time.Now().Add(30 * time.Second)
			for int(atomic.LoadInt32(&lk.done)) != released && time.Now().Before(deadline) {
				time.Sleep(20 * time.Microsecond)
			}
			lk.gateRelease <- struct{}{}
		}
	}
	// the lookup has nothing left to do: it must report stalled (or be stopped)
	if !stopped {
		if !consWaiting {
			startCons()
		}
		mark()
		select {
		case <-consDone:
			consWaiting = false
		case <-time.After(30 * time.Second):
			writeHang(hang{Seed: seed, Lookup: idx, What: "stalled never reported although no query is in flight and nothing qualifies", Snap: op.VerifSnapshot()})
			return errHang
		}
		if err := quiesce(); err != nil {
			return err
		}
		doStop()
	}
	for _, h := range heldQ {
		released++
		close(h.release)
	}
	heldQ = nil
	stoppedOK := true
	mark()
	select {
	case <-op.Stopped():
	case <-time.After(30 * time.Second):
		stoppedOK = false
		writeHang(hang{Seed: seed, Lookup: idx, What: "Stop never completed although every query returned", Snap: op.VerifSnapshot()})
		return errHang
	}
	mark()
	select {
	case <-lk.exit:
	case <-time.After(30 * time.Second):
		writeHang(hang{Seed: seed, Lookup: idx, What: "run loop never exited after Stop", Snap: op.VerifSnapshot()})
		return errHang
	}
	if consWaiting {
		select {
		case <-consDone:
		case <-time.After(30 * time.Second):
			writeHang(hang{Seed: seed, Lookup: idx, What: "Stalled() not closed after the run loop exited", Snap: op.VerifSnapshot()})
			return errHang
		}
	}
	for int(atomic.LoadInt32(&lk.done)) != released {
		time.Sleep(50 * time.Microsecond)
	}
	cl := []cand{}
	op.Closest().Range(func(e k_nearest_nodes.Elem) {
		cl = append(cl, cand{canon(e.Addr.AddrPort), lk.absID(e.ID)})
	})
	counts := [][]any{}
	for _, a := range lk.addrs {
		if n := lk.counts[a]; n > 0 {
			counts = append(counts, []any{a, n})
		}
	}
	for a, n := range lk.counts { // an address the harness never mentioned
		known := false
		for _, x := range lk.addrs {
			known = known || x == a
		}
		if !known {
			counts = append(counts, []any{a, n + 100})
		}
	}
	lk.tr.Buf(traversal.VerifNextSeq(), sim.M{"e": "Summary", "seg": lk.seg, "gates": lk.gates, "maxconc": lk.maxconc, "counts": counts,
		"closest": cl, "uncancelled": uncancelled, "stopped": stoppedOK})
	return nil
}

var hangPath string

var markBeat, markMs int64

// mark notes the start of a wait whose expiry would be reported as a hang.
func mark() {
	markBeat = atomic.LoadInt64(&beat)
	markMs = int64(time.Since(beatStart) / time.Millisecond)
}

func writeHang(h hang) {
	h.Ticks = atomic.LoadInt64(&beat) - markBeat
	h.WindowMs = int64(time.Since(beatStart)/time.Millisecond) - markMs
	f, _ := os.OpenFile(hangPath, os.O_APPEND|os.O_CREATE|os.O_WRONLY, 0o644)
	b, _ := json.Marshal(h)
	f.Write(append(b, '\n'))
	f.Close()
}

func main() {
	seed := flag.Int64("seed", 1, "")
	n := flag.Int("n", 100, "lookups")
	out := flag.String("out", "trace.ndjson", "")
	only := flag.Int("only", -1, "run only this lookup index")
	flag.Parse()
	sim.Watchdog(180 * time.Second)
	hangPath = *out + ".hang"
	os.Remove(hangPath)
	tr, err := sim.NewTrace(*out)
	if err != nil {
		panic(err)
	}
	hangs := 0
	for i := 0; i < *n; i++ {
		if *only >= 0 && i != *only {
			continue
		}
		rng := rand.New(rand.NewSource(*seed*1000003 + int64(i)))
		lk := genLookup(rng, i, tr, i%5 == 4)
		if err := lk.run(rng, *seed, i, i%2 == 1); err != nil {
			hangs++
			tr.Drop() // the unfinished segment is reported through the .hang file
			if hangs >= 2 {
				break // two lookups that never made the progress they owe: the rest would only cost time
			}
			continue
		}
		tr.Flush()
	}
	tr.Close()
	fmt.Printf("{\"lookups\":%d,\"events\":%d,\"hangs\":%d}\n", *n, tr.Len(), hangs)
}
