package main

import (
	"bufio"
	"encoding/json"
	"fmt"
	"math/rand"
	"net"
	"os"
	"runtime"
	"strconv"
	"strings"
	"sync"
	"sync/atomic"
	"time"

	"github.com/anacrolix/dht/v2"
	"github.com/anacrolix/dht/v2/krpc"
	"github.com/anacrolix/dht/v2/traversal"
	"github.com/anacrolix/log"
	"golang.org/x/time/rate"

	"verifharness/sim"
)

// A scenario is everything the driver decides: the network, the options, where Close /
// StopTraversing / pause / resume happen, which get_peers datagram is held inside WriteTo, and
// the order in which parked replies are released.
type scenario struct {
	NetSeed  int64  `json:"netseed"`
	Shape    string `json:"shape"`
	Size     int    `json:"size"`
	Opt      int    `json:"opt"`
	StopKind int    `json:"stopkind"` // 0 none, 1 Close, 2 StopTraversing, 3 StopTraversing then Close
	StopAt   int    `json:"stopat"`   // quiescent point (0 = right after the start)
	PauseAt  int    `json:"pauseat"`  // -1: the consumer always reads
	ResumeAt int    `json:"resumeat"` // -1: only when the scenario cannot go on otherwise
	Gate     int    `json:"gate"`     // node index whose get_peers datagram is held in WriteTo; -1 none
	Choices  []int  `json:"choices"`  // which parked reply to release at each choice point
	Rand     int64  `json:"rand"`     // choices beyond the vector: 0 = first, else seeded
}

const (
	hold  = time.Hour
	nOpts = 9
)

type optSet struct {
	announce bool
	port     int
	implied  bool
	scrape   bool
	api      string
}

func options(i int, port int) optSet {
	switch i % nOpts {
	case 0:
		return optSet{true, port, false, false, "Announce(port)"}
	case 1:
		return optSet{true, 0, true, false, "Announce(implied)"}
	case 2:
		return optSet{true, port, true, true, "Announce(port,implied,Scrape)"}
	case 3:
		return optSet{false, 0, false, false, "Announce(0,false)"}
	case 4:
		return optSet{false, 0, false, false, "AnnounceTraversal()"}
	case 5:
		return optSet{false, 0, false, true, "AnnounceTraversal(Scrape)"}
	case 6:
		return optSet{true, port, false, false, "AnnounceTraversal(AnnouncePeer{Port})"}
	case 7:
		return optSet{true, 0, false, false, "AnnounceTraversal(AnnouncePeer{})"}
	default:
		return optSet{true, port, true, true, "AnnounceTraversal(AnnouncePeer{Port,ImpliedPort},Scrape)"}
	}
}

type parked struct {
	nd   *simNode
	t    []byte
	q    string // get_peers | announce_peer
	auto bool   // answered immediately, without a choice (integer-token replies: the query times out by itself)
}

type runner struct {
	sc   scenario
	seg  int
	nw   *network
	opt  optSet
	rng  *rand.Rand
	conn *sim.Conn

	mu       sync.Mutex
	lines    []string
	park     []*parked
	gateCh   chan struct{}
	gated    bool
	gateOpen bool
	gateFree bool // the held query is not among the parked ones (its node never answers)
	annSent  int
	tokN     int

	delays sync.Map // goroutine id -> resend delay for the query it is sending

	op       atomic.Pointer[traversal.Operation]
	respInj  int   // responses handed to a pending query
	deliv    int32 // PeersValues the consumer received
	stopCall bool
	closed   bool
	annHeld  int // announce_peer queries written to nodes that never answer them
	mainGoid int64
	started  int32
	done     int32
	stopFlag int32
	anomaly  int32

	// consumer
	ctl      chan bool // true = pause, false = resume
	ack      chan struct{}
	paused   bool
	consDone chan struct{}
	arities  []int
	taken    []int
	hangWait time.Duration
}

func goid() int64 {
	var b [64]byte
	n := runtime.Stack(b[:], false)
	f := strings.Fields(string(b[:n]))
	if len(f) < 2 {
		return -1
	}
	v, _ := strconv.ParseInt(f[1], 10, 64)
	return v
}

func (r *runner) emit(m sim.M) {
	m["seg"] = r.seg
	b, err := json.Marshal(m)
	if err != nil {
		panic(err)
	}
	r.lines = append(r.lines, string(b))
}

func (r *runner) ev(m sim.M) {
	r.mu.Lock()
	r.emit(m)
	r.mu.Unlock()
}

// Every datagram the node writes comes through here, in the goroutine that sends it.
func (r *runner) onWrite(b []byte, to net.Addr) error {
	dst := canon(to)
	d, err := sim.DecodeDict(b)
	q := ""
	if err == nil {
		if qb, ok := d.Str("q"); ok {
			q = string(qb)
		}
	}
	nd := r.nw.byAddr[dst]
	a := d.Dict("a")
	t, _ := d.Str("t")
	delay := 3 * time.Millisecond
	var gate chan struct{}
	r.mu.Lock()
	switch q {
	case "get_peers":
		ih, _ := a.Str("info_hash")
		scr, _ := a.Int("scrape")
		g := false
		if nd != nil && r.sc.Gate >= 0 && r.nw.nodes[r.sc.Gate] == nd && !r.gated {
			r.gated, g = true, true
			gate = r.gateCh
			r.gateFree = nd.Kind == "silent"
		}
		r.emit(sim.M{"e": "GetPeersSent", "dst": dst, "ih": r.nw.absOfBytes(ih), "scrape": scr != 0, "gated": g})
		if nd != nil {
			switch nd.Kind {
			case "silent":
			case "inttok":
				r.park = append(r.park, &parked{nd: nd, t: t, q: q, auto: true})
			default:
				delay = hold
				r.park = append(r.park, &parked{nd: nd, t: t, q: q})
			}
		}
	case "announce_peer":
		ih, _ := a.Str("info_hash")
		tok, hastok := a.Str("token")
		port := int64(-1)
		if p, ok := a.Int("port"); ok {
			port = p
		}
		imp, _ := a.Int("implied_port")
		r.annSent++
		r.emit(sim.M{"e": "AnnounceSent", "dst": dst, "token": string(tok), "hastok": hastok, "ih": r.nw.absOfBytes(ih),
			"port": port, "implied": imp != 0})
		if nd != nil && nd.Ann != "silent" {
			delay = hold
			if nd.Ann != "hold" {
				r.park = append(r.park, &parked{nd: nd, t: t, q: q})
			} else {
				r.annHeld++
			}
		}
	default:
		r.emit(sim.M{"e": "OtherSent", "dst": dst, "q": q})
	}
	r.mu.Unlock()
	r.delays.Store(goid(), delay)
	if gate != nil {
		<-gate
	}
	return nil
}

func (r *runner) resendDelay() time.Duration {
	if v, ok := r.delays.Load(goid()); ok {
		return v.(time.Duration)
	}
	return 20 * time.Millisecond
}

// The traversal hooks of build tag verif are used for scheduling only (quiescence), and to set
// aside the rare run in which the finisher's Stop comes from a stale "stalled" offer (DESIGN O1:
// a C03 matter): Stop without a caller while queries are in flight or before any was started.
func (r *runner) sink(op *traversal.Operation, ev traversal.VerifEvent) {
	if r.op.Load() == nil {
		// the traversal of this run is the one whose AddNodes runs in the driver's own goroutine, inside
		// AnnounceTraversal (late events of the previous run's traversal come from other goroutines)
		if atomic.LoadInt64(&r.mainGoid) != goid() {
			return
		}
		r.op.Store(op)
	}
	if r.op.Load() != op {
		return
	}
	switch ev.Kind {
	case "StartQuery":
		atomic.AddInt32(&r.started, 1)
	case "QueryDone":
		atomic.AddInt32(&r.done, 1)
	case "Stop":
		st, dn := atomic.LoadInt32(&r.started), atomic.LoadInt32(&r.done)
		if atomic.LoadInt32(&r.stopFlag) == 0 && (st == 0 || st != dn) {
			atomic.StoreInt32(&r.anomaly, 1)
		}
	}
}

func (r *runner) consumer(a *dht.Announce) {
	defer close(r.consDone)
	paused := false
	for {
		if paused {
			p := <-r.ctl
			paused = p
			r.ack <- struct{}{}
			continue
		}
		select {
		case p := <-r.ctl:
			paused = p
			r.ack <- struct{}{}
		case pv, ok := <-a.Peers:
			if !ok {
				fin := false
				select {
				case <-a.Finished():
					fin = true
				default:
				}
				r.ev(sim.M{"e": "PeersClosed", "fin": fin})
				return
			}
			tokk, tok := "none", ""
			if pv.Return.Token != nil {
				tokk, tok = "str", *pv.Return.Token
			}
			r.mu.Lock()
			r.emit(sim.M{"e": "PeersDelivered", "addr": canon(pv.NodeInfo.Addr.UDP()), "id": r.nw.emb.MustAbs(pv.NodeInfo.ID),
				"rid": r.nw.emb.MustAbs(pv.Return.ID), "tokk": tokk, "token": tok, "nvals": len(pv.Peers), "rvals": len(pv.Return.Values)})
			r.mu.Unlock()
			atomic.AddInt32(&r.deliv, 1)
		}
	}
}

func (r *runner) setPaused(p bool) {
	if p {
		select {
		case r.ctl <- true:
			<-r.ack
		case <-r.consDone:
		}
		r.paused = true
		r.ev(sim.M{"e": "Pause"})
	} else {
		r.ev(sim.M{"e": "Resume"})
		r.paused = false
		select {
		case r.ctl <- false:
			<-r.ack
		case <-r.consDone:
		}
	}
}

type hangRec struct {
	Scn    scenario `json:"scn"`
	Seg    int      `json:"seg"`
	Class  string   `json:"class"`
	What   string   `json:"what"`
	Snap   any      `json:"snap"`
	Frames []string `json:"frames"`
	WaitMs int64    `json:"wait_ms"`
}

type hangErr struct{ rec hangRec }

func (h *hangErr) Error() string { return h.rec.What }

func (r *runner) hang(class, what string, wait time.Duration) error {
	if os.Getenv("ANN_DEBUG") != "" {
		gp, an, auto, undeliv, gatedNow := r.counts()
		fmt.Fprintln(os.Stderr, "HANG", class, "gp", gp, "an", an, "auto", auto, "undeliv", undeliv, "gated", gatedNow, "paused", r.paused, "\n"+strings.Join(r.lines, "\n"))
	}
	var snap any
	if op := r.op.Load(); op != nil {
		snap = op.VerifSnapshot()
	}
	fr := map[string]int{}
	for _, g := range sim.Goroutines() {
		for _, f := range g {
			if strings.Contains(f, "dht/v2.(*Announce)") || strings.Contains(f, "traversal.(*Operation)") {
				fr[f]++
				break
			}
		}
	}
	var frames []string
	for f, n := range fr {
		frames = append(frames, fmt.Sprintf("%dx %s", n, f))
	}
	return &hangErr{hangRec{Scn: r.sc, Seg: r.seg, Class: class, What: what, Snap: snap, Frames: frames, WaitMs: wait.Milliseconds()}}
}

func isDone(c <-chan struct{}) bool {
	select {
	case <-c:
		return true
	default:
		return false
	}
}

// the query of this parked reply is still held inside WriteTo (r.mu held)
func (r *runner) heldNode(p *parked) bool {
	return r.gated && !r.gateOpen && p.q == "get_peers" && r.nw.nodes[r.sc.Gate] == p.nd
}

// How long the driver waits for a delivery the consumer is owed before it goes on (the missing
// PeersDelivered line is then for the validator to judge): 3 s until that has happened once in this
// process, 300 ms afterwards.
var softExpired int32

func softWait() time.Duration {
	// generous: on an overloaded machine a rendezvous between two runnable goroutines can take long, and an
	// expiry here becomes a missing PeersDelivered line, i.e. a verdict. Only code that really drops a
	// delivery pays this wait (once in full, briefly afterwards).
	if atomic.LoadInt32(&softExpired) != 0 {
		return time.Second
	}
	return 30 * time.Second
}

// what the driver holds
func (r *runner) counts() (gp, an, auto, undeliv, gatedNow int) {
	r.mu.Lock()
	defer r.mu.Unlock()
	for _, p := range r.park {
		switch {
		case p.auto && r.heldNode(p):
			gp++
		case p.auto:
			auto++
		case p.q == "get_peers":
			gp++
		default:
			an++
		}
	}
	undeliv = r.respInj - int(atomic.LoadInt32(&r.deliv))
	if undeliv < 0 {
		undeliv = 0
	}
	if r.gated && !r.gateOpen {
		gatedNow = 1
		if r.gateFree {
			gp++
		}
	}
	return
}

// quiesce waits until the node has done everything it can do by itself: every query it wants
// to send is written (and parked here, or has timed out), every response a reading consumer is
// owed has arrived there.  Used for scheduling only; no verdict depends on it.
func (r *runner) quiesce(a *dht.Announce) error {
	start := time.Now()
	deadline := start.Add(45 * time.Second)
	stable := 0
	last := [3]int{-1, -1, -1}
	for {
		// whatever the node does next: a response it was handed while the consumer reads and nobody
		// has stopped it is on its way to the consumer; wait (softly) until the consumer has logged it
		r.mu.Lock()
		owedWait := !r.paused && !r.stopCall && r.respInj > int(atomic.LoadInt32(&r.deliv)) && time.Since(start) < softWait()
		r.mu.Unlock()
		if owedWait {
			time.Sleep(100 * time.Microsecond)
			continue
		}
		if !r.paused && !r.stopCall && r.respInj > int(atomic.LoadInt32(&r.deliv)) {
			atomic.StoreInt32(&softExpired, 1) // a delivery is overdue
		}
		if isDone(a.Finished()) {
			return nil
		}
		if op := r.op.Load(); op != nil {
			s := op.VerifSnapshot()
			if s.Stopped {
				r.mu.Lock()
				r.respInj = int(atomic.LoadInt32(&r.deliv)) // whatever was not delivered by now never will be
				r.mu.Unlock()
			}
			gp, an, auto, undeliv, gatedNow := r.counts()
			ok, need := false, 3
			switch {
			case auto > 0 && (r.paused || undeliv == 0 || s.Stopping || time.Since(start) > softWait()):
				return nil // an immediate reply is due
			case !s.Stopping:
				ok = s.Outstanding > 0 && s.Outstanding == gp+undeliv && (s.Outstanding >= 3 || !s.HaveQuery) &&
					(r.paused || undeliv == 0 || time.Since(start) > softWait())
			case !s.Stopped:
				need = 8
				ok = s.Outstanding > 0 && s.Outstanding <= undeliv+gatedNow && auto == 0
			default:
				need = 6
				r.mu.Lock()
				held := r.annHeld
				r.mu.Unlock()
				n := sim.CountGoroutines("(*Server).announcePeer")
				// (nothing in flight any more and still not finished: for the caller's final wait on Finished() to judge)
				ok = n == an+held
			}
			sig := [3]int{s.Outstanding, an, undeliv}
			if ok && sig == last {
				stable++
			} else {
				stable = 0
			}
			last = sig
			if ok && stable >= need {
				return nil
			}
		}
		if time.Now().After(deadline) {
			return r.hang("quiesce", "the node neither finished nor reached a state in which it waits for the network, the consumer or the caller", time.Since(start))
		}
		time.Sleep(150 * time.Microsecond)
	}
}

func (r *runner) choose(m int) int {
	if m <= 1 {
		return 0
	}
	i := len(r.taken)
	c := 0
	if i < len(r.sc.Choices) {
		c = r.sc.Choices[i] % m
	} else if r.rng != nil {
		c = r.rng.Intn(m)
	}
	r.taken = append(r.taken, c)
	r.arities = append(r.arities, m)
	return c
}

// inject the reply of parked query i
func (r *runner) release(i int) error {
	r.mu.Lock()
	p := r.park[i]
	r.park = append(r.park[:i:i], r.park[i+1:]...)
	var b []byte
	if p.q == "get_peers" {
		r.tokN++
		token := fmt.Sprintf("t%d-%d-%s", r.seg, r.tokN, p.nd.Addr)
		b = r.nw.getPeersReply(p.nd, p.t, token)
		kind, tokk, tok := "resp", "none", ""
		switch p.nd.Kind {
		case "error":
			kind = "error"
		case "tok", "values":
			tokk, tok = "str", token
		case "emptytok":
			tokk = "str"
		case "inttok":
			tokk = "int"
		}
		nodes := [][]any{}
		if kind == "resp" {
			for j, x := range p.nd.Nodes {
				nodes = append(nodes, []any{r.nw.nodes[x].Addr, p.nd.Lie[j]})
			}
		}
		nv := 0
		if p.nd.Kind == "values" {
			nv = 2
		}
		if kind == "resp" && tokk != "int" && !p.auto {
			r.respInj++
		}
		r.emit(sim.M{"e": "ReplyInjected", "dst": p.nd.Addr, "kind": kind, "id": p.nd.ID, "tokk": tokk, "token": tok,
			"nvals": nv, "nodes": nodes})
	} else {
		b = r.nw.announceReply(p.nd, p.t, p.nd.Ann)
		r.emit(sim.M{"e": "AnnReplyInjected", "dst": p.nd.Addr, "kind": p.nd.Ann})
	}
	r.mu.Unlock()
	if !r.conn.Inject(b, p.nd.ua, 5*time.Second) {
		return r.hang("serve-loop", "the socket loop did not come back for the next datagram", 5*time.Second)
	}
	return nil
}

func (r *runner) stop(a *dht.Announce, kind int) {
	atomic.StoreInt32(&r.stopFlag, 1)
	switch kind {
	case 1:
		r.ev(sim.M{"e": "Close"})
		a.Close()
		r.closed = true
	case 2:
		r.ev(sim.M{"e": "StopTraversing"})
		a.StopTraversing()
	}
	r.stopCall = true
}

// run plays one scenario; it returns the trace lines of the segment, or a hang.
func (r *runner) run() (lines []string, err error) {
	sc := r.sc
	r.nw = genNetwork(rand.New(rand.NewSource(sc.NetSeed)), sc.Shape, sc.Size)
	if sc.Gate >= len(r.nw.nodes) {
		sc.Gate = -1
		r.sc.Gate = -1
	}
	prng := rand.New(rand.NewSource(sc.NetSeed ^ 0x5eed))
	r.opt = options(sc.Opt, 1+prng.Intn(65535))
	if sc.Rand != 0 {
		r.rng = rand.New(rand.NewSource(sc.Rand))
	}
	r.gateCh = make(chan struct{})
	r.ctl = make(chan bool)
	r.ack = make(chan struct{})
	r.consDone = make(chan struct{})
	r.conn = sim.NewConn("10.9.9.9:6881")
	r.conn.OnWrite = r.onWrite
	cfg := dht.NewDefaultServerConfig()
	cfg.Conn = r.conn
	cfg.NoSecurity = true
	cfg.NodeId = r.nw.emb.Conc(r.nw.self)
	cfg.QueryResendDelay = r.resendDelay
	cfg.SendLimiter = rate.NewLimiter(rate.Inf, 100)
	cfg.Logger = log.Default
	var entry []dht.Addr
	for _, x := range r.nw.entry {
		entry = append(entry, dht.NewAddr(r.nw.nodes[x].ua))
	}
	cfg.StartingNodes = func() ([]dht.Addr, error) { return entry, nil }
	srv, e := dht.NewServer(cfg)
	if e != nil {
		return nil, e
	}
	defer func() {
		r.mu.Lock()
		if !r.gateOpen {
			r.gateOpen = true
			close(r.gateCh)
		}
		r.mu.Unlock()
		srv.Close()
	}()
	// Start event: the whole network as the specification needs it
	addrs, short, annhold := []string{}, []string{}, []string{}
	for _, nd := range r.nw.nodes {
		addrs = append(addrs, nd.Addr)
		if nd.Kind == "silent" || nd.Kind == "inttok" {
			short = append(short, nd.Addr)
		}
		if nd.Ann == "hold" {
			annhold = append(annhold, nd.Addr)
		}
	}
	scj, _ := json.Marshal(sc)
	r.ev(sim.M{"e": "Start", "k": 8, "alpha": 3, "target": r.nw.target, "announce": r.opt.announce, "port": r.opt.port,
		"implied": r.opt.implied, "scrape": r.opt.scrape, "api": r.opt.api, "addrs": addrs, "short": short, "annhold": annhold,
		"scn": string(scj)})
	atomic.StoreInt64(&r.mainGoid, goid())
	traversal.VerifSink = r.sink
	defer func() { traversal.VerifSink = nil }()
	ih := r.nw.emb.Conc(r.nw.target)
	var a *dht.Announce
	switch sc.Opt % nOpts {
	case 0, 1, 3:
		a, e = srv.Announce(ih, r.opt.port, r.opt.implied)
	case 2:
		a, e = srv.Announce(ih, r.opt.port, r.opt.implied, dht.Scrape())
	case 4:
		a, e = srv.AnnounceTraversal(ih)
	case 5:
		a, e = srv.AnnounceTraversal(ih, dht.Scrape())
	case 6, 7:
		a, e = srv.AnnounceTraversal(ih, dht.AnnouncePeer(dht.AnnouncePeerOpts{Port: r.opt.port, ImpliedPort: r.opt.implied}))
	default:
		a, e = srv.AnnounceTraversal(ih, dht.Scrape(), dht.AnnouncePeer(dht.AnnouncePeerOpts{Port: r.opt.port, ImpliedPort: r.opt.implied}))
	}
	if e != nil {
		return nil, e
	}
	go r.consumer(a)
	defer func() {
		// leave nothing behind, whatever happened
		if r.paused {
			select {
			case r.ctl <- false:
				<-r.ack
			case <-r.consDone:
			}
		}
		a.Close()
	}()

	closeDue := false
	for step := 0; ; step++ {
		if err = r.quiesce(a); err != nil {
			return nil, err
		}
		if isDone(a.Finished()) {
			break
		}
		// immediate replies (integer tokens) are not choices
		autos := 0
		for {
			r.mu.Lock()
			ai := -1
			for i, p := range r.park {
				if p.auto && !r.heldNode(p) {
					ai = i
				}
			}
			r.mu.Unlock()
			if ai < 0 {
				break
			}
			if err = r.release(ai); err != nil {
				return nil, err
			}
			autos++
		}
		if autos > 0 {
			step-- // not a quiescent point of its own: settle again
			continue
		}
		acted := false
		if step == sc.PauseAt && !r.paused {
			r.setPaused(true)
			acted = true
		}
		if step == sc.ResumeAt && r.paused {
			r.setPaused(false)
			acted = true
		}
		if closeDue {
			r.stop(a, 1)
			closeDue, acted = false, true
		}
		if step == sc.StopAt && sc.StopKind != 0 {
			k := sc.StopKind
			if k == 3 {
				k, closeDue = 2, true
			}
			r.stop(a, k)
			acted = true
			// the reply of one query in flight races the cancellation
			gp, _, _, _, _ := r.counts()
			if gp > 0 && prng.Intn(2) == 0 {
				if err = r.releaseNth("get_peers", prng.Intn(gp)); err != nil {
					return nil, err
				}
			}
			r.dropParked("get_peers")
		}
		if acted {
			continue
		}
		// releasable: parked replies (not the one whose query is still held in WriteTo), the gate
		var items []int // index into park, or -1 = open the gate
		r.mu.Lock()
		for i, p := range r.park {
			if r.heldNode(p) || p.auto {
				continue
			}
			items = append(items, i)
		}
		if r.gated && !r.gateOpen {
			items = append(items, -1)
		}
		held := r.annHeld
		r.mu.Unlock()
		_, _, _, undeliv, _ := r.counts()
		if len(items) > 0 {
			it := items[r.choose(len(items))]
			if it == -1 {
				r.mu.Lock()
				r.emit(sim.M{"e": "GateOpen", "dst": r.nw.nodes[sc.Gate].Addr})
				r.gateOpen = true
				close(r.gateCh)
				r.mu.Unlock()
			} else if err = r.release(it); err != nil {
				return nil, err
			}
			continue
		}
		// nothing to release
		var snap traversal.VerifSnap
		if op := r.op.Load(); op != nil {
			snap = op.VerifSnapshot()
		}
		switch {
		case r.paused && !snap.Stopping && undeliv > 0:
			r.setPaused(false) // the property promises nothing while nobody reads and nobody stops
		case snap.Stopping && !snap.Stopped && r.paused:
			// obligation: Close (StopTraversing) must end the announce although nobody reads
			if !waitDone(a.Finished(), r.hangWait) {
				class := "stoptraversing-consumer-not-reading"
				if r.closed {
					class = "Announce.Close:consumer-not-reading"
				}
				return nil, r.hang(class, "Finished() never fires after the stop although nothing is left in flight but getPeers sends on Peers", r.hangWait)
			}
		case snap.Stopped && held > 0 && !r.closed:
			r.stop(a, 1) // only Close ends an announce_peer nobody answers
		default:
			// nothing parked yet: the node may still be about to write (announce_peer goroutines starting)
			if !r.waitFinishedOrWork(a) {
				return nil, r.hang("finish", "Finished() never fires although nothing is in flight and the consumer reads", r.hangWait)
			}
		}
	}
	r.ev(sim.M{"e": "Finished"})
	if sc.StopAt >= 1000 && sc.StopKind != 0 { // a stop after the end changes nothing
		r.stop(a, 1+(sc.StopKind+1)%2)
	}
	if r.paused {
		r.setPaused(false)
	}
	if !waitDone(r.consDone, r.hangWait) {
		return nil, r.hang("peers-not-closed", "Peers is not closed although Finished() fired and the consumer reads", r.hangWait)
	}
	if atomic.LoadInt32(&r.anomaly) != 0 {
		return nil, errAnomaly
	}
	r.mu.Lock()
	r.emit(sim.M{"e": "End", "delivered": atomic.LoadInt32(&r.deliv), "announces": r.annSent})
	lines = r.lines
	r.mu.Unlock()
	return lines, nil
}

var errAnomaly = fmt.Errorf("stale stalled offer (DESIGN O1); run set aside")

// waits until Finished() fires or the node has written something the driver must answer
func (r *runner) waitFinishedOrWork(a *dht.Announce) bool {
	deadline := time.Now().Add(r.hangWait)
	for {
		if isDone(a.Finished()) {
			return true
		}
		r.mu.Lock()
		work := len(r.park) > 0 || (r.annHeld > 0 && !r.closed) || (r.gated && !r.gateOpen)
		r.mu.Unlock()
		if work {
			return true
		}
		if time.Now().After(deadline) {
			return false
		}
		time.Sleep(200 * time.Microsecond)
	}
}

func waitDone(c <-chan struct{}, d time.Duration) bool {
	select {
	case <-c:
		return true
	case <-time.After(d):
		return false
	}
}

func (r *runner) releaseNth(q string, n int) error {
	r.mu.Lock()
	idx := -1
	for i, p := range r.park {
		if p.q == q && !r.heldNode(p) && !p.auto {
			if n == 0 {
				idx = i
				break
			}
			n--
		}
	}
	r.mu.Unlock()
	if idx < 0 {
		return nil
	}
	return r.release(idx)
}

func (r *runner) dropParked(q string) {
	r.mu.Lock()
	defer r.mu.Unlock()
	var keep []*parked
	for _, p := range r.park {
		if p.q != q {
			keep = append(keep, p)
		}
	}
	r.park = keep
}

type traceFile struct {
	f *os.File
	w *bufio.Writer
	n int
}

func (t *traceFile) write(lines []string) {
	for _, l := range lines {
		t.w.WriteString(l)
		t.w.WriteByte('\n')
		t.n++
	}
	t.w.Flush()
}

var _ = krpc.ID{}
