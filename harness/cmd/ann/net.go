package main

import (
	"fmt"
	"math/rand"
	"net"
	"net/netip"
	"sort"

	"github.com/anacrolix/dht/v2/krpc"

	"verifharness/sim"
)

// One simulated remote node.
type simNode struct {
	Addr  string // canonical "ip:port" / "[ip6]:port"
	ID    int    // abstract ID it answers with
	Kind  string // silent | error | tok | values | notok | emptytok | inttok
	Nodes []int  // indices of the nodes it lists in its reply
	Lie   []int  // parallel to Nodes: the (abstract) ID it lists them under
	Ann   string // answer to announce_peer: ok | error | silent | hold
	ua    *net.UDPAddr
}

type network struct {
	emb    sim.Embedding
	target int
	self   int
	nodes  []*simNode
	byAddr map[string]*simNode
	entry  []int
}

func canon(a net.Addr) string {
	ua, ok := a.(*net.UDPAddr)
	if !ok || ua == nil {
		return a.String()
	}
	ip, ok2 := netip.AddrFromSlice(ua.IP)
	if !ok2 {
		return ua.String()
	}
	return netip.AddrPortFrom(ip.Unmap(), uint16(ua.Port)).String()
}

func mustUDP(s string) *net.UDPAddr {
	ap := netip.MustParseAddrPort(s)
	return net.UDPAddrFromAddrPort(ap)
}

// shape: "small" (3-4 nodes, every kind), "mid" (5-12 nodes), "big" (10-12 nodes, > 8 of them
// token-bearing, so that the K = 8 trimming decides who is announced to)
func genNetwork(rng *rand.Rand, shape string, size int) *network {
	nw := &network{emb: sim.NewEmbedding(rng, 8), byAddr: map[string]*simNode{}}
	nw.target = rng.Intn(256)
	nw.self = rng.Intn(256)
	n := size
	if n == 0 {
		switch shape {
		case "small":
			n = 3 + rng.Intn(2)
		case "big":
			n = 10 + rng.Intn(3)
		default:
			n = 5 + rng.Intn(8)
		}
	}
	used := map[string]bool{}
	ids := rng.Perm(256)
	for i := 0; i < n; i++ {
		var a string
		for {
			switch rng.Intn(8) {
			case 0:
				a = fmt.Sprintf("[2001:db8::%x]:%d", 1+rng.Intn(200), 1024+rng.Intn(60000))
			case 1:
				a = fmt.Sprintf("10.1.1.1:%d", 2000+rng.Intn(50)) // one IP, several ports
			default:
				a = fmt.Sprintf("10.%d.%d.%d:%d", rng.Intn(3), rng.Intn(250), 1+rng.Intn(250), 1024+rng.Intn(60000))
			}
			if !used[a] {
				break
			}
		}
		used[a] = true
		nd := &simNode{Addr: a, ID: ids[i], ua: mustUDP(a)}
		if i > 0 && rng.Intn(12) == 0 {
			nd.ID = nw.nodes[rng.Intn(i)].ID // two addresses answering with one ID: a tie in the K set
		}
		switch shape {
		case "big":
			if rng.Intn(8) == 0 {
				nd.Kind = []string{"silent", "error", "notok", "inttok"}[rng.Intn(4)]
			} else if rng.Intn(4) == 0 {
				nd.Kind = "values"
			} else {
				nd.Kind = "tok"
			}
		default:
			nd.Kind = []string{"tok", "tok", "tok", "values", "values", "notok", "silent", "error", "inttok", "emptytok"}[rng.Intn(10)]
		}
		if i == 0 && shape != "big" && rng.Intn(8) != 0 {
			// the first entry node answers, so that the rest of the network is reached
			nd.Kind = []string{"tok", "tok", "values", "notok", "emptytok"}[rng.Intn(5)]
		}
		nd.Ann = []string{"ok", "ok", "ok", "error", "silent", "hold"}[rng.Intn(6)]
		nw.nodes = append(nw.nodes, nd)
		nw.byAddr[a] = nd
	}
	// who lists whom: every node is reachable from the entry nodes through answering nodes with
	// good probability; some nodes list many, some nothing
	for i, nd := range nw.nodes {
		m := rng.Intn(5)
		if shape == "big" || i == 0 {
			m = 2 + rng.Intn(n)
		}
		if shape == "small" && i == 0 {
			m = 3 * n
		}
		seen := map[int]bool{}
		for j := 0; j < m; j++ {
			x := rng.Intn(n)
			if seen[x] {
				continue
			}
			seen[x] = true
			nd.Nodes = append(nd.Nodes, x)
			lid := nw.nodes[x].ID
			if rng.Intn(10) == 0 {
				lid = rng.Intn(256) // listed under another ID than it answers with
			}
			nd.Lie = append(nd.Lie, lid)
		}
	}
	ne := 1 + rng.Intn(3)
	if ne > n {
		ne = n
	}
	nw.entry = append(nw.entry, 0)
	for _, x := range rng.Perm(n) {
		if len(nw.entry) >= ne {
			break
		}
		if x != 0 {
			nw.entry = append(nw.entry, x)
		}
	}
	sort.Ints(nw.entry)
	return nw
}

func (nw *network) compactNodes(nd *simNode) (n4, n6 []byte) {
	for j, x := range nd.Nodes {
		o := nw.nodes[x]
		id := nw.emb.Conc(nd.Lie[j])
		if ip4 := o.ua.IP.To4(); ip4 != nil {
			n4 = append(n4, id[:]...)
			n4 = append(n4, ip4...)
			n4 = append(n4, byte(o.ua.Port>>8), byte(o.ua.Port))
		} else {
			n6 = append(n6, id[:]...)
			n6 = append(n6, o.ua.IP.To16()...)
			n6 = append(n6, byte(o.ua.Port>>8), byte(o.ua.Port))
		}
	}
	return
}

// getPeersReply builds the datagram a node answers a get_peers query with; token is the
// (unique) token of this response.
func (nw *network) getPeersReply(nd *simNode, t []byte, token string) []byte {
	id := nw.emb.Conc(nd.ID)
	if nd.Kind == "error" {
		return sim.Encode(sim.D("t", t, "y", "e", "e", sim.L(201, "simulated failure")))
	}
	r := sim.D("id", id[:])
	n4, n6 := nw.compactNodes(nd)
	if len(n4) > 0 {
		r.Set("nodes", n4)
	}
	if len(n6) > 0 {
		r.Set("nodes6", n6)
	}
	switch nd.Kind {
	case "tok", "values":
		r.Set("token", []byte(token))
	case "emptytok":
		r.Set("token", []byte(""))
	case "inttok":
		r.Set("token", int64(42))
	}
	if nd.Kind == "values" {
		r.Set("values", sim.L([]byte{192, 0, 2, 1, 0x1a, 0xe1}, []byte{192, 0, 2, 2, 0x1a, 0xe2}))
	}
	return sim.Encode(sim.D("t", t, "y", "r", "r", r))
}

func (nw *network) announceReply(nd *simNode, t []byte, kind string) []byte {
	if kind == "error" {
		return sim.Encode(sim.D("t", t, "y", "e", "e", sim.L(203, "bad token")))
	}
	id := nw.emb.Conc(nd.ID)
	return sim.Encode(sim.D("t", t, "y", "r", "r", sim.D("id", id[:])))
}

func (nw *network) absOfBytes(b []byte) int {
	if len(b) != 20 {
		return -3
	}
	var id krpc.ID
	copy(id[:], b)
	return nw.emb.MustAbs(id)
}
