// Command ann drives Server.Announce / Server.AnnounceTraversal of the repository under test
// against simulated networks at the net.PacketConn boundary: every datagram the node writes is
// decoded with the harness's own bencode reader and answered -- in an order the scenario chooses --
// with get_peers responses carrying per-response unique tokens, errors, token-less or malformed
// replies, or silence.  The ndjson trace (Start, GetPeersSent, ReplyInjected, PeersDelivered,
// AnnounceSent, Close, StopTraversing, Pause, Resume, Finished, PeersClosed, End) is validated by
// spec/Trace_Announce.tla.
package main

import (
	"bufio"
	"encoding/json"
	"flag"
	"fmt"
	"math/rand"
	"os"
	"time"

	"github.com/anacrolix/log"
)

func runOne(sc scenario, seg int, hangWait time.Duration) (*runner, []string, error) {
	r := &runner{sc: sc, seg: seg, hangWait: hangWait}
	lines, err := r.run()
	return r, lines, err
}

// the class of hang a scenario can end in (see runner.run)
func classOf(sc scenario) string {
	if sc.PauseAt < 0 {
		return "finish"
	}
	if sc.StopKind == 1 || sc.StopKind == 3 {
		return "Announce.Close:consumer-not-reading"
	}
	return "stoptraversing-consumer-not-reading"
}

// next choice vector in depth-first order, or nil
func nextChoices(taken, arities []int) []int {
	for i := len(taken) - 1; i >= 0; i-- {
		if taken[i]+1 < arities[i] {
			nc := append([]int{}, taken[:i]...)
			return append(nc, taken[i]+1)
		}
	}
	return nil
}

func main() {
	seed := flag.Int64("seed", 1, "")
	n := flag.Int("n", 200, "number of seeded scenarios (after the exhaustive part)")
	exh := flag.Int("exh", 2, "number of small networks whose reply orders are enumerated exhaustively")
	out := flag.String("out", "trace.ndjson", "")
	scn := flag.String("scn", "", "run exactly this scenario (JSON)")
	hw := flag.Duration("hangwait", time.Second, "how long Finished() may take when nothing is left to wait for")
	maxRuns := flag.Int("maxruns", 100000, "")
	maxExh := flag.Int("maxexh", 150, "cap on the runs spent on one exhaustively enumerated network")
	flag.Parse()
	log.Default.Handlers = []log.Handler{log.DiscardHandler}
	hangPath := *out + ".hang"
	os.Remove(hangPath)
	f, err := os.Create(*out)
	if err != nil {
		panic(err)
	}
	tf := &traceFile{f: f, w: bufio.NewWriterSize(f, 1<<20)}
	seg, hangs, errs, anomalies := 0, 0, 0, 0
	hangSeen := map[string]bool{}
	writeHang := func(h hangRec) {
		hf, _ := os.OpenFile(hangPath, os.O_APPEND|os.O_CREATE|os.O_WRONLY, 0o644)
		b, _ := json.Marshal(h)
		hf.Write(append(b, '\n'))
		hf.Close()
	}
	play := func(sc scenario) *runner {
		w := *hw
		if cl := classOf(sc); hangSeen[cl] && w > 150*time.Millisecond {
			w = 150 * time.Millisecond // the first occurrence of this class was given the full wait
		}
		r, lines, err := runOne(sc, seg, w)
		seg++
		if err != nil {
			if he, ok := err.(*hangErr); ok {
				hangs++
				hangSeen[he.rec.Class] = true
				writeHang(he.rec)
			} else if err == errAnomaly {
				anomalies++
			} else {
				errs++
				fmt.Fprintln(os.Stderr, "scenario error:", err)
			}
			return r
		}
		tf.write(lines)
		return r
	}
	if *scn != "" {
		var sc scenario
		if err := json.Unmarshal([]byte(*scn), &sc); err != nil {
			panic(err)
		}
		play(sc)
	} else {
		rng := rand.New(rand.NewSource(*seed))
		// (A) small networks: every order of releasing the parked replies, for a rotating choice of
		// options and for Close / StopTraversing / pause at every quiescent point
		for g := 0; g < *exh && seg < *maxRuns; g++ {
			// budget of this network: 35% orders, 15% held datagram, 35% stops, the rest pauses
			start := seg
			upTo := func(pct int) bool {
				l := start + *maxExh*pct/100
				if l > *maxRuns {
					l = *maxRuns
				}
				return seg < l
			}
			base := scenario{NetSeed: rng.Int63(), Shape: "small", Opt: rng.Intn(nOpts), StopAt: -1, PauseAt: -1, ResumeAt: -1, Gate: -1}
			// all orders, nothing else
			steps := 0
			for ch := []int{}; ch != nil && upTo(35); {
				sc := base
				sc.Choices = ch
				r := play(sc)
				if len(r.taken)+2 > steps {
					steps = len(r.taken) + 2
				}
				ch = nextChoices(r.taken, r.arities)
			}
			// one get_peers datagram held inside WriteTo while StopTraversing / Close is called: nothing may be
			// announced before the held query has returned (the traversal cannot have stopped)
			for at := 1; at <= steps+1; at++ {
				for gate := 0; gate < 4 && upTo(50); gate++ {
					sc := base
					sc.Opt = []int{0, 2, 6, 8, 1}[(gate+at)%5]
					sc.Gate, sc.StopKind, sc.StopAt = gate, 2, at
					if (at+gate)%3 == 2 {
						sc.StopKind = 1
					}
					play(sc)
				}
			}
			// every stop kind at every point; every order (a few per point when the budget is small)
			perCell := 1 << 30
			if *maxExh < 1000 {
				perCell = 2
			}
			for at := 0; at <= steps+3; at++ {
				for kind := 1; kind <= 3; kind++ {
					n := 0
					for ch := []int{}; ch != nil && n < perCell && upTo(85); n++ {
						sc := base
						sc.Opt = (base.Opt + kind + at) % nOpts
						sc.StopKind, sc.StopAt, sc.Choices = kind, at, ch
						if at == steps+3 {
							sc.StopAt = 1000 // after the end
						}
						r := play(sc)
						ch = nextChoices(r.taken, r.arities)
					}
				}
			}
			// the consumer stops reading at every point; with and without a stop afterwards; a held datagram
			for pa := 0; pa <= steps; pa++ {
				for kind := 0; kind <= 2; kind++ {
					for _, gate := range []int{-1, rng.Intn(3)} {
						if !upTo(100) {
							break
						}
						sc := base
						sc.Opt = (base.Opt + pa + kind) % nOpts
						sc.PauseAt, sc.StopKind, sc.Gate = pa, kind, gate
						sc.StopAt = pa + 1 + rng.Intn(2)
						if rng.Intn(3) == 0 {
							sc.ResumeAt = sc.StopAt + 1 + rng.Intn(2)
						}
						sc.Rand = rng.Int63() | 1
						play(sc)
					}
				}
			}
		}
		// (B) seeded scenarios on networks of up to 12 nodes
		for i := 0; i < *n && seg < *maxRuns; i++ {
			sc := scenario{NetSeed: rng.Int63(), Opt: rng.Intn(nOpts), StopAt: -1, PauseAt: -1, ResumeAt: -1, Gate: -1, Rand: rng.Int63() | 1}
			sc.Shape = []string{"small", "mid", "mid", "big"}[i%4]
			if rng.Intn(2) == 0 {
				sc.StopKind = 1 + rng.Intn(3)
				sc.StopAt = rng.Intn(10)
				if rng.Intn(8) == 0 {
					sc.StopAt = 1000
				}
			}
			if rng.Intn(3) == 0 {
				sc.PauseAt = rng.Intn(8)
				if rng.Intn(2) == 0 {
					sc.ResumeAt = sc.PauseAt + 1 + rng.Intn(4)
				}
			}
			if rng.Intn(4) == 0 {
				sc.Gate = rng.Intn(3)
			}
			play(sc)
		}
	}
	tf.w.Flush()
	f.Close()
	fmt.Printf("{\"segments\":%d,\"events\":%d,\"hangs\":%d,\"errors\":%d,\"set_aside\":%d}\n", seg, tf.n, hangs, errs, anomalies)
}
