package sim

import (
	"bufio"
	"encoding/json"
	"fmt"
	"os"
	"runtime"
	"sort"
	"sync"
	"sync/atomic"
	"time"
)

var lastActivity int64 = time.Now().UnixNano()

// Touch records driver progress for the watchdog.
func Touch() { atomic.StoreInt64(&lastActivity, time.Now().UnixNano()) }

// Watchdog ends the process (exit code 4, all goroutine stacks on stderr) when no trace event has been
// recorded for d: a stuck driver must not turn into a check that never returns.
func Watchdog(d time.Duration) {
	go func() {
		for {
			time.Sleep(time.Second)
			if time.Since(time.Unix(0, atomic.LoadInt64(&lastActivity))) > d {
				buf := make([]byte, 1<<20)
				n := runtime.Stack(buf, true)
				fmt.Fprintf(os.Stderr, "DRIVER-STALL: no progress for %v\n%s\n", d, buf[:n])
				os.Exit(4)
			}
		}
	}()
}

// M is one trace event.
type M = map[string]any

// Trace writes ndjson. Events may be emitted directly (Emit) or buffered with a sequence number
// and flushed in sequence order (Buf/Flush), for events logged from several goroutines whose
// order is defined by a sequence number taken at the linearization point.
type Trace struct {
	// Sync flushes after every event, so that the trace survives a crash of the process.
	Sync bool
	// Path is the file the trace is written to.
	Path string
	mu   sync.Mutex
	f    *os.File
	w    *bufio.Writer
	n    int
	buf  []seqRec
}

type seqRec struct {
	seq uint64
	m   M
}

func NewTrace(path string) (*Trace, error) {
	f, err := os.Create(path)
	if err != nil {
		return nil, err
	}
	return &Trace{f: f, w: bufio.NewWriterSize(f, 1<<20), Path: path}, nil
}

func (t *Trace) Emit(m M) {
	t.mu.Lock()
	defer t.mu.Unlock()
	t.emitLocked(m)
}

func (t *Trace) emitLocked(m M) {
	Touch()
	b, err := json.Marshal(m)
	if err != nil {
		panic(err)
	}
	t.w.Write(b)
	t.w.WriteByte('\n')
	t.n++
	if t.Sync {
		t.w.Flush()
	}
}

func (t *Trace) Buf(seq uint64, m M) {
	Touch()
	t.mu.Lock()
	defer t.mu.Unlock()
	t.buf = append(t.buf, seqRec{seq, m})
}

func (t *Trace) Flush() {
	t.mu.Lock()
	defer t.mu.Unlock()
	sort.SliceStable(t.buf, func(i, j int) bool { return t.buf[i].seq < t.buf[j].seq })
	for _, r := range t.buf {
		t.emitLocked(r.m)
	}
	t.buf = t.buf[:0]
}

// Drop discards the buffered events of an unfinished segment.
func (t *Trace) Drop() {
	t.mu.Lock()
	defer t.mu.Unlock()
	t.buf = t.buf[:0]
}

func (t *Trace) Len() int {
	t.mu.Lock()
	defer t.mu.Unlock()
	return t.n
}

func (t *Trace) Close() error {
	t.Flush()
	t.mu.Lock()
	defer t.mu.Unlock()
	if err := t.w.Flush(); err != nil {
		return err
	}
	return t.f.Close()
}
