// Package sim holds what the drivers share: the embedding of small abstract IDs into 160-bit
// IDs, a fake PacketConn, an independent bencode reader, and the ndjson trace writer.
package sim

import (
	"math/rand"

	"github.com/anacrolix/dht/v2/krpc"
)

// Embedding places a W-bit abstract ID at bit offset Off (0 = most significant bit) of a 160-bit
// ID whose other bits come from a common filler. XOR distances between embedded IDs are the
// abstract XOR distances shifted by a constant, so the abstract order is the concrete order, and
// the shared-prefix length of two distinct embedded IDs is Off + (abstract shared prefix).
type Embedding struct {
	W      int
	Off    int
	Filler krpc.ID
}

func NewEmbedding(rng *rand.Rand, w int) Embedding {
	e := Embedding{W: w, Off: rng.Intn(160 - w + 1)}
	rng.Read(e.Filler[:])
	return e
}

func getBit(id *krpc.ID, i int) int { return int(id[i/8]>>(7-uint(i%8))) & 1 }
func setBit(id *krpc.ID, i int, v int) {
	m := byte(1) << (7 - uint(i%8))
	if v != 0 {
		id[i/8] |= m
	} else {
		id[i/8] &^= m
	}
}

func (e Embedding) Conc(abs int) (id krpc.ID) {
	id = e.Filler
	for j := 0; j < e.W; j++ {
		setBit(&id, e.Off+j, (abs>>(uint(e.W-1-j)))&1)
	}
	return
}

// Abs returns the abstract value of id and whether id is in the image of the embedding.
func (e Embedding) Abs(id krpc.ID) (abs int, ok bool) {
	ok = true
	for i := 0; i < 160; i++ {
		if i >= e.Off && i < e.Off+e.W {
			abs = abs<<1 | getBit(&id, i)
		} else if getBit(&id, i) != getBit(&e.Filler, i) {
			ok = false
		}
	}
	return
}

// MustAbs is Abs for IDs that the harness itself handed to the code under test; -2 marks a
// foreign ID, which no specification accepts.
func (e Embedding) MustAbs(id krpc.ID) int {
	a, ok := e.Abs(id)
	if !ok {
		return -2
	}
	return a
}

func IDBytes(id krpc.ID) []int {
	r := make([]int, 20)
	for i, b := range id {
		r[i] = int(b)
	}
	return r
}
