package sim

import (
	"errors"
	"net"
	"runtime"
	"strings"
	"sync"
	"time"
)

// Conn is the net.PacketConn handed to dht.NewServer. Datagrams are injected synchronously
// (Inject returns once the serve loop has come back to ReadFrom, i.e. the datagram has been
// completely processed under the server lock) and every written datagram is captured with a
// sequence number taken inside the connection's own mutex.
type Conn struct {
	Local net.Addr

	mu      sync.Mutex
	cond    *sync.Cond
	reads   int
	prevAck chan struct{}
	in      chan pkt
	closed  chan struct{}
	once    sync.Once
	seq     int
	out     []Out
	all     []OutF
	// OnWrite, when set, is called before a write is recorded; it may block (a gate) and may
	// return an error to make the write fail. It is called without c.mu held.
	OnWrite func(b []byte, to net.Addr) error
	// Custom: sources are delivered as Addr values instead of *net.UDPAddr
	Custom bool
	zones  map[string]string // ip:port -> IPv6 zone of the datagrams delivered from there
}

type pkt struct {
	b    []byte
	from net.Addr
	ack  chan struct{}
}

type OutF struct {
	Out
	Failed bool
}

type Out struct {
	Seq  int
	B    []byte
	To   *net.UDPAddr
	When time.Time
	// Foreign: the address object given to WriteTo is not the kind this transport hands out with the datagrams it
	// delivers (another type, or the IPv6 zone of the source was lost): a transport other than plain UDP could not
	// route it
	Foreign bool
}

// Addr is what a transport other than UDP hands out as source address: some net.Addr that is neither a
// *net.UDPAddr nor a *net.TCPAddr.
type Addr struct{ U *net.UDPAddr }

func (a Addr) Network() string { return "sim" }
func (a Addr) String() string  { return a.U.String() }

func NewConn(local string) *Conn {
	la, err := net.ResolveUDPAddr("udp", local)
	if err != nil {
		panic(err)
	}
	c := &Conn{Local: la, in: make(chan pkt), closed: make(chan struct{})}
	c.cond = sync.NewCond(&c.mu)
	return c
}

func (c *Conn) ReadFrom(b []byte) (int, net.Addr, error) {
	c.mu.Lock()
	c.reads++
	if c.prevAck != nil {
		// the read loop is back: the previously delivered datagram has been completely processed
		close(c.prevAck)
		c.prevAck = nil
	}
	c.cond.Broadcast()
	c.mu.Unlock()
	select {
	case p := <-c.in:
		c.mu.Lock()
		c.prevAck = p.ack
		c.mu.Unlock()
		n := copy(b, p.b)
		if ua, ok := p.from.(*net.UDPAddr); ok {
			if ua.Zone != "" {
				c.mu.Lock()
				if c.zones == nil {
					c.zones = map[string]string{}
				}
				c.zones[(&net.UDPAddr{IP: ua.IP, Port: ua.Port}).String()] = ua.Zone
				c.mu.Unlock()
			}
			if c.Custom {
				return n, Addr{ua}, nil
			}
		}
		return n, p.from, nil
	case <-c.closed:
		return 0, nil, net.ErrClosed
	}
}

// Inject delivers one datagram and waits until the server's read loop asks for the next one.
// Returns false if the loop did not come back within the timeout (wedged or dead).
func (c *Conn) Inject(b []byte, from net.Addr, timeout time.Duration) bool {
	t := time.NewTimer(timeout)
	defer t.Stop()
	p := pkt{b, from, make(chan struct{})}
	select {
	case c.in <- p:
	case <-c.closed:
		return false
	case <-t.C:
		return false
	}
	select {
	case <-p.ack:
		return true
	case <-c.closed:
		return false
	case <-t.C:
		return false
	}
}

func (c *Conn) WriteTo(b []byte, to net.Addr) (int, error) {
	select {
	case <-c.closed:
		return 0, net.ErrClosed
	default:
	}
	short := false
	if h := c.OnWrite; h != nil {
		if err := h(b, to); err == ErrShort {
			short = true // the datagram leaves, but the socket reports one byte less and no error
		} else if err != nil {
			return 0, err
		}
	}
	var ua *net.UDPAddr
	foreign := false
	switch t := to.(type) {
	case *net.UDPAddr:
		ua, foreign = t, c.Custom
	case Addr:
		ua, foreign = t.U, !c.Custom
	}
	c.mu.Lock()
	if ua != nil {
		if z := c.zones[(&net.UDPAddr{IP: ua.IP, Port: ua.Port}).String()]; z != "" && ua.Zone != z {
			foreign = true
		}
	}
	c.seq++
	o := Out{Seq: c.seq, B: append([]byte{}, b...), To: ua, When: time.Now(), Foreign: foreign}
	c.out = append(c.out, o)
	c.all = append(c.all, OutF{o, false})
	c.cond.Broadcast()
	c.mu.Unlock()
	if short {
		return len(b) - 1, nil
	}
	return len(b), nil
}

// Failed records a write the OnWrite hook made fail.
func (c *Conn) Failed(b []byte, to net.Addr) {
	ua, _ := to.(*net.UDPAddr)
	c.mu.Lock()
	c.seq++
	c.all = append(c.all, OutF{Out{Seq: c.seq, B: append([]byte{}, b...), To: ua, When: time.Now()}, true})
	c.mu.Unlock()
}

// TakeAll removes and returns successful and failed writes in order (Take's view is emptied too).
func (c *Conn) TakeAll() []OutF {
	c.mu.Lock()
	defer c.mu.Unlock()
	o := c.all
	c.all = nil
	c.out = nil
	return o
}

// Peek returns the captured writes without removing them.
func (c *Conn) Peek() []OutF {
	c.mu.Lock()
	defer c.mu.Unlock()
	return append([]OutF{}, c.all...)
}

// Take removes and returns the writes captured so far.
func (c *Conn) Take() []Out {
	c.mu.Lock()
	defer c.mu.Unlock()
	o := c.out
	c.out = nil
	c.all = nil
	return o
}

func (c *Conn) NumOut() int {
	c.mu.Lock()
	defer c.mu.Unlock()
	return len(c.out)
}

// WaitOut waits until at least n writes are captured.
func (c *Conn) WaitOut(n int, timeout time.Duration) bool {
	deadline := time.Now().Add(timeout)
	for {
		if c.NumOut() >= n {
			return true
		}
		if time.Now().After(deadline) {
			return false
		}
		time.Sleep(50 * time.Microsecond)
	}
}

func (c *Conn) Close() error {
	c.once.Do(func() { close(c.closed) })
	return nil
}
func (c *Conn) LocalAddr() net.Addr                { return c.Local }
func (c *Conn) SetDeadline(t time.Time) error      { return nil }
func (c *Conn) SetReadDeadline(t time.Time) error  { return nil }
func (c *Conn) SetWriteDeadline(t time.Time) error { return nil }

var ErrInjected = errors.New("injected write failure")

// ErrShort, returned by OnWrite, makes WriteTo record the datagram and report a short count without an error.
var ErrShort = errors.New("short write")

// Goroutines returns, for every goroutine with a frame of the module under test, the list of its
// function names (innermost first).
func Goroutines() [][]string {
	buf := make([]byte, 1<<20)
	for {
		n := runtime.Stack(buf, true)
		if n < len(buf) {
			buf = buf[:n]
			break
		}
		buf = make([]byte, 2*len(buf))
	}
	var res [][]string
	for _, g := range strings.Split(string(buf), "\n\n") {
		if !strings.Contains(g, "github.com/anacrolix/dht/v2") {
			continue
		}
		var fr []string
		for _, l := range strings.Split(g, "\n") {
			if strings.HasPrefix(l, "\t") || strings.HasPrefix(l, "goroutine ") {
				continue
			}
			if strings.HasPrefix(l, "created by ") {
				l = strings.TrimPrefix(l, "created by ")
				if i := strings.Index(l, " in goroutine"); i > 0 {
					l = l[:i]
				}
			} else if i := strings.LastIndex(l, "("); i > 0 {
				l = l[:i]
			}
			fr = append(fr, l)
		}
		res = append(res, fr)
	}
	return res
}

// CountGoroutines counts module goroutines that have a frame containing any of the substrings.
func CountGoroutines(subs ...string) int {
	n := 0
	for _, g := range Goroutines() {
		hit := false
		for _, f := range g {
			for _, s := range subs {
				if strings.Contains(f, s) {
					hit = true
				}
			}
		}
		if hit {
			n++
		}
	}
	return n
}

// Transient goroutines the server spawns per inbound datagram (replies, errors, callbacks, response
// delivery). Quiescence after an injection = none of these is left.
var TransientFrames = []string{
	"(*Server).reply.func", "(*Server).sendError.func", "(*Server).handleQuery",
	"(*transaction).handleResponse", "peer-store.", "peer_store.",
}

func WaitQuiet(timeout time.Duration) bool {
	deadline := time.Now().Add(timeout)
	for {
		if CountGoroutines(TransientFrames...) == 0 {
			return true
		}
		if time.Now().After(deadline) {
			return false
		}
		time.Sleep(100 * time.Microsecond)
	}
}
