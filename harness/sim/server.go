package sim

import (
	"encoding/hex"
	"fmt"
	"net"

	"github.com/anacrolix/torrent/iplist"
)

// BlockSet is the harness's own definition of "covered by the blocklist": a set of IPs.
type BlockSet map[string]bool

func ipKey(ip net.IP) string { return string(ip.To16()) }

func (b BlockSet) Lookup(ip net.IP) (iplist.Range, bool) {
	if b[ipKey(ip)] {
		return iplist.Range{First: ip, Last: ip, Description: "harness"}, true
	}
	return iplist.Range{}, false
}
func (b BlockSet) NumRanges() int     { return len(b) }
func (b BlockSet) Has(ip net.IP) bool { return b[ipKey(ip)] }
func (b BlockSet) Add(ip net.IP)      { b[ipKey(ip)] = true }
func (b BlockSet) Clone() BlockSet {
	c := BlockSet{}
	for k := range b {
		c[k] = true
	}
	return c
}

// SharedPrefix is the number of leading bits two 20-byte IDs have in common (160 if equal).
func SharedPrefix(a, b [20]byte) int {
	for i := 0; i < 20; i++ {
		x := a[i] ^ b[i]
		if x != 0 {
			n := 0
			for m := byte(0x80); m != 0 && x&m == 0; m >>= 1 {
				n++
			}
			return i*8 + n
		}
	}
	return 160
}

func Hex(b []byte) string { return hex.EncodeToString(b) }

// CompactNodes splits a compact node list into (id hex, "ip:port") pairs; ok is false if the
// length is not a multiple of the entry size.
func CompactNodes(b []byte, ipLen int) (res [][2]string, ok bool) {
	sz := 20 + ipLen + 2
	if len(b)%sz != 0 {
		return nil, false
	}
	for i := 0; i+sz <= len(b); i += sz {
		ip := net.IP(b[i+20 : i+20+ipLen])
		port := int(b[i+20+ipLen])<<8 | int(b[i+21+ipLen])
		ua := net.UDPAddr{IP: ip, Port: port}
		res = append(res, [2]string{Hex(b[i : i+20]), ua.String()})
	}
	return res, true
}

// CompactAddr renders ip:port in compact form (4 or 16 byte IP as given).
func CompactAddr(ip net.IP, port int) []byte {
	return append(append([]byte{}, ip...), byte(port>>8), byte(port))
}

func MustUDP(s string) *net.UDPAddr {
	a, err := net.ResolveUDPAddr("udp", s)
	if err != nil {
		panic(fmt.Sprint(s, err))
	}
	return a
}
