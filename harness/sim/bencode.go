package sim

import (
	"bytes"
	"errors"
	"fmt"
	"sort"
	"strconv"
)

// An independent, minimal bencode reader/writer for the harness: outbound datagrams of the node
// under test are decoded with this, not with the krpc/bencode packages under test, and inbound
// datagrams (including deliberately malformed ones) are built with it.

// Value is one of: []byte (string), int64, []Value (list), *Dict.
type Value any

type Dict struct {
	Keys []string
	Vals map[string]Value
}

func NewDict() *Dict { return &Dict{Vals: map[string]Value{}} }

func (d *Dict) Set(k string, v Value) *Dict {
	if _, ok := d.Vals[k]; !ok {
		d.Keys = append(d.Keys, k)
	}
	d.Vals[k] = v
	return d
}

func (d *Dict) Del(k string) *Dict {
	if _, ok := d.Vals[k]; ok {
		delete(d.Vals, k)
		for i, x := range d.Keys {
			if x == k {
				d.Keys = append(d.Keys[:i:i], d.Keys[i+1:]...)
				break
			}
		}
	}
	return d
}

func (d *Dict) Get(k string) (Value, bool) {
	if d == nil {
		return nil, false
	}
	v, ok := d.Vals[k]
	return v, ok
}

func (d *Dict) Str(k string) ([]byte, bool) {
	v, ok := d.Get(k)
	if !ok {
		return nil, false
	}
	b, ok := v.([]byte)
	return b, ok
}

func (d *Dict) Int(k string) (int64, bool) {
	v, ok := d.Get(k)
	if !ok {
		return 0, false
	}
	i, ok := v.(int64)
	return i, ok
}

func (d *Dict) Dict(k string) *Dict {
	v, ok := d.Get(k)
	if !ok {
		return nil
	}
	x, _ := v.(*Dict)
	return x
}

func (d *Dict) List(k string) ([]Value, bool) {
	v, ok := d.Get(k)
	if !ok {
		return nil, false
	}
	l, ok := v.([]Value)
	return l, ok
}

// D builds a dict from alternating key, value arguments. Values may be string, []byte, int,
// int64, bool-free; []Value; *Dict; Raw.
func D(kv ...any) *Dict {
	d := NewDict()
	for i := 0; i+1 < len(kv); i += 2 {
		d.Set(kv[i].(string), norm(kv[i+1]))
	}
	return d
}

// Raw is spliced into the encoding verbatim (for malformed messages).
type Raw []byte

func norm(v any) Value {
	switch x := v.(type) {
	case string:
		return []byte(x)
	case int:
		return int64(x)
	case []any:
		l := make([]Value, len(x))
		for i := range x {
			l[i] = norm(x[i])
		}
		return l
	default:
		return v
	}
}

func L(vs ...any) []Value {
	l := make([]Value, len(vs))
	for i := range vs {
		l[i] = norm(vs[i])
	}
	return l
}

func Encode(v Value) []byte {
	var b bytes.Buffer
	enc(&b, v, true)
	return b.Bytes()
}

// EncodeUnsorted keeps dictionary keys in insertion order (a malformation real peers produce).
func EncodeUnsorted(v Value) []byte {
	var b bytes.Buffer
	enc(&b, v, false)
	return b.Bytes()
}

func enc(b *bytes.Buffer, v Value, sorted bool) {
	switch x := v.(type) {
	case []byte:
		b.WriteString(strconv.Itoa(len(x)))
		b.WriteByte(':')
		b.Write(x)
	case string:
		enc(b, []byte(x), sorted)
	case int64:
		fmt.Fprintf(b, "i%de", x)
	case int:
		fmt.Fprintf(b, "i%de", x)
	case []Value:
		b.WriteByte('l')
		for _, e := range x {
			enc(b, e, sorted)
		}
		b.WriteByte('e')
	case *Dict:
		b.WriteByte('d')
		keys := append([]string{}, x.Keys...)
		if sorted {
			sort.Strings(keys)
		}
		for _, k := range keys {
			enc(b, []byte(k), sorted)
			enc(b, x.Vals[k], sorted)
		}
		b.WriteByte('e')
	case Raw:
		b.Write(x)
	case nil:
	default:
		panic(fmt.Sprintf("sim.Encode: %T", v))
	}
}

var ErrBencode = errors.New("bad bencode")

// Decode parses one value and returns the number of bytes consumed.
func Decode(b []byte) (Value, int, error) {
	return dec(b, 0, 0)
}

func dec(b []byte, i, depth int) (Value, int, error) {
	if i >= len(b) || depth > 64 {
		return nil, i, ErrBencode
	}
	switch c := b[i]; {
	case c == 'i':
		j := bytes.IndexByte(b[i:], 'e')
		if j < 0 {
			return nil, i, ErrBencode
		}
		n, err := strconv.ParseInt(string(b[i+1:i+j]), 10, 64)
		if err != nil {
			return nil, i, ErrBencode
		}
		return n, i + j + 1, nil
	case c >= '0' && c <= '9':
		j := bytes.IndexByte(b[i:], ':')
		if j < 0 {
			return nil, i, ErrBencode
		}
		n, err := strconv.Atoi(string(b[i : i+j]))
		if err != nil || n < 0 || i+j+1+n > len(b) {
			return nil, i, ErrBencode
		}
		s := append([]byte{}, b[i+j+1:i+j+1+n]...)
		return s, i + j + 1 + n, nil
	case c == 'l':
		i++
		l := []Value{}
		for {
			if i >= len(b) {
				return nil, i, ErrBencode
			}
			if b[i] == 'e' {
				return l, i + 1, nil
			}
			v, n, err := dec(b, i, depth+1)
			if err != nil {
				return nil, n, err
			}
			l = append(l, v)
			i = n
		}
	case c == 'd':
		i++
		d := NewDict()
		for {
			if i >= len(b) {
				return nil, i, ErrBencode
			}
			if b[i] == 'e' {
				return d, i + 1, nil
			}
			k, n, err := dec(b, i, depth+1)
			if err != nil {
				return nil, n, err
			}
			ks, ok := k.([]byte)
			if !ok {
				return nil, n, ErrBencode
			}
			v, n2, err := dec(b, n, depth+1)
			if err != nil {
				return nil, n2, err
			}
			d.Set(string(ks), v)
			i = n2
		}
	}
	return nil, i, ErrBencode
}

// DecodeDict decodes a complete datagram that must be one dictionary.
func DecodeDict(b []byte) (*Dict, error) {
	v, n, err := Decode(b)
	if err != nil {
		return nil, err
	}
	d, ok := v.(*Dict)
	if !ok || n != len(b) {
		return nil, ErrBencode
	}
	return d, nil
}
